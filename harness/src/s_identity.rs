//! C10 (library part): LongTermKey / OnlineKey probed directly for many seeds and repeated starts.
use crate::interp::{self, Proto};
use crate::refcodec as rc;
use crate::util::{guarded, hex, unhex, Rng};
use roughenough::key::{LongTermKey, OnlineKey};
use roughenough::version::Version;
use serde_json::json;

pub fn record(seed: u64, tier: &str) {
    let mut rng = Rng::new(seed ^ 0xC10);
    let mut seeds: Vec<Vec<u8>> = vec![vec![0u8; 32], vec![0xff; 32],
        unhex("9d61b19deffd5a60ba844af492ec2cc44449c5697b326919703bac031cae7f60"),
        unhex("4ccd089b28ff96da9db6c346ec114e0f5b8a319f35aba624da8cf6ed4fb8a6fb"),
        unhex("a32049da0ffde0ded92ce10a0230d35fe615ec8461c14986baa63fe3b3bac3db")];
    for _ in 0..(if tier == "thorough" { 2000 } else { 200 }) { seeds.push(rng.bytes(32)); }
    let mut execs = 0u64;
    let mut report = |kind: &str, what: String, seed: &[u8]| println!("{}", json!({"rec": "mismatch", "kind": kind, "what": what, "seed_hex": hex(seed)}));
    for sd in &seeds {
        let s32: [u8; 32] = sd.clone().try_into().unwrap();
        let pk = interp::pk_of_seed(&s32);
        let srv = interp::srv_of_pk(&pk);
        for start in 0..3 {
            execs += 1;
            let r = guarded(|| {
                let mut ltk = LongTermKey::new(sd);
                let mut problems: Vec<(String, String)> = vec![];
                if ltk.public_key() != pk.to_vec() { problems.push(("public_key".into(), format!("public_key() is not the RFC 8032 public key of the seed (start {})", start))); }
                if ltk.srv_value() != srv.as_slice() { problems.push(("srv".into(), "srv_value() is not SHA-512(0xff || public key)[0..32]".into())); }
                if LongTermKey::calc_srv_value(&pk) != srv { problems.push(("srv".into(), "calc_srv_value differs".into())); }
                // several certificates from ONE LongTermKey object, both protocols, in both orders
                let order = if start % 2 == 0 { [Version::RfcDraft13, Version::Google, Version::Google, Version::RfcDraft13] } else { [Version::Google, Version::RfcDraft13, Version::RfcDraft13, Version::Google] };
                for v in order {
                    let mut olk = OnlineKey::new();
                    let olk_pub = unhex(&format!("{}", olk));
                    let cert = ltk.make_cert(&v, &olk).encode().unwrap();
                    let p = if v == Version::Google { Proto::Google } else { Proto::Ietf };
                    let o = if p == Proto::Google { Proto::Ietf } else { Proto::Google };
                    let f = match rc::ref_decode(&cert) { Some(f) => f, None => { problems.push(("cert".into(), "CERT does not decode".into())); continue; } };
                    let (sig, dele) = match (rc::get(&f, rc::SIG), rc::get(&f, rc::DELE)) { (Some(a), Some(b)) => (a.to_vec(), b.to_vec()), _ => { problems.push(("cert".into(), "CERT lacks SIG/DELE".into())); continue; } };
                    let mut m = p.dele_ctx().to_vec(); m.extend_from_slice(&dele);
                    if !interp::verify_oneshot(&pk, &m, &sig) { problems.push(("cert_sig".into(), format!("certificate for {:?} does not verify under the long-term key with the protocol's delegation context", v))); }
                    let mut m2 = o.dele_ctx().to_vec(); m2.extend_from_slice(&dele);
                    if interp::verify_oneshot(&pk, &m2, &sig) { problems.push(("cert_ctx".into(), "certificate verifies under the other protocol's context".into())); }
                    match rc::ref_decode(&dele) {
                        Some(d) => {
                            if rc::get(&d, rc::PUBK) != Some(olk_pub.as_slice()) { problems.push(("dele".into(), "DELE.PUBK is not the online key".into())); }
                            // the window must contain the midpoint of every response this key can sign: clock values
                            // from the epoch to beyond year 2200 (the server's clock is an environment input)
                            match (rc::get(&d, rc::MINT), rc::get(&d, rc::MAXT)) {
                                (Some(mi), Some(ma)) if mi.len() == 8 && ma.len() == 8 => {
                                    let (mint, maxt) = (crate::util::rd64(mi), crate::util::rd64(ma));
                                    let now = std::time::SystemTime::now().duration_since(std::time::UNIX_EPOCH).unwrap().as_secs();
                                    for secs in [0u64, 1, now.saturating_sub(86_400), now, now + 86_400 * 365, 1u64 << 32, 7_258_118_400, 253_402_300_799] {
                                        let t = std::time::UNIX_EPOCH + std::time::Duration::new(secs, 999_999_999);
                                        let root = vec![0u8; p.width()];
                                        let srep_msg = olk.make_srep(v, t, &root).encode().unwrap();
                                        let midp = rc::ref_decode(&srep_msg).and_then(|f| rc::get(&f, rc::SREP).map(|x| x.to_vec()))
                                            .and_then(|sr| rc::ref_decode(&sr)).and_then(|f| rc::get(&f, rc::MIDP).map(crate::util::rd64));
                                        match midp {
                                            Some(m) if m >= mint && m <= maxt => {}
                                            Some(m) => { problems.push(("dele_window".into(), format!("midpoint {} of a response signed at clock {}s lies outside the delegation window [{}, {}]", m, secs, mint, maxt))); break; }
                                            None => { problems.push(("srep".into(), "make_srep output does not decode".into())); break; }
                                        }
                                    }
                                }
                                _ => problems.push(("dele".into(), "DELE lacks MINT/MAXT".into())),
                            }
                        }
                        None => problems.push(("dele".into(), "DELE does not decode".into())),
                    }
                }
                problems
            });
            match r {
                Ok(ps) => for (k, w) in ps { report(&k, w, sd); },
                Err(p) => report("panic", format!("panic: {}", p), sd),
            }
        }
    }
    println!("{}", json!({"rec": "summary", "executions": execs, "seeds": seeds.len()}));
}
