//! rvh: the Rust side of the conformance machinery. Subcommands drive the REAL
//! roughenough code (library objects, in-process Server) either from behaviours that TLC
//! generated (`replay`) or from seeded drivers whose observations TLC then validates
//! (`record`). Mismatches are data on stdout; exit status 2 means the harness itself failed.
use rvharness::*;

fn arg<'a>(args: &'a [String], name: &str) -> Option<&'a str> {
    args.iter().position(|a| a == name).and_then(|i| args.get(i + 1)).map(|s| s.as_str())
}

/// Replaces libc's `clock_gettime` for everything linked into this binary (std's `SystemTime::now()` included):
/// CLOCK_REALTIME is shifted by `util::REALTIME_SHIFT_SECS` (0 unless a driver steps the clock); other clocks pass through.
#[no_mangle]
pub unsafe extern "C" fn clock_gettime(clock_id: libc::clockid_t, ts: *mut libc::timespec) -> libc::c_int {
    let rc = libc::syscall(libc::SYS_clock_gettime, clock_id as libc::c_long, ts) as libc::c_int;
    if rc == 0 && clock_id == libc::CLOCK_REALTIME {
        (*ts).tv_sec += util::REALTIME_SHIFT_SECS.load(std::sync::atomic::Ordering::SeqCst);
    }
    rc
}

fn main() {
    let args: Vec<String> = std::env::args().collect();
    if args.len() < 3 {
        eprintln!("usage: rvh <suite> <mode> [--in F] [--out F] [--seed N] [--tier quick|thorough]");
        std::process::exit(2);
    }
    util::quiet_panics();
    if let Err(e) = interp::self_check() {
        eprintln!("interpretation self-check failed: {}", e);
        std::process::exit(2);
    }
    if let Err(e) = refcodec::self_check() {
        eprintln!("reference codec self-check failed: {}", e);
        std::process::exit(2);
    }
    let seed: u64 = arg(&args, "--seed").and_then(|s| s.parse().ok()).unwrap_or(1);
    let tier = arg(&args, "--tier").unwrap_or("quick").to_string();
    let inp = arg(&args, "--in").unwrap_or("").to_string();
    let out = arg(&args, "--out").unwrap_or("").to_string();
    // library suites run with a logger installed at Trace level: log arguments are evaluated lazily, so code that only runs
    // when a record is formatted (slices, unwraps inside log macros) is exercised too. (The server suite sets its own levels.)
    if !matches!(args[1].as_str(), "server" | "proc" | "client" | "selfcheck") {
        rig::install_logger();
        rig::set_log_level(5);
    }
    if !matches!(args[1].as_str(), "proc" | "selfcheck") {
        util::start_call_watchdog(120_000, format!("{} {}", args[1], args[2]));
    }
    let run = std::panic::catch_unwind(std::panic::AssertUnwindSafe(|| run_suite(&args, seed, &tier, &inp, &out)));
    if run.is_err() {
        // a panic that no `guarded` call caught: in the repository's code it is a finding (exit status 4, record on stderr),
        // anywhere else it is a failure of the harness itself (exit status 101)
        if let Some((file, line, msg)) = util::unguarded_panic_in_code_under_test() {
            eprintln!("{}", serde_json::json!({"rec": "unguarded_panic", "what": format!("{} {}", args[1], args[2]), "file": file, "line": line, "msg": msg}));
            std::process::exit(4);
        }
        std::process::exit(101);
    }
}

fn run_suite(args: &[String], seed: u64, tier: &str, inp: &str, out: &str) {
    let (tier, inp, out) = (tier.to_string(), inp.to_string(), out.to_string());
    match (args[1].as_str(), args[2].as_str()) {
        ("merkle", "replay") => s_merkle::replay(&inp),
        ("merkle", "record") => s_merkle::record(seed, &tier, &out),
        ("wire", "replay") => s_wire::replay(&inp),
        ("wire", "record") => s_wire::record(seed, &tier, &out),
        ("wire", "deep") => s_wire::deep(seed),
        ("signer", "replay") => s_signer::replay(&inp, &tier),
        ("signer", "record") => s_signer::record(seed, &tier, &out),
        ("envelope", "replay") => s_envelope::replay(&inp, &tier),
        ("envelope", "record") => s_envelope::record(seed, &tier, &out),
        ("config", "replay") => s_config::replay(&inp, arg(&args, "--workdir").unwrap_or("/tmp")),
        ("config", "record") => s_config::record(seed, &tier, &out, arg(&args, "--workdir").unwrap_or("/tmp")),
        ("stats", "replay") => s_stats::replay(&inp, &out),
        ("stats", "record") => s_stats::record(seed, &tier, &out),
        ("server", "record") => s_server::record(arg(&args, "--driver").unwrap_or("mixed"), seed, &tier, &out, &inp),
        ("identity", "record") => s_identity::record(seed, &tier),
        ("clock", "replay") => s_clock::replay(&inp, &out),
        ("clock", "record") => s_clock::record(seed, &tier, &out),
        ("client", "replay") => s_client::replay(&inp, &out, arg(&args, "--client").unwrap_or(""), seed, &tier),
        ("client", "record") => s_client::record(&out, arg(&args, "--client").unwrap_or(""), seed, &tier),
        ("proc", "run") => s_proc::run_scenarios(&inp, &out, arg(&args, "--server").unwrap_or(""), arg(&args, "--workdir").unwrap_or("/tmp"), seed),
        ("client", "real") => s_client::record_real(&out, arg(&args, "--client").unwrap_or(""), arg(&args, "--server").unwrap_or(""), arg(&args, "--workdir").unwrap_or("/tmp"), seed, &tier),
        ("selfcheck", _) => println!("{{\"rec\":\"ok\"}}"),
        (s, m) => {
            eprintln!("unknown suite/mode {} {}", s, m);
            std::process::exit(2);
        }
    }
}
