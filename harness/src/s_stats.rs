//! C17 (recorders, queue, reporter): real PerClientStats / AggregatedStats / StatsQueue / Reporter
//! driven by TLC behaviours (replay) and by seeded long sequences (record); every operation logs the
//! projection read through the public API and TLC validates each step against Stats.tla.
use crate::util::{guarded, Rng};
use roughenough::stats::{AggregatedStats, ClientStats, PerClientStats, Reporter, ServerStats, StatsQueue};
use roughenough::Error;
use serde_json::{json, Value};
use std::io::{BufRead, Write};
use std::net::{IpAddr, Ipv4Addr};
use std::sync::Arc;
use std::time::Duration;

pub const N_ADDRS: u64 = 8;

/// The abstract addresses 1..N_ADDRS of Stats.tla are distinct keys; their concrete form changes from world to world:
///   mode 0: IPv4 10.0.0.a
///   mode 1: odd a IPv4, even a the IPv4-MAPPED IPv6 address ::ffff:10.0.0.a
///   mode 2: 1 = 10.0.0.1, 2 = ::ffff:10.0.0.1 (same embedded IPv4, a different key), odd a > 2 IPv6 2001:db8::a, even a mapped
static ADDR_MODE: std::sync::atomic::AtomicUsize = std::sync::atomic::AtomicUsize::new(0);
static WORLDS: std::sync::atomic::AtomicUsize = std::sync::atomic::AtomicUsize::new(0);
fn addr(a: u64) -> IpAddr {
    let v4 = |x: u64| Ipv4Addr::new(10, 0, 0, x as u8);
    match ADDR_MODE.load(std::sync::atomic::Ordering::Relaxed) {
        0 => IpAddr::V4(v4(a)),
        1 => if a % 2 == 1 { IpAddr::V4(v4(a)) } else { IpAddr::V6(v4(a).to_ipv6_mapped()) },
        _ => match a {
            1 => IpAddr::V4(v4(1)),
            2 => IpAddr::V6(v4(1).to_ipv6_mapped()),
            a if a % 2 == 1 => IpAddr::V6(std::net::Ipv6Addr::new(0x2001, 0xdb8, 0, 0, 0, 0, 0, a as u16)),
            a => IpAddr::V6(v4(a).to_ipv6_mapped()),
        },
    }
}
fn addr_id(ip: &IpAddr) -> u64 { (1..=N_ADDRS).find(|a| addr(*a) == *ip).unwrap_or(0) }

fn counters(c: &ClientStats) -> Vec<u64> {
    vec![c.rfc_requests as u64, c.classic_requests as u64, c.invalid_requests as u64, c.failed_send_attempts as u64,
         c.retried_send_attempts as u64, c.health_checks as u64, c.rfc_responses_sent as u64, c.classic_responses_sent as u64, c.bytes_sent as u64]
}

fn getters(s: &dyn ServerStats) -> Value {
    json!({"valid": s.total_valid_requests(), "rfc": s.num_rfc_requests(), "classic": s.num_classic_requests(),
           "invalid": s.total_invalid_requests(), "failed": s.total_failed_send_attempts(), "retried": s.total_retried_send_attempts(),
           "health": s.total_health_checks(), "responses": s.total_responses_sent(), "rfc_resp": s.num_rfc_responses_sent(),
           "classic_resp": s.num_classic_responses_sent(), "bytes": s.total_bytes_sent(), "unique": s.total_unique_clients()})
}

pub fn record_op(s: &mut dyn ServerStats, k: u64, a: u64, b: u64) {
    let ip = addr(a);
    match k {
        1 => s.add_ietf_request(&ip),
        2 => s.add_classic_request(&ip),
        3 => s.add_invalid_request(&ip, &Error::RequestTooShort),
        4 => s.add_failed_send_attempt(&ip),
        5 => s.add_retried_send_attempt(&ip),
        6 => s.add_health_check(&ip),
        7 => s.add_rfc_response(&ip, b as usize),
        _ => s.add_classic_response(&ip, b as usize),
    }
}

struct Worker { per: PerClientStats, agg: AggregatedStats }

/// queue + reporter are expensive to create (the reporter reserves MAX_CLIENTS entries), so one pair per
/// queue capacity is reused: emptied and cleared between sections
pub struct Plant { queue: Arc<StatsQueue>, reporter: Reporter, qcap: usize }

impl Plant {
    pub fn new(qcap: usize) -> Plant {
        let queue = Arc::new(StatsQueue::new(qcap));
        Plant { reporter: Reporter::new(queue.clone(), &Duration::from_secs(3600), None), queue, qcap }
    }
    fn reset(&mut self) { while self.queue.pop().is_some() {} self.reporter.verif_clear(); }
}

struct World<'a> { workers: Vec<Worker>, queue: Arc<StatsQueue>, reporter: &'a mut Reporter, limit: usize, qcap: usize }

impl<'a> World<'a> {
    fn new(limit: usize, plant: &'a mut Plant, nworkers: usize) -> World<'a> {
        plant.reset();
        ADDR_MODE.store(WORLDS.fetch_add(1, std::sync::atomic::Ordering::Relaxed) % 3, std::sync::atomic::Ordering::Relaxed);
        World { workers: (0..nworkers).map(|_| Worker { per: PerClientStats::with_limit_verif(limit), agg: AggregatedStats::new() }).collect(),
                queue: plant.queue.clone(), qcap: plant.qcap, reporter: &mut plant.reporter, limit }
    }
    fn new_event(&self) -> Value { json!({"ev": "new", "limit": self.limit, "qcap": self.qcap}) }

    fn projection(&self, w: usize) -> Value {
        let per = &self.workers[w].per;
        let mut tracked = vec![];
        let mut cnt = vec![];
        for a in 1..=N_ADDRS {
            match per.stats_for_client(&addr(a)) {
                Some(c) => { tracked.push(a); cnt.push(counters(c)); }
                None => cnt.push(vec![0; 9]),
            }
        }
        let mut g = getters(per);
        g["overflows"] = json!(per.num_overflows());
        let agg = &self.workers[w].agg;
        let aggc = vec![agg.num_rfc_requests(), agg.num_classic_requests(), agg.total_invalid_requests(), agg.total_failed_send_attempts(),
            agg.total_retried_send_attempts(), agg.total_health_checks(), agg.num_rfc_responses_sent(), agg.num_classic_responses_sent(), agg.total_bytes_sent() as u64];
        json!({"tracked": tracked, "cnt": cnt, "ovf": per.num_overflows(), "getters": g, "agg": aggc, "agg_getters": getters(agg)})
    }

    fn rec(&mut self, w: usize, k: u64, a: u64, b: u64) -> Value {
        let r = guarded(|| { record_op(&mut self.workers[w].per, k, a, b); record_op(&mut self.workers[w].agg, k, a, b); });
        let mut e = json!({"ev": "rec", "w": w + 1, "k": k, "a": a, "b": b, "post": self.projection(w)});
        if let Err(p) = r { e["panic"] = json!(p); e["ev"] = json!("panic"); }
        e
    }

    /// ServerStats::clear() on both recorders of a worker
    fn clear(&mut self, w: usize) -> Value {
        let r = guarded(|| { self.workers[w].per.clear(); self.workers[w].agg.clear(); });
        let mut e = json!({"ev": "clear", "w": w + 1, "post": self.projection(w)});
        if let Err(p) = r { e["panic"] = json!(p); e["ev"] = json!("panic"); }
        e
    }

    /// what Server::send_client_stats does with its recorder and queue
    fn snapshot(&mut self, w: usize) -> Value {
        let per = &mut self.workers[w].per;
        let clients: Vec<ClientStats> = per.iter().map(|(_, s)| *s).collect();
        let mut pushed_cnt = vec![vec![0u64; 9]; N_ADDRS as usize];
        let mut pushed_addrs = vec![];
        for c in &clients { let id = addr_id(&c.ip_addr); pushed_addrs.push(id); if id >= 1 && id <= N_ADDRS { pushed_cnt[id as usize - 1] = counters(c); } }
        pushed_addrs.sort();
        if !clients.is_empty() { self.queue.force_push(clients); per.clear(); }
        json!({"ev": "snapshot", "w": w + 1, "pushed_addrs": pushed_addrs, "pushed_cnt": pushed_cnt,
               "post_unique": per.total_unique_clients(), "post_ovf": per.num_overflows()})
    }

    fn merge(&mut self) -> Value {
        self.reporter.receive_client_stats();
        let mut rep = vec![vec![0u64; 9]; N_ADDRS as usize];
        for c in self.reporter.verif_client_stats() { let id = addr_id(&c.ip_addr); if id >= 1 && id <= N_ADDRS { rep[id as usize - 1] = counters(&c); } }
        json!({"ev": "merge", "rep": rep})
    }

    /// Reporter::report() with a persistence directory: the file it writes must hold exactly the merged sums.
    /// A second reporter on its own queue is fed with the same merged entries (the shared one has no output location).
    fn report_file(&mut self, dir: &str) -> Value {
        let _ = std::fs::remove_dir_all(dir);
        std::fs::create_dir_all(dir).unwrap();
        let q = Arc::new(StatsQueue::new(4));
        let merged = self.reporter.verif_client_stats();
        let mut rep2 = Reporter::new(q.clone(), &Duration::from_secs(3600), Some(std::path::PathBuf::from(dir)));
        if !merged.is_empty() { let _ = q.push(merged); }
        rep2.receive_client_stats();
        rep2.report();
        let mut rows = vec![vec![0u64; 9]; N_ADDRS as usize];
        let mut files = 0;
        let mut readable = true;
        if let Ok(rd) = std::fs::read_dir(dir) {
            for e in rd.flatten() {
                files += 1;
                let f = match std::fs::File::open(e.path()) { Ok(f) => f, Err(_) => { readable = false; continue; } };
                let dec = match zstd::Decoder::new(f) { Ok(d) => d, Err(_) => { readable = false; continue; } };
                let mut rdr = csv::Reader::from_reader(dec);
                let headers: Vec<String> = rdr.headers().map(|h| h.iter().map(|x| x.to_string()).collect()).unwrap_or_default();
                let col = |name: &str| headers.iter().position(|h| h == name);
                let order = ["rfc_requests", "classic_requests", "invalid_requests", "failed_send_attempts", "retried_send_attempts", "health_checks",
                             "rfc_responses_sent", "classic_responses_sent", "bytes_sent"];
                for rec in rdr.records().flatten() {
                    let ip = col("ip_addr").and_then(|c| rec.get(c)).unwrap_or("");
                    let id: u64 = ip.parse::<IpAddr>().map(|x| addr_id(&x)).unwrap_or(0);
                    if id >= 1 && id <= N_ADDRS {
                        for (k, name) in order.iter().enumerate() {
                            rows[id as usize - 1][k] = col(name).and_then(|c| rec.get(c)).and_then(|x| x.parse().ok()).unwrap_or(u64::MAX >> 40);
                        }
                    } else { readable = false; }
                }
            }
        }
        json!({"ev": "report_file", "files": files, "readable": readable, "rows": rows, "expect_file": !self.reporter.verif_client_stats().is_empty()})
    }

    fn report(&mut self) -> Value {
        // Reporter::processing_loop: report() then clear
        self.reporter.verif_clear();
        json!({"ev": "report"})
    }
}

/// Decode every statistics file (zstd-compressed CSV) in `dir`: (files, all readable, per-file rows of (ip, 9 counters in the
/// order rfc_requests, classic_requests, invalid_requests, failed_send_attempts, retried_send_attempts, health_checks,
/// rfc_responses_sent, classic_responses_sent, bytes_sent))
pub fn decode_report_dir(dir: &str) -> (usize, bool, Vec<(String, [u64; 9])>) {
    let mut files = 0usize;
    let mut readable = true;
    let mut rows = vec![];
    let order = ["rfc_requests", "classic_requests", "invalid_requests", "failed_send_attempts", "retried_send_attempts", "health_checks",
                 "rfc_responses_sent", "classic_responses_sent", "bytes_sent"];
    if let Ok(rd) = std::fs::read_dir(dir) {
        for e in rd.flatten() {
            files += 1;
            let f = match std::fs::File::open(e.path()) { Ok(f) => f, Err(_) => { readable = false; continue; } };
            let dec = match zstd::Decoder::new(f) { Ok(d) => d, Err(_) => { readable = false; continue; } };
            let mut rdr = csv::Reader::from_reader(dec);
            let headers: Vec<String> = rdr.headers().map(|h| h.iter().map(|x| x.to_string()).collect()).unwrap_or_default();
            let col = |name: &str| headers.iter().position(|h| h == name);
            for rec in rdr.records() {
                let rec = match rec { Ok(r) => r, Err(_) => { readable = false; continue; } };
                let ip = col("ip_addr").and_then(|c| rec.get(c)).unwrap_or("").to_string();
                let mut c = [0u64; 9];
                for (k, name) in order.iter().enumerate() {
                    match col(name).and_then(|i| rec.get(i)).and_then(|x| x.parse().ok()) { Some(v) => c[k] = v, None => readable = false }
                }
                rows.push((ip, c));
            }
        }
    }
    (files, readable, rows)
}

/// replay TLC behaviours (op sequences of MC_Stats) on real objects, writing the observation trace
pub fn replay(path: &str, out_path: &str) {
    let f = std::fs::File::open(path).expect("open behaviours");
    let mut out = std::io::BufWriter::new(std::fs::File::create(out_path).expect("create trace"));
    let mut n = 0u64;
    let mut plant = Plant::new(2);
    for line in std::io::BufReader::new(f).lines() {
        let line = line.unwrap();
        let v: Value = match serde_json::from_str(&line) { Ok(v) => v, Err(_) => continue };
        let hist = match v["hist"].as_array() { Some(h) => h, None => continue };
        let limit = v["limit"].as_u64().unwrap_or(2) as usize;
        let mut world = World::new(limit, &mut plant, 3);
        writeln!(out, "{}", world.new_event()).unwrap();
        n += 1;
        for op in hist {
            let e = match op["op"].as_str().unwrap_or("") {
                "rec" => world.rec(op["w"].as_u64().unwrap() as usize - 1, op["k"].as_u64().unwrap(), op["a"].as_u64().unwrap(), op["b"].as_u64().unwrap()),
                "snapshot" => world.snapshot(op["w"].as_u64().unwrap() as usize - 1),
                "clear" => world.clear(op["w"].as_u64().unwrap() as usize - 1),
                "merge" => world.merge(),
                "report" => world.report(),
                _ => continue,
            };
            writeln!(out, "{}", e).unwrap();
        }
    }
    out.flush().unwrap();
    println!("{}", json!({"rec": "summary", "executions": n}));
}

pub fn record(seed: u64, tier: &str, out_path: &str) {
    let mut rng = Rng::new(seed ^ 0xC17);
    let mut out = std::io::BufWriter::new(std::fs::File::create(out_path).expect("create trace"));
    let thorough = tier == "thorough";
    let sections = if thorough { 40 } else { 10 };
    let mut events = 0u64;
    let mut plants = vec![Plant::new(2), Plant::new(4), Plant::new(6)];
    for s in 0..sections {
        let limit = match s % 5 { 0 => 1, 1 => 2, 2 => 3, 3 => 8, _ => rng.range(1, 8) } as usize;
        let nworkers = 1 + (s % 3) as usize;
        let mut world = World::new(limit, &mut plants[nworkers - 1], nworkers);
        writeln!(out, "{}", world.new_event()).unwrap();
        let len = if s == 0 { 10_000 } else if thorough { rng.range(200, 3000) } else { rng.range(100, 800) };
        for _ in 0..len {
            let w = rng.below(nworkers as u64) as usize;
            let e = match rng.below(100) {
                0..=1 => world.snapshot(w),
                2 => world.merge(),
                3 if rng.chance(1, 3) => world.clear(w),
                _ => { let k = rng.range(1, 8); let a = rng.range(1, N_ADDRS); let b = if k >= 7 { rng.range(300, 1500) } else { 0 }; world.rec(w, k, a, b) }
            };
            writeln!(out, "{}", e).unwrap();
            events += 1;
        }
        let e = world.merge();
        writeln!(out, "{}", e).unwrap();
        let e = world.report_file(&format!("{}.persist", out_path));
        writeln!(out, "{}", e).unwrap();
        events += 2;
    }
    // SCALE: the reporter merging snapshots of tens of thousands of addresses in one pass (the small limits above never
    // reach a per-pass budget, a chunk size, a counter width): every pushed entry is merged, every per-address sum kept
    {
        let plant = &mut plants[2];
        let template: ClientStats = { let mut p = PerClientStats::new(); p.add_ietf_request(&addr(1)); let c = p.iter().map(|(_, s)| *s).next().unwrap(); c };
        let ip_of = |k: u32| -> IpAddr { IpAddr::V4(std::net::Ipv4Addr::from(0x0a00_0000u32 + k)) };
        for sizes in [vec![60_000u32, 60_000, 7], vec![99_999, 2, 1], vec![100_000, 1], vec![4_096, 4_097, 8_193, 20_000]] {
            plant.reset();
            let mut next = 1u32;
            let mut pushed_entries = 0u64;
            let mut pushed_sum = 0u64;
            let nsnap = sizes.len();
            for (si, n) in sizes.iter().enumerate() {
                // (the last snapshot repeats addresses of the first: the same client seen by another worker)
                let start = if si + 1 == nsnap && si > 0 { 1 } else { next };
                let snap: Vec<ClientStats> = (0..*n).map(|j| { let mut c = template; c.ip_addr = ip_of(start + j); c.rfc_requests = 1 + (j % 3); c }).collect();
                pushed_entries += snap.len() as u64;
                pushed_sum += snap.iter().map(|c| c.rfc_requests as u64).sum::<u64>();
                if !(si + 1 == nsnap && si > 0) { next += *n; }
                plant.queue.force_push(snap);
            }
            let distinct = (next - 1).max(if nsnap > 1 { sizes[nsnap - 1] } else { 0 }) as u64;
            // (as many passes as it takes to empty the queue: a reporter may spread the work, it may not lose any)
            let r = guarded(|| { let mut passes = 0; loop { plant.reporter.receive_client_stats(); passes += 1; if plant.queue.is_empty() || passes >= 10 { break; } } });
            let merged = plant.reporter.verif_client_stats();
            let merged_sum: u64 = merged.iter().map(|c| c.rfc_requests as u64).sum();
            writeln!(out, "{}", json!({"ev": "bulk_merge", "snapshots": sizes, "pushed_entries": pushed_entries, "distinct": distinct, "pushed_sum": pushed_sum,
                "merged": merged.len(), "merged_sum": merged_sum, "left_in_queue": plant.queue.len(), "panic": r.is_err()})).unwrap();
            events += 1;
            plant.reset();
        }
    }
    let _ = std::fs::remove_dir_all(format!("{}.persist", out_path));
    out.flush().unwrap();
    println!("{}", json!({"rec": "summary", "events": events}));
}
