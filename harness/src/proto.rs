//! Protocol side of the interpretation `I`: an independent request builder and response
//! verifier for Google Roughtime ("classic") and draft-ietf-ntp-roughtime-13, written from
//! the protocol documents on top of refcodec / interp (never roughenough's own codec,
//! Merkle tree, signer or version tables).
use crate::interp::{self, Proto};
use crate::refcodec as rc;
use crate::util::{le32, rd32, rd64};
use serde_json::{json, Value};

pub const VER_DRAFT13: u32 = 0x8000_000c;
pub const MAGIC: &[u8; 8] = b"ROUGHTIM";

/// Build a request of exactly `size` bytes (size multiple of 4, >= minimum for the fields).
/// `vers`: VER list for IETF requests; `srv`: optional SRV value; `nonce`: NONC value.
pub fn build_request(p: Proto, nonce: &[u8], size: usize, vers: &[u32], srv: Option<&[u8]>) -> Vec<u8> {
    match p {
        Proto::Google => {
            // NONC + PAD, header = 4 + 4 + 8 = 16
            let hdr = 16;
            let pad = size.saturating_sub(hdr + nonce.len());
            rc::ref_encode(&[(rc::NONC, nonce.to_vec()), (rc::PAD, vec![0u8; pad])])
        }
        Proto::Ietf => {
            let mut fields: Vec<(u64, Vec<u8>)> = Vec::new();
            let verbytes: Vec<u8> = vers.iter().flat_map(|v| le32(*v)).collect();
            fields.push((rc::VER, verbytes));
            if let Some(s) = srv { fields.push((rc::SRV, s.to_vec())); }
            fields.push((rc::NONC, nonce.to_vec()));
            fields.push((rc::ZZZZ, vec![]));
            let base = rc::ref_encode(&fields).len() + 12;
            let pad = size.saturating_sub(base);
            let n = fields.len();
            fields[n - 1].1 = vec![0u8; pad];
            rc::ref_frame(&rc::ref_encode(&fields))
        }
    }
}

/// Features of a datagram that Request.tla's Classify needs (computed on bytes by `I`).
pub fn request_features(d: &[u8], server_srv: &[u8]) -> Value {
    let len = d.len();
    let magic = len >= 8 && &d[..8] == MAGIC;
    let mut f = json!({"len": len, "magic": magic, "framelen_ok": false, "dec": "err", "has_nonc": false, "noncelen": 0,
                       "ver": [], "has_ver": false, "srv": "absent"});
    let payload: &[u8] = if magic {
        if len < 12 { return f; }
        f["framelen_ok"] = json!(rd32(&d[8..12]) as usize == len - 12);
        &d[12..]
    } else { d };
    if let Some(fields) = rc::ref_decode(payload) {
        f["dec"] = json!("ok");
        if let Some(n) = rc::get(&fields, rc::NONC) { f["has_nonc"] = json!(true); f["noncelen"] = json!(n.len()); }
        if let Some(v) = rc::get(&fields, rc::VER) {
            f["has_ver"] = json!(true);
            // version codes: 13 = draft-13, 0 = classic, other values are numbered 1001.. by first appearance
            let mut unknown: Vec<u32> = vec![];
            let codes: Vec<u64> = v.chunks(4).map(|c| {
                if c.len() < 4 { return 999u64; }
                let x = rd32(c);
                if x == VER_DRAFT13 { 13 } else if x == 0 { 0 } else {
                    let i = match unknown.iter().position(|u| *u == x) { Some(i) => i, None => { unknown.push(x); unknown.len() - 1 } };
                    1001 + i as u64
                }
            }).collect();
            f["ver"] = json!(codes);
        }
        if let Some(s) = rc::get(&fields, rc::SRV) {
            f["srv"] = json!(if s == server_srv { "ok" } else if s.len() != 32 { "badlen" } else { "wrong" });
        }
    }
    f
}

pub fn request_nonce(d: &[u8]) -> Option<Vec<u8>> {
    let magic = d.len() >= 12 && &d[..8] == MAGIC;
    let payload = if magic { &d[12..] } else { d };
    rc::ref_decode(payload).and_then(|f| rc::get(&f, rc::NONC).map(|n| n.to_vec()))
}

/// the leaf data the protocol binds a request by
pub fn leaf_data(p: Proto, request: &[u8], nonce: &[u8]) -> Vec<u8> {
    match p { Proto::Google => nonce.to_vec(), Proto::Ietf => request.to_vec() }
}

/// Everything `I` can say about one response datagram, independent of any request.
#[derive(Debug, Clone, Default)]
pub struct RespFacts {
    pub framed: bool,          // starts with the RFC magic
    pub frame_ok: bool,        // (framed) length field equals payload length
    pub parse: String,         // "ok" | "undecodable" | "missing" (a required tag/size is wrong)
    pub nonce: Option<Vec<u8>>,
    pub sig: Vec<u8>,
    pub path: Vec<u8>,
    pub indx: u32,
    pub srep: Vec<u8>,
    pub root: Vec<u8>,
    pub midp: u64,
    pub radi: u32,
    pub ver: Option<u32>,
    pub vers: Vec<u32>,
    pub cert_sig: Vec<u8>,
    pub dele: Vec<u8>,
    pub pubk: Vec<u8>,
    pub mint: u64,
    pub maxt: u64,
}

pub fn parse_response(d: &[u8]) -> RespFacts {
    let mut r = RespFacts::default();
    r.parse = "undecodable".into();
    r.framed = d.len() >= 8 && &d[..8] == MAGIC;
    let payload: &[u8] = if r.framed {
        if d.len() < 12 { return r; }
        r.frame_ok = rd32(&d[8..12]) as usize == d.len() - 12;
        &d[12..]
    } else { d };
    let top = match rc::ref_decode(payload) { Some(t) => t, None => return r };
    r.parse = "missing".into();
    r.nonce = rc::get(&top, rc::NONC).map(|n| n.to_vec());
    let (sig, path, srep, cert, indx) = match (rc::get(&top, rc::SIG), rc::get(&top, rc::PATH), rc::get(&top, rc::SREP), rc::get(&top, rc::CERT), rc::get(&top, rc::INDX)) {
        (Some(a), Some(b), Some(c), Some(d), Some(e)) => (a, b, c, d, e),
        _ => return r,
    };
    if sig.len() != 64 || indx.len() != 4 { return r; }
    r.sig = sig.to_vec(); r.path = path.to_vec(); r.srep = srep.to_vec(); r.indx = rd32(indx);
    let sf = match rc::ref_decode(srep) { Some(s) => s, None => return r };
    let (root, midp, radi) = match (rc::get(&sf, rc::ROOT), rc::get(&sf, rc::MIDP), rc::get(&sf, rc::RADI)) {
        (Some(a), Some(b), Some(c)) if b.len() == 8 && c.len() == 4 => (a, b, c),
        _ => return r,
    };
    r.root = root.to_vec(); r.midp = rd64(midp); r.radi = rd32(radi);
    r.ver = rc::get(&sf, rc::VER).and_then(|v| if v.len() == 4 { Some(rd32(v)) } else { None });
    r.vers = rc::get(&sf, rc::VERS).map(|v| v.chunks(4).filter(|c| c.len() == 4).map(rd32).collect()).unwrap_or_default();
    let cf = match rc::ref_decode(cert) { Some(c) => c, None => return r };
    let (csig, dele) = match (rc::get(&cf, rc::SIG), rc::get(&cf, rc::DELE)) { (Some(a), Some(b)) if a.len() == 64 => (a, b), _ => return r };
    r.cert_sig = csig.to_vec(); r.dele = dele.to_vec();
    let df = match rc::ref_decode(dele) { Some(d) => d, None => return r };
    let (pubk, mint, maxt) = match (rc::get(&df, rc::PUBK), rc::get(&df, rc::MINT), rc::get(&df, rc::MAXT)) {
        (Some(a), Some(b), Some(c)) if a.len() == 32 && b.len() == 8 && c.len() == 8 => (a, b, c),
        _ => return r,
    };
    r.pubk = pubk.to_vec(); r.mint = rd64(mint); r.maxt = rd64(maxt);
    r.parse = "ok".into();
    r
}

impl RespFacts {
    pub fn proto(&self) -> Proto { if self.framed { Proto::Ietf } else { Proto::Google } }

    /// CERT.SIG verifies under `ltk_pub` with protocol `p`'s delegation context
    pub fn cert_ok_under(&self, ltk_pub: &[u8], p: Proto) -> bool {
        if self.parse != "ok" { return false; }
        let mut m = p.dele_ctx().to_vec(); m.extend_from_slice(&self.dele);
        interp::verify_oneshot(ltk_pub, &m, &self.cert_sig)
    }
    /// SIG verifies under DELE.PUBK with the response context
    pub fn srep_ok(&self) -> bool {
        if self.parse != "ok" { return false; }
        let mut m = self.proto().srep_ctx().to_vec(); m.extend_from_slice(&self.srep);
        interp::verify_oneshot(&self.pubk, &m, &self.sig)
    }
    pub fn window_ok(&self) -> bool { self.parse == "ok" && self.mint <= self.midp && self.midp <= self.maxt }
    /// does (INDX, PATH) bind `leaf` to ROOT under the PROTOCOL's hash width at every node?
    pub fn proves(&self, leaf: &[u8]) -> bool {
        if self.parse != "ok" { return false; }
        let prof = self.proto().prof();
        if self.root.len() != prof.root_w || self.path.len() % prof.node_w != 0 || self.path.len() / prof.node_w > 32 { return false; }
        interp::root_from_path(prof, self.indx as u64, leaf, &self.path).as_deref() == Some(self.root.as_slice())
    }
    /// version fields inside the signed part (IETF: VER = draft-13, VERS ascending and containing it; classic: none required)
    pub fn ver_ok(&self) -> bool {
        match self.proto() {
            Proto::Google => true,
            Proto::Ietf => self.ver == Some(VER_DRAFT13) && self.vers.contains(&VER_DRAFT13) && self.vers.windows(2).all(|w| w[0] < w[1]),
        }
    }
    pub fn path_elems(&self) -> usize { self.path.len() / self.proto().width() }
}
