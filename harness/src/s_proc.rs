//! Process-level suites (C15, C18, C19, parts of C02/C03/C20): the REAL roughenough-server binary (built with
//! the verification hooks) is started with a scenario's configuration, driven with reference clients, TCP
//! health-check connections, floods and signals, and observed through its hook trace (one ndjson file per
//! thread), exit status, stderr, /proc thread names and the replies, which the interpretation turns into facts.
use crate::interp::{self, Proto};
use crate::proto;
use crate::rig::{FactCtx, Secrets, Sent};
use crate::util::{hex, unhex, Rng};
use serde_json::{json, Value};
use std::collections::HashMap;
use std::io::{Read, Write};
use std::net::{TcpStream, UdpSocket};
use std::process::{Child, Command, Stdio};
use std::sync::atomic::{AtomicBool, Ordering};
use std::sync::Arc;
use std::time::{Duration, Instant, SystemTime, UNIX_EPOCH};

pub const SEED_HEX: &str = "a32049da0ffde0ded92ce10a0230d35fe615ec8461c14986baa63fe3b3bac3db";

fn now_ns() -> u128 { SystemTime::now().duration_since(UNIX_EPOCH).unwrap().as_nanos() }

fn free_udp_port() -> u16 { UdpSocket::bind("127.0.0.1:0").unwrap().local_addr().unwrap().port() }
fn free_tcp_port() -> u16 { std::net::TcpListener::bind("127.0.0.1:0").unwrap().local_addr().unwrap().port() }

pub struct ServerProc {
    pub child: Child,
    pub port: u16,
    pub hc_port: Option<u16>,
    pub dir: String,
    pub n_workers: usize,
    pub started: Instant,
    pub seed: Vec<u8>,
}

/// start the server binary for a scenario; configuration goes through a YAML file or the environment
pub fn start_server(server_bin: &str, sc: &Value, workdir: &str) -> Result<ServerProc, String> {
    let id = sc["id"].as_str().unwrap_or("s");
    let dir = format!("{}/{}", workdir, id.replace(|c: char| !c.is_ascii_alphanumeric(), "_"));
    let _ = std::fs::remove_dir_all(&dir);
    std::fs::create_dir_all(format!("{}/trace", dir)).map_err(|e| e.to_string())?;
    std::fs::create_dir_all(format!("{}/persist", dir)).map_err(|e| e.to_string())?;
    let example = sc["example_cfg"].as_bool().unwrap_or(false);
    let seed_hex = sc["seed"].as_str().unwrap_or(SEED_HEX).to_string();
    let (port, hc_port) = if example { (8686u16, Some(8000u16)) } else {
        (free_udp_port(), if sc["health_check"].as_bool().unwrap_or(false) { Some(free_tcp_port()) } else { None }) };
    let mut kv: Vec<(String, String)> = vec![("interface".into(), "127.0.0.1".into()), ("port".into(), port.to_string()), ("seed".into(), seed_hex.clone())];
    for k in ["num_workers", "batch_size", "fault_percentage", "status_interval"] { if let Some(v) = sc[k].as_u64() { kv.push((k.to_string(), v.to_string())); } }
    if let Some(p) = hc_port { kv.push(("health_check_port".into(), p.to_string())); }
    if sc["client_stats"].as_bool().unwrap_or(false) { kv.push(("client_stats".into(), "on".into())); kv.push(("persistence_directory".into(), format!("{}/persist", dir))); }
    let source = sc["source"].as_str().unwrap_or("file");
    if !example && source != "env" {
        let path = format!("{}/server.yaml", dir);
        let text: String = kv.iter().map(|(k, v)| format!("{}: {}\n", k, v)).collect();
        std::fs::write(&path, text).map_err(|e| e.to_string())?;
    }
    let make_cmd = |life: &str| -> Result<Command, String> {
        let mut cmd = Command::new(server_bin);
        if example {
            cmd.arg(sc["example_path"].as_str().unwrap_or("/repo/example.cfg"));
        } else if source == "env" {
            cmd.arg("ENV");
            for (k, v) in &kv { cmd.env(format!("ROUGHENOUGH_{}", k.to_uppercase()), v); }
        } else {
            cmd.arg(format!("{}/server.yaml", dir));
        }
        let stderr = std::fs::File::create(format!("{}/{}stderr.txt", dir, life)).map_err(|e| e.to_string())?;
        let stdout = std::fs::File::create(format!("{}/{}stdout.txt", dir, life)).map_err(|e| e.to_string())?;
        cmd.env("ROUGHENOUGH_VERIF_TRACE", format!("{}/trace", dir)).env("RUST_BACKTRACE", "0").stdin(Stdio::null()).stdout(stdout).stderr(stderr);
        // schedule exploration: sleep after named hook events ("r_received:1300,w_lock:50")
        if let Some(d) = sc["delays"].as_str() { cmd.env("ROUGHENOUGH_VERIF_DELAY", d); }
        Ok(cmd)
    };
    // earlier lives of the same installation: the server was started with this very configuration and these directories
    // before (and stopped with SIGTERM); whatever a start leaves behind must not keep the next one from serving
    for life in 0..sc["previous_runs"].as_u64().unwrap_or(0) {
        let mut prev = make_cmd(&format!("prev{}_", life))?.spawn().map_err(|e| format!("spawn server: {}", e))?;
        let t0 = Instant::now();
        while t0.elapsed() < Duration::from_millis(4000) {
            let up = std::fs::read_dir(format!("{}/trace", dir)).map(|rd| rd.flatten().any(|e| std::fs::read_to_string(e.path()).map(|t| t.contains("w_unlock")).unwrap_or(false))).unwrap_or(false);
            if up || matches!(prev.try_wait(), Ok(Some(_))) { break; }
            std::thread::sleep(Duration::from_millis(20));
        }
        std::thread::sleep(Duration::from_millis(150));
        unsafe { libc::kill(prev.id() as i32, libc::SIGTERM); }
        let t1 = Instant::now();
        while t1.elapsed() < Duration::from_millis(6000) { if matches!(prev.try_wait(), Ok(Some(_))) { break; } std::thread::sleep(Duration::from_millis(20)); }
        let _ = prev.kill();
        let _ = prev.wait();
        // the hook trace of the life under observation starts empty
        let _ = std::fs::remove_dir_all(format!("{}/trace", dir));
        std::fs::create_dir_all(format!("{}/trace", dir)).map_err(|e| e.to_string())?;
    }
    let mut cmd = make_cmd("")?;
    let child = cmd.spawn().map_err(|e| format!("spawn server: {}", e))?;
    let n_workers = sc["num_workers"].as_u64().map(|n| n as usize).unwrap_or_else(|| std::thread::available_parallelism().map(|n| n.get()).unwrap_or(1));
    Ok(ServerProc { child, port, hc_port, dir, n_workers, started: Instant::now(), seed: unhex(&seed_hex) })
}

impl ServerProc {
    pub fn pid(&self) -> u32 { self.child.id() }

    pub fn hook_lines(&self) -> Vec<Value> {
        let mut out = vec![];
        if let Ok(rd) = std::fs::read_dir(format!("{}/trace", self.dir)) {
            for e in rd.flatten() {
                if let Ok(t) = std::fs::read_to_string(e.path()) {
                    for l in t.lines() { if let Ok(v) = serde_json::from_str::<Value>(l) { out.push(v); } }
                }
            }
        }
        out
    }

    /// wait until every configured worker either serves (w_unlock) or has panicked, the process exited, or timeout
    pub fn wait_started(&mut self, timeout_ms: u64) -> (usize, usize, bool) {
        let t0 = Instant::now();
        loop {
            let lines = self.hook_lines();
            let ready = lines.iter().filter(|l| l["ev"] == "w_unlock").count();
            let panics = lines.iter().filter(|l| l["ev"] == "panic").count();
            let exited = matches!(self.child.try_wait(), Ok(Some(_)));
            if ready + panics >= self.n_workers || exited || t0.elapsed().as_millis() as u64 > timeout_ms {
                // settle: give stragglers a moment so that the observation is of a quiescent start-up
                std::thread::sleep(Duration::from_millis(150));
                let lines = self.hook_lines();
                return (lines.iter().filter(|l| l["ev"] == "w_unlock").count(), lines.iter().filter(|l| l["ev"] == "panic").count(), matches!(self.child.try_wait(), Ok(Some(_))));
            }
            std::thread::sleep(Duration::from_millis(20));
        }
    }

    pub fn thread_names(&self) -> Vec<String> {
        let mut v = vec![];
        if let Ok(rd) = std::fs::read_dir(format!("/proc/{}/task", self.pid())) {
            for e in rd.flatten() { if let Ok(s) = std::fs::read_to_string(e.path().join("comm")) { v.push(s.trim().to_string()); } }
        }
        v.sort();
        v
    }

    pub fn alive(&mut self) -> bool { matches!(self.child.try_wait(), Ok(None)) }

    pub fn signal(&self, sig: &str) {
        let s = match sig { "INT" => libc::SIGINT, "KILL" => libc::SIGKILL, _ => libc::SIGTERM };
        unsafe { libc::kill(self.pid() as i32, s); }
    }

    pub fn wait_exit(&mut self, timeout_ms: u64) -> (Option<i32>, u64) {
        let t0 = Instant::now();
        loop {
            if let Ok(Some(st)) = self.child.try_wait() { return (Some(st.code().unwrap_or(-1)), t0.elapsed().as_millis() as u64); }
            if t0.elapsed().as_millis() as u64 > timeout_ms { return (None, t0.elapsed().as_millis() as u64); }
            std::thread::sleep(Duration::from_millis(10));
        }
    }

    pub fn stderr_text(&self) -> String { std::fs::read_to_string(format!("{}/stderr.txt", self.dir)).unwrap_or_default() + &std::fs::read_to_string(format!("{}/stdout.txt", self.dir)).unwrap_or_default() }

    pub fn kill_and_reap(&mut self) { let _ = self.child.kill(); let _ = self.child.wait(); }
}

// ---------------------------------------------------------------------------- client side

pub struct Exchange { pub sock: usize, pub request: Vec<u8>, pub replies: Vec<Vec<u8>>, pub t_before: u128, pub t_after: u128 }

fn new_request(rng: &mut Rng, k: u64, srv: Option<&[u8]>) -> Vec<u8> {
    let p = if k % 2 == 0 { Proto::Google } else { Proto::Ietf };
    let nonce = rng.bytes(if p == Proto::Google { 64 } else { 32 });
    let size = 1024 + 4 * rng.below(100) as usize;
    proto::build_request(p, &nonce, size, &[proto::VER_DRAFT13], if p == Proto::Ietf { srv } else { None })
}

/// one burst: every socket sends `per_sock` requests, then all replies are collected
pub fn probe(port: u16, n_socks: usize, per_sock: usize, rng: &mut Rng, srv: &[u8], wait_ms: u64) -> Vec<Exchange> {
    probe_skewed(port, n_socks, per_sock, rng, srv, wait_ms, "mix", &mut || {})
}

/// as `probe`; `skew` = "G" / "I": every request of the burst is of that protocol (a batch filled by one protocol);
/// `released` runs after everything was sent and before replies are collected (e.g. SIGCONT of a stalled server)
pub fn probe_skewed(port: u16, n_socks: usize, per_sock: usize, rng: &mut Rng, srv: &[u8], wait_ms: u64, skew: &str, released: &mut dyn FnMut()) -> Vec<Exchange> {
    let socks: Vec<UdpSocket> = (0..n_socks).map(|_| { let s = UdpSocket::bind("127.0.0.1:0").unwrap(); s.set_nonblocking(true).unwrap(); s }).collect();
    let mut ex = vec![];
    for j in 0..per_sock {
        for (i, s) in socks.iter().enumerate() {
            let k = match skew { "G" => 2 * (i + j) as u64, "I" => 2 * (i + j) as u64 + 1, _ => (i + j) as u64 };
            let rq = new_request(rng, k, if (i + j) % 3 == 0 { Some(srv) } else { None });
            let t = now_ns();
            let _ = s.send_to(&rq, ("127.0.0.1", port));
            ex.push(Exchange { sock: i, request: rq, replies: vec![], t_before: t, t_after: 0 });
        }
    }
    released();
    let deadline = Instant::now() + Duration::from_millis(wait_ms);
    let mut buf = vec![0u8; 4096];
    let want: usize = ex.len();
    let mut got = 0usize;
    let mut extra_deadline: Option<Instant> = None;
    loop {
        for (i, s) in socks.iter().enumerate() {
            while let Ok((n, _)) = s.recv_from(&mut buf) {
                let t = now_ns();
                // attach to this socket's exchange whose nonce is echoed, else to the first unanswered one
                let nonce = proto::parse_response(&buf[..n]).nonce;
                let idx = ex.iter().position(|e| e.sock == i && nonce.is_some() && proto::request_nonce(&e.request) == nonce)
                    .or_else(|| ex.iter().position(|e| e.sock == i && e.replies.is_empty()))
                    .or_else(|| ex.iter().position(|e| e.sock == i));
                if let Some(ix) = idx { ex[ix].replies.push(buf[..n].to_vec()); ex[ix].t_after = t; got += 1; }
            }
        }
        std::thread::sleep(Duration::from_millis(3));
        if got >= want && extra_deadline.is_none() { extra_deadline = Some(Instant::now() + Duration::from_millis(60)); }   // linger for duplicates
        if let Some(d) = extra_deadline { if Instant::now() > d { break; } }
        if Instant::now() > deadline { break; }
    }
    let t = now_ns();
    for e in ex.iter_mut() { if e.t_after == 0 { e.t_after = t; } }
    ex
}

/// closed-loop clients: each thread owns a socket and sends `requests` requests one after another
pub fn closed_loop(port: u16, clients: usize, requests: usize, seed: u64, srv: Vec<u8>, stop: Arc<AtomicBool>, progress: Arc<std::sync::atomic::AtomicU64>) -> Vec<Exchange> {
    let mut handles = vec![];
    for c in 0..clients {
        let srv = srv.clone();
        let stop = stop.clone();
        let progress = progress.clone();
        handles.push(std::thread::spawn(move || {
            let mut rng = Rng::new(seed ^ (c as u64 + 1) * 0x9E37);
            let s = UdpSocket::bind("127.0.0.1:0").unwrap();
            s.set_read_timeout(Some(Duration::from_millis(1500))).unwrap();
            let mut out = vec![];
            let mut buf = vec![0u8; 4096];
            for k in 0..requests {
                if stop.load(Ordering::Relaxed) { break; }
                let rq = new_request(&mut rng, (c + k) as u64, Some(&srv));
                let t0 = now_ns();
                let _ = s.send_to(&rq, ("127.0.0.1", port));
                let mut replies = vec![];
                if let Ok((n, _)) = s.recv_from(&mut buf) { replies.push(buf[..n].to_vec()); progress.fetch_add(1, Ordering::Relaxed); }
                let t1 = now_ns();
                out.push(Exchange { sock: c, request: rq, replies, t_before: t0, t_after: t1 });
            }
            // anything still arriving is a duplicate / late reply and is attached to the last exchange
            s.set_read_timeout(Some(Duration::from_millis(40))).unwrap();
            while let Ok((n, _)) = s.recv_from(&mut buf) { if let Some(l) = out.last_mut() { l.replies.push(buf[..n].to_vec()); } }
            out
        }));
    }
    handles.into_iter().flat_map(|h| h.join().unwrap_or_default()).collect()
}

/// `kind`: "valid" (requests the server answers), "junk" (only datagrams it refuses: random bytes, and well-formed
/// 1024-byte messages whose nonce has the wrong length), "mixed"
pub fn flood(port: u16, senders: usize, kind: &str, stop: Arc<AtomicBool>) -> Vec<std::thread::JoinHandle<u64>> {
    (0..senders).map(|k| {
        let stop = stop.clone();
        let kind = kind.to_string();
        std::thread::spawn(move || {
            let mut rng = Rng::new(77 + k as u64);
            let s = UdpSocket::bind("127.0.0.1:0").unwrap();
            let rq = match (kind.as_str(), k % 3) {
                ("junk", 0) | ("mixed", 1) => rng.bytes(1024),
                ("junk", 1) | ("mixed", 2) => proto::build_request(Proto::Google, &rng.bytes(16), 1024, &[], None),
                ("junk", _) => proto::build_request(Proto::Ietf, &rng.bytes(64), 1024, &[proto::VER_DRAFT13], None),
                _ => new_request(&mut rng, k as u64, None) };
            let mut n = 0u64;
            while !stop.load(Ordering::Relaxed) { if s.send_to(&rq, ("127.0.0.1", port)).is_ok() { n += 1; } }
            n
        })
    }).collect()
}

const HTTP_OK: &str = "HTTP/1.1 200 OK\nContent-Length: 0\nConnection: close\n\n";

/// k simultaneous TCP connections to the health-check port: how many read the fixed 200 response
pub fn health_check(port: u16, conns: usize, wait_ms: u64) -> (usize, usize) {
    let streams: Vec<Option<TcpStream>> = (0..conns).map(|_| TcpStream::connect_timeout(&format!("127.0.0.1:{}", port).parse().unwrap(), Duration::from_millis(500)).ok()).collect();
    let connected = streams.iter().filter(|s| s.is_some()).count();
    let mut ok = 0;
    let deadline = Instant::now() + Duration::from_millis(wait_ms);
    for s in streams.into_iter().flatten() {
        let left = deadline.saturating_duration_since(Instant::now()).max(Duration::from_millis(30));
        let _ = s.set_read_timeout(Some(left));
        let mut s = s;
        let mut text = Vec::new();
        let mut buf = [0u8; 256];
        loop { match s.read(&mut buf) { Ok(0) => break, Ok(n) => { text.extend_from_slice(&buf[..n]); if text.len() >= HTTP_OK.len() { break; } } Err(_) => break } }
        if text == HTTP_OK.as_bytes() { ok += 1; }
    }
    (connected, ok)
}

// ---------------------------------------------------------------------------- turning exchanges into Trace_Server events

pub struct SrvTrace { pub lines: Vec<Value>, root_ids: HashMap<Vec<u8>, usize>, key_ids: HashMap<Vec<u8>, usize>, pub replies: u64, pub keys_seen: usize }

impl SrvTrace {
    pub fn new() -> SrvTrace { SrvTrace { lines: vec![], root_ids: HashMap::new(), key_ids: HashMap::new(), replies: 0, keys_seen: 0 } }
    pub fn section(&mut self, sc: &Value, announced_ok: bool) {
        self.lines.push(json!({"ev": "new", "batch": sc["batch_size"].as_u64().unwrap_or(64), "fault": sc["fault_percentage"].as_u64().unwrap_or(0), "level": "Info",
                               "announced_ok": announced_ok, "client_stats": sc["client_stats"].as_bool().unwrap_or(false), "scenario": sc["id"]}));
    }
    /// a burst observed together (one round)
    pub fn round(&mut self, ex: &[Exchange], ltk_pub: [u8; 32], srv: &[u8], secrets: &Secrets, fault: bool) {
        self.lines.push(json!({"ev": "round"}));
        let round: Vec<Sent> = ex.iter().enumerate().map(|(i, e)| Sent { id: i + 1, sock: e.sock, bytes: e.request.clone(),
            features: proto::request_features(&e.request, srv), nonce: proto::request_nonce(&e.request), t_sent_ns: e.t_before }).collect();
        for s in &round { self.lines.push(json!({"ev": "arrive", "id": s.id, "sock": s.sock, "f": s.features})); }
        self.lines.push(json!({"ev": "pumped", "panic": false, "panic_msg": "", "wedged": false, "unconsumed": 0}));
        for e in ex {
            for r in &e.replies {
                let mut fc = FactCtx { ltk_pub, secrets, root_ids: &mut self.root_ids, key_ids: &mut self.key_ids };
                let mut ev = fc.reply_event(e.sock, r, &round, e.t_before, e.t_after, false);
                // with fault injection on, the binary gives no per-reply flag: a reply that does not verify is taken as injected
                if fault && ev["fails"] == true { ev["greased"] = json!(true); }
                self.lines.push(ev);
                self.replies += 1;
            }
        }
        self.lines.push(json!({"ev": "round_end"}));
        self.keys_seen = self.key_ids.len();
    }
    /// closed-loop exchanges: every request is its own round
    pub fn singles(&mut self, ex: &[Exchange], ltk_pub: [u8; 32], srv: &[u8], secrets: &Secrets, fault: bool) {
        for e in ex { self.round(std::slice::from_ref(e), ltk_pub, srv, secrets, fault); }
    }
}

// ---------------------------------------------------------------------------- scenario runner

fn proc_level(l: &Value) -> bool {
    matches!(l["ev"].as_str().unwrap_or(""), "m_start" | "m_spawn" | "m_spawned_all" | "m_join_begin" | "m_joined" | "m_exit" | "w_start" | "w_lock" | "w_ready" | "w_unlock" | "w_exit" | "sig" | "panic" | "r_pass" | "r_received" | "r_reported" | "r_exit")
}

pub fn run_scenarios(path: &str, out_prefix: &str, server_bin: &str, workdir: &str, seed: u64) {
    let text = std::fs::read_to_string(path).expect("read scenarios");
    let scenarios: Vec<Value> = text.lines().filter_map(|l| serde_json::from_str(l).ok()).collect();
    let mut proc_out = std::io::BufWriter::new(std::fs::File::create(format!("{}.proc.ndjson", out_prefix)).unwrap());
    let mut srv_out = std::io::BufWriter::new(std::fs::File::create(format!("{}.srv.ndjson", out_prefix)).unwrap());
    let mut rng = Rng::new(seed ^ 0x9C0C);
    let mut n_run = 0u64;
    let mut total_replies = 0u64;
    for sc in &scenarios {
        let mut sp = match start_server(server_bin, sc, workdir) { Ok(s) => s, Err(e) => { eprintln!("cannot start scenario: {}", e); std::process::exit(2); } };
        n_run += 1;
        let seed32: [u8; 32] = sp.seed.clone().try_into().unwrap();
        let ltk_pub = interp::pk_of_seed(&seed32);
        let srv = interp::srv_of_pk(&ltk_pub);
        let secrets = Secrets::new(&sp.seed);
        let (ready, panics, exited_early) = sp.wait_started(sc["start_timeout_ms"].as_u64().unwrap_or(6000));
        let threads = sp.thread_names();
        let workers_alive = threads.iter().filter(|t| t.starts_with("worker-")).count();
        let distinct_workers = { let mut w: Vec<String> = threads.iter().filter(|t| t.starts_with("worker-")).cloned().collect(); w.dedup(); w.len() };
        let text = sp.stderr_text();
        let announced_ok = text.contains(&hex(&ltk_pub));
        writeln!(proc_out, "{}", json!({"ev": "meta", "id": sc["id"], "n": sp.n_workers, "hc": sp.hc_port.is_some(), "client_stats": sc["client_stats"].as_bool().unwrap_or(false),
            "source": sc["source"].as_str().unwrap_or("file"), "scenario": sc})).unwrap();
        writeln!(proc_out, "{}", json!({"ev": "started", "ready_workers": ready, "panicked_threads": panics, "exited": exited_early, "alive": sp.alive(),
            "worker_threads": workers_alive, "distinct_worker_threads": distinct_workers,
            "stderr_panic": text.contains("panicked"), "announced_ok": announced_ok})).unwrap();
        let mut st = SrvTrace::new();
        st.section(sc, announced_ok || !sp.alive());
        let fault = sc["fault_percentage"].as_u64().unwrap_or(0) > 0;
        // ---- serving probes: bursts from many source ports (kernel spreads them over the workers' sockets)
        if sp.alive() && sc["probe"].as_bool().unwrap_or(true) {
            for _ in 0..sc["probe_rounds"].as_u64().unwrap_or(3) {
                let ex = probe(sp.port, sc["probe_socks"].as_u64().unwrap_or(48) as usize, 1, &mut rng, &srv, 1200);
                st.round(&ex, ltk_pub, &srv, &secrets, fault);
            }
            // stalled bursts: the process is stopped (SIGSTOP) while a whole burst queues up, then continued: the workers find
            // full batches waiting - of one protocol ("G", "I") or mixed - instead of draining as fast as the harness sends
            if let Some(list) = sc["stalled_bursts"].as_array() {
                for b in list {
                    let (n, skew) = (b[0].as_u64().unwrap_or(64) as usize, b[1].as_str().unwrap_or("mix").to_string());
                    unsafe { libc::kill(sp.pid() as i32, libc::SIGSTOP); }
                    let pid = sp.pid() as i32;
                    let ex = probe_skewed(sp.port, n, 1, &mut rng, &srv, 2500, &skew, &mut || { std::thread::sleep(Duration::from_millis(30)); unsafe { libc::kill(pid, libc::SIGCONT); } });
                    st.round(&ex, ltk_pub, &srv, &secrets, fault);
                }
            }
            // spread probe: one burst from 24 sockets per configured worker. The kernel spreads the source ports over the workers'
            // sockets, so every worker receives some of it (probability of missing a given worker: (1 - 1/n)^(24 n) < 4e-11);
            // the hook logs say which worker threads sent replies
            let mut answering = -1i64;
            if sc["spread_probe"].as_bool().unwrap_or(false) {
                let ex = probe(sp.port, 24 * sp.n_workers, 1, &mut rng, &srv, 2500);
                st.round(&ex, ltk_pub, &srv, &secrets, fault);
                let mut who: Vec<String> = sp.hook_lines().iter().filter(|l| l["ev"] == "sent" && l["ok"] == true).filter_map(|l| l["t"].as_str().map(|x| x.to_string())).collect();
                who.sort(); who.dedup();
                answering = who.iter().filter(|t| t.starts_with("worker-")).count() as i64;
            }
            writeln!(proc_out, "{}", json!({"ev": "served", "distinct_online_keys": st.keys_seen, "replies": st.replies, "answering_workers": answering})).unwrap();
        }
        // ---- statistics audit: the real timers, queue, reporter thread and files. Known traffic, then long enough for the workers'
        //      status timers (status_interval / 10) and the reporter (every status_interval) to flush it into the persistence
        //      directory, then SIGTERM; every file is decoded and the column sums are compared with the traffic
        let mut audit_exit: Option<(Option<i32>, u64)> = None;
        if sc["stats_audit"].as_bool().unwrap_or(false) && sp.alive() {
            let mut sent_valid = 0u64; let mut got = 0u64; let mut bytes = 0u64;
            for (n_socks, junk) in [(12usize, 7usize), (9, 0), (5, 3)] {
                let ex = probe(sp.port, n_socks, 1, &mut rng, &srv, 1500);
                sent_valid += ex.len() as u64;
                for e in &ex { for r in &e.replies { got += 1; bytes += r.len() as u64; } }
                st.round(&ex, ltk_pub, &srv, &secrets, fault);
                let js = UdpSocket::bind("127.0.0.1:0").unwrap();
                for k in 0..junk { let d = rng.bytes(16 + 4 * k); let _ = js.send_to(&d, ("127.0.0.1", sp.port)); }
                std::thread::sleep(Duration::from_millis(700));
            }
            let interval_ms = sc["status_interval"].as_u64().unwrap_or(1) * 1000;
            // one publication period of the workers (interval / 10, jittered by up to 0.26 s), one reporter pass (1 s) and the
            // reporter's next due time (at most one interval away)
            std::thread::sleep(Duration::from_millis(interval_ms + interval_ms / 10 + 2000));
            sp.signal("TERM");
            let (code, ms) = sp.wait_exit(6000);
            let (files, readable, rows) = crate::s_stats::decode_report_dir(&format!("{}/persist", sp.dir));
            let mut sum = [0u64; 9];
            for (_, c) in &rows { for k in 0..9 { sum[k] += c[k]; } }
            let ips: std::collections::BTreeSet<String> = rows.iter().map(|(ip, _)| ip.clone()).collect();
            writeln!(proc_out, "{}", json!({"ev": "audit", "files": files, "readable": readable, "rows": rows.len(), "ips": ips.into_iter().collect::<Vec<_>>(),
                "valid": sum[0] + sum[1], "invalid": sum[2], "failed": sum[3], "responses": sum[6] + sum[7], "bytes": sum[8],
                "status_interval": sc["status_interval"].as_u64().unwrap_or(600), "exp_valid": sent_valid, "exp_invalid": 10, "exp_responses": got, "exp_bytes": bytes, "exit_code": code.map(|c| c as i64).unwrap_or(-999), "exit_ms": ms})).unwrap();
            audit_exit = Some((code, ms));
        }
        // ---- health check: k simultaneous connections, while time service continues
        if let (Some(hp), Some(k)) = (sp.hc_port, sc["hc_conns"].as_u64()) {
            if sp.alive() {
                // connections that their peer RESETS while they still wait in the accept queue (the process is suspended
                // meanwhile, so that no worker can accept them first): accept() hands them out all the same
                if let Some(r) = sc["hc_reset"].as_u64() {
                    unsafe { libc::kill(sp.pid() as i32, libc::SIGSTOP); }
                    for _ in 0..r {
                        if let Ok(c) = TcpStream::connect_timeout(&format!("127.0.0.1:{}", hp).parse().unwrap(), Duration::from_millis(300)) {
                            use std::os::unix::io::AsRawFd;
                            let l = libc::linger { l_onoff: 1, l_linger: 0 };
                            unsafe { libc::setsockopt(c.as_raw_fd(), libc::SOL_SOCKET, libc::SO_LINGER, &l as *const libc::linger as *const libc::c_void, std::mem::size_of::<libc::linger>() as libc::socklen_t); }
                            drop(c);
                        }
                    }
                    std::thread::sleep(Duration::from_millis(30));
                    unsafe { libc::kill(sp.pid() as i32, libc::SIGCONT); }
                    std::thread::sleep(Duration::from_millis(150));
                }
                let (connected, ok200) = health_check(hp, k as usize, 1500);
                let ex = probe(sp.port, 8, 1, &mut rng, &srv, 800);
                let answered = ex.iter().filter(|e| !e.replies.is_empty()).count();
                st.round(&ex, ltk_pub, &srv, &secrets, fault);
                writeln!(proc_out, "{}", json!({"ev": "hc", "conns": k, "connected": connected, "ok200": ok200, "time_requests": ex.len(), "time_answered": answered})).unwrap();
            }
        }
        // ---- fault: the process runs out of file descriptors (RLIMIT_NOFILE lowered to what it has open now), then
        //      TCP connections arrive at the health-check port (accept fails with EMFILE)
        if let Some(k) = sc["fd_exhaust_then_connect"].as_u64() {
            if sp.alive() {
                let open_now = std::fs::read_dir(format!("/proc/{}/fd", sp.pid())).map(|d| d.count()).unwrap_or(64) as u64;
                let lim = libc::rlimit { rlim_cur: open_now, rlim_max: open_now };
                unsafe { libc::prlimit(sp.pid() as i32, libc::RLIMIT_NOFILE, &lim, std::ptr::null_mut()); }
                if let Some(hp) = sp.hc_port {
                    let _held: Vec<Option<TcpStream>> = (0..k).map(|_| TcpStream::connect_timeout(&format!("127.0.0.1:{}", hp).parse().unwrap(), Duration::from_millis(300)).ok()).collect();
                    std::thread::sleep(Duration::from_millis(300));
                }
            }
        }
        // ---- closed-loop load
        let stop = Arc::new(AtomicBool::new(false));
        let progress = Arc::new(std::sync::atomic::AtomicU64::new(0));
        let mut load_handle = None;
        if let Some(l) = sc.get("load").filter(|l| l.is_object()) {
            if sp.alive() {
                let (c, r) = (l["clients"].as_u64().unwrap_or(8) as usize, l["requests"].as_u64().unwrap_or(20) as usize);
                let (port, srv2, stop2, sd, pr) = (sp.port, srv.clone(), stop.clone(), rng.next_u64(), progress.clone());
                load_handle = Some(std::thread::spawn(move || closed_loop(port, c, r, sd, srv2, stop2, pr)));
            }
        }
        // ---- health-check connections that are opened and then just held (nothing sent, nothing read, not closed) until the
        //      process has exited: a peer that says nothing must not keep a worker
        let mut _held: Vec<TcpStream> = vec![];
        if let (Some(hp), Some(k)) = (sp.hc_port, sc["hc_hold"].as_u64()) {
            for _ in 0..k { if let Ok(s) = TcpStream::connect_timeout(&format!("127.0.0.1:{}", hp).parse().unwrap(), Duration::from_millis(500)) { _held.push(s); } }
            std::thread::sleep(Duration::from_millis(150));
        }
        // ---- signal: idle / during load / during an open-loop flood
        let mut flood_handles = vec![];
        let flood_stop = Arc::new(AtomicBool::new(false));
        let mut exit_ev = json!({"ev": "exit", "signalled": false});
        if let Some((code, ms)) = audit_exit {
            exit_ev = json!({"ev": "exit", "signalled": true, "sig": "TERM", "mode": "audit", "was_alive": true, "code": code.map(|c| c as i64).unwrap_or(-999),
                             "ms": ms, "within_limit": code.is_some(), "limit_ms": 6000, "code_after_flood_stopped": code.map(|c| c as i64).unwrap_or(-999), "extra_ms": 0});
        }
        if let Some(sg) = sc.get("signal").filter(|s| s.is_object()) {
            let mode = sg["mode"].as_str().unwrap_or("idle");
            if mode == "flood" { flood_handles = flood(sp.port, sg["senders"].as_u64().unwrap_or(3) as usize, sg["flood_kind"].as_str().unwrap_or("valid"), flood_stop.clone()); }
            let delay = sg["delay_ms"].as_u64().unwrap_or(100);
            if mode == "load_quiet" {
                // adversarial timing: signal at the moment the server stops answering the closed-loop clients
                // (no reply for 250 ms), or at the latest after delay_ms
                let t0 = Instant::now();
                let mut last = progress.load(Ordering::Relaxed);
                let mut last_change = Instant::now();
                while (t0.elapsed().as_millis() as u64) < delay {
                    std::thread::sleep(Duration::from_millis(25));
                    let now = progress.load(Ordering::Relaxed);
                    if now != last { last = now; last_change = Instant::now(); }
                    else if t0.elapsed().as_millis() > 400 && last_change.elapsed().as_millis() >= 250 { break; }
                }
            } else {
                std::thread::sleep(Duration::from_millis(delay));
            }
            let was_alive = sp.alive();
            let signame = sg["sig"].as_str().unwrap_or("TERM");
            sp.signal(signame);
            let limit = sg["limit_ms"].as_u64().unwrap_or(5000);
            let (code, ms) = sp.wait_exit(limit);
            flood_stop.store(true, Ordering::Relaxed);
            // if it only exits once the flood stops, that is observed too (and is still a failure to exit promptly)
            let (code2, ms2) = if code.is_none() { sp.wait_exit(4000) } else { (code, 0) };
            exit_ev = json!({"ev": "exit", "signalled": true, "sig": signame, "mode": mode, "was_alive": was_alive, "code": code.map(|c| c as i64).unwrap_or(-999),
                             "ms": ms, "within_limit": code.is_some(), "limit_ms": limit, "code_after_flood_stopped": code2.map(|c| c as i64).unwrap_or(-999), "extra_ms": ms2});
        } else if load_handle.is_none() {
            std::thread::sleep(Duration::from_millis(sc["observe_ms"].as_u64().unwrap_or(100)));
        }
        stop.store(true, Ordering::Relaxed);
        for h in flood_handles { let _ = h.join(); }
        if let Some(h) = load_handle { if let Ok(ex) = h.join() { st.singles(&ex, ltk_pub, &srv, &secrets, fault); } }
        // ---- final observation
        let alive_end = sp.alive();
        let threads_end = sp.thread_names();
        let text = sp.stderr_text();
        writeln!(proc_out, "{}", json!({"ev": "final", "alive": alive_end, "worker_threads": threads_end.iter().filter(|t| t.starts_with("worker-")).count(),
            "stderr_panic": text.contains("panicked"), "leak_in_output": secrets.found_in(text.as_bytes())})).unwrap();
        exit_ev["stderr_panic"] = json!(text.contains("panicked"));
        writeln!(proc_out, "{}", exit_ev).unwrap();
        if sp.alive() { sp.signal("KILL"); }
        sp.kill_and_reap();
        // ---- hook events, process level only, with per-thread sequence numbers
        let mut hooks: Vec<Value> = sp.hook_lines().into_iter().filter(proc_level).collect();
        hooks.sort_by_key(|l| (l["t"].as_str().unwrap_or("").to_string(), l["seq"].as_u64().unwrap_or(0)));
        for mut h in hooks { h["hook"] = json!(true); writeln!(proc_out, "{}", h).unwrap(); }
        writeln!(proc_out, "{}", json!({"ev": "end"})).unwrap();
        total_replies += st.replies;
        for l in st.lines { writeln!(srv_out, "{}", l).unwrap(); }
        if !sc["keep_dir"].as_bool().unwrap_or(false) { let _ = std::fs::remove_dir_all(&sp.dir); }
    }
    proc_out.flush().unwrap();
    srv_out.flush().unwrap();
    println!("{}", json!({"rec": "summary", "scenarios": n_run, "replies": total_replies}));
}
