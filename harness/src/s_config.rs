//! C16: configuration loaders probed through make_config + is_valid_config + getters (Config.tla).
//! The environment source uses the DOCUMENTED variable names (README / config module docs),
//! not the constants of environment.rs.
use crate::util::{guarded, hex, Rng};
use roughenough::config::{is_valid_config, make_config};
use serde_json::{json, Value};
use std::io::{BufRead, Write};

const ABSENT: i64 = -999;
const HUGE: i64 = 2_000_000_000;   // TLC integers are 32-bit: anything larger is reported as HUGE
const GOOD_SEED: &str = "a32049da0ffde0ded92ce10a0230d35fe615ec8461c14986baa63fe3b3bac3db";
const DIGIT_SEED: &str = "3141592653589793238462643383279502884197169399375105820974944592";
const INT_KEYS: [(&str, &str); 6] = [
    ("port", "ROUGHENOUGH_PORT"), ("batch_size", "ROUGHENOUGH_BATCH_SIZE"), ("fault_percentage", "ROUGHENOUGH_FAULT_PERCENTAGE"),
    ("num_workers", "ROUGHENOUGH_NUM_WORKERS"), ("status_interval", "ROUGHENOUGH_STATUS_INTERVAL"), ("health_check_port", "ROUGHENOUGH_HEALTH_CHECK_PORT"),
];
const ALL_ENV: [&str; 11] = ["ROUGHENOUGH_PORT", "ROUGHENOUGH_INTERFACE", "ROUGHENOUGH_SEED", "ROUGHENOUGH_BATCH_SIZE", "ROUGHENOUGH_STATUS_INTERVAL",
    "ROUGHENOUGH_KMS_PROTECTION", "ROUGHENOUGH_HEALTH_CHECK_PORT", "ROUGHENOUGH_CLIENT_STATS", "ROUGHENOUGH_FAULT_PERCENTAGE", "ROUGHENOUGH_NUM_WORKERS",
    "ROUGHENOUGH_PERSISTENCE_DIRECTORY"];

fn seed_text(kind: &str) -> Option<String> {
    match kind {
        "ok" => Some(GOOD_SEED.to_string()),
        "digits" => Some(DIGIT_SEED.to_string()),
        "short" => Some(GOOD_SEED[..62].to_string()),
        "long" => Some(format!("{}ab", GOOD_SEED)),
        "nonhex" => Some(format!("zz{}", &GOOD_SEED[2..])),
        "odd" => Some(GOOD_SEED[..63].to_string()),
        "zeros" => Some("0".repeat(64)),                          // valid; YAML types it as the integer 0
        "lzdigits" => Some(format!("{}0123", "0".repeat(60))),     // valid; YAML types it as the integer 123
        "shortdigits" => Some("1234".to_string()),                 // wrong length, digit-only
        "zero1" => Some("0".to_string()),
        _ => None,
    }
}

fn clamp(v: u128) -> i64 { if v > HUGE as u128 { HUGE } else { v as i64 } }

pub fn probe(src: &str, w: &Value, workdir: &str) -> Value {
    let pdir = format!("{}/pdir", workdir);
    std::fs::create_dir_all(&pdir).unwrap();
    for k in ALL_ENV { std::env::remove_var(k); }
    // a leftover of the misspelt name must not help either
    std::env::remove_var("ROUGHENOUGH_NUM_WORKERS:");
    let arg: String;
    if src == "env" {
        for (k, var) in INT_KEYS { let v = w[k].as_i64().unwrap(); if v != ABSENT { std::env::set_var(var, v.to_string()); } }
        if let Some(s) = seed_text(w["seed"].as_str().unwrap()) { std::env::set_var("ROUGHENOUGH_SEED", s); }
        if w["interface"] == "ok" { std::env::set_var("ROUGHENOUGH_INTERFACE", "127.0.0.1"); }
        let cs = w["client_stats"].as_str().unwrap();
        if cs != "absent" { std::env::set_var("ROUGHENOUGH_CLIENT_STATS", cs); }
        if w["persistence_directory"] == "dir" { std::env::set_var("ROUGHENOUGH_PERSISTENCE_DIRECTORY", &pdir); }
        arg = "ENV".to_string();
    } else {
        let mut y = String::new();
        let multidoc = w["multidoc"].as_bool().unwrap_or(false);
        if multidoc {
            // the required settings in a first YAML document, everything else after a "---" separator
            let v = w["port"].as_i64().unwrap(); if v != ABSENT { y.push_str(&format!("port: {}\n", v)); }
            if let Some(s) = seed_text(w["seed"].as_str().unwrap()) { y.push_str(&format!("seed: {}\n", s)); }
            if w["interface"] == "ok" { y.push_str("interface: 127.0.0.1\n"); }
            y.push_str("---\n");
        }
        for (k, _) in INT_KEYS { if multidoc && k == "port" { continue; } let v = w[k].as_i64().unwrap(); if v != ABSENT { y.push_str(&format!("{}: {}\n", k, v)); } }
        if !multidoc { if let Some(s) = seed_text(w["seed"].as_str().unwrap()) { y.push_str(&format!("seed: {}\n", s)); } }
        if !multidoc && w["interface"] == "ok" { y.push_str("interface: 127.0.0.1\n"); }
        let cs = w["client_stats"].as_str().unwrap();
        if cs != "absent" { y.push_str(&format!("client_stats: {}\n", cs)); }
        if w["persistence_directory"] == "dir" { y.push_str(&format!("persistence_directory: {}\n", pdir)); }
        if w["unknown_key"].as_bool().unwrap_or(false) { y.push_str("frobnicate: 1\n"); }
        // a long file: a block of comment lines (more than 4 KiB, then more than 64 KiB every fourth time) behind the first
        // setting - what follows it counts like everything else
        if w["longfile"].as_bool().unwrap_or(false) {
            static LONG: std::sync::atomic::AtomicUsize = std::sync::atomic::AtomicUsize::new(0);
            let big = LONG.fetch_add(1, std::sync::atomic::Ordering::Relaxed) % 4 == 3;
            let block: String = (0..(if big { 1100 } else { 80 })).map(|i| format!("# {:04} ---------------------------------------------------------\n", i)).collect();
            let cut = y.find('\n').map(|i| i + 1).unwrap_or(0);
            y.insert_str(cut, &block);
        }
        // a file whose NAME is the word that selects the environment source, up to letter case ("Env", "env"): still a file
        let envname = w["envname"].as_bool().unwrap_or(false);
        if envname {
            static NAMES: std::sync::atomic::AtomicUsize = std::sync::atomic::AtomicUsize::new(0);
            let name = ["Env", "env", "eNV"][NAMES.fetch_add(1, std::sync::atomic::Ordering::Relaxed) % 3];
            std::fs::write(format!("{}/{}", workdir, name), &y).unwrap();
            arg = name.to_string();
        } else {
            arg = format!("{}/probe.yaml", workdir);
            std::fs::write(&arg, y).unwrap();
        }
        // the file is the source: whatever ROUGHENOUGH_* variables the environment happens to hold (another instance's
        // settings, a leftover export) must not change what the server runs with. Every other file probe runs in such an
        // environment, with valid values that all differ from the file's.
        static FILE_PROBES: std::sync::atomic::AtomicUsize = std::sync::atomic::AtomicUsize::new(0);
        if FILE_PROBES.fetch_add(1, std::sync::atomic::Ordering::Relaxed) % 2 == 1 || envname {
            std::env::set_var("ROUGHENOUGH_SEED", "f".repeat(64));
            std::env::set_var("ROUGHENOUGH_PORT", "4343");
            std::env::set_var("ROUGHENOUGH_INTERFACE", "127.0.0.9");
            std::env::set_var("ROUGHENOUGH_BATCH_SIZE", "9");
            std::env::set_var("ROUGHENOUGH_FAULT_PERCENTAGE", "9");
            std::env::set_var("ROUGHENOUGH_NUM_WORKERS", "9");
            std::env::set_var("ROUGHENOUGH_STATUS_INTERVAL", "99");
            std::env::set_var("ROUGHENOUGH_HEALTH_CHECK_PORT", "4344");
        }
    }
    // (a relative file name is resolved against the working directory)
    let back = std::env::current_dir().ok();
    let relative = src != "env" && !arg.starts_with('/');
    if relative { let _ = std::env::set_current_dir(workdir); }
    let r = guarded(|| {
        let cfg = match make_config(&arg) { Ok(c) => c, Err(e) => return Err(format!("{:?}", e)) };
        if !is_valid_config(cfg.as_ref()) { return Err("is_valid_config = false".to_string()); }
        Ok(json!({
            "running": true,
            "port": cfg.port() as i64,
            "batch_size": cfg.batch_size() as i64,
            "fault_percentage": cfg.fault_percentage() as i64,
            "num_workers": clamp(cfg.num_workers() as u128),
            "status_interval": clamp(cfg.status_interval().as_secs() as u128),
            "health_check_port": cfg.health_check_port().map(|p| p as i64).unwrap_or(ABSENT),
            "client_stats": cfg.client_stats_enabled(),
            "persistence": cfg.persistence_directory().is_some(),
            "seed_ok": hex(&cfg.seed()) == seed_text(w["seed"].as_str().unwrap_or("")).unwrap_or_default(),
            "interface_ok": cfg.interface() == "127.0.0.1",
        }))
    });
    if relative { if let Some(b) = back { let _ = std::env::set_current_dir(b); } }
    for k in ALL_ENV { std::env::remove_var(k); }
    let refused = |why: String| json!({"running": false, "why": why, "port": 0, "batch_size": 0, "fault_percentage": 0, "num_workers": 0,
        "status_interval": 0, "health_check_port": ABSENT, "client_stats": false, "persistence": false, "seed_ok": false, "interface_ok": false});
    match r {
        Ok(Ok(o)) => o,
        Ok(Err(e)) => refused(e),
        Err(p) => refused(format!("panic: {}", p)),
    }
}

/// which written setting does the outcome contradict? (for stable violation keys)
fn contradiction(w: &Value, o: &Value, class: &str) -> String {
    if class == "must_refuse" && o["running"] == true {
        for (k, _) in INT_KEYS {
            let v = w[k].as_i64().unwrap();
            if v != ABSENT && o[k].as_i64().unwrap() != v { return format!("out-of-range {} ran as a different value", k); }
        }
        return "started although a setting is out of range / missing / unknown".to_string();
    }
    if o["running"] == true {
        for (k, _) in INT_KEYS {
            let v = w[k].as_i64().unwrap();
            if v != ABSENT && o[k].as_i64().unwrap() != v { return format!("{} effective value differs from written", k); }
        }
        return "effective value differs from written".to_string();
    }
    "refused an in-range documented configuration".to_string()
}

pub fn replay(path: &str, workdir: &str) {
    let f = std::fs::File::open(path).expect("open cases");
    let stdout = std::io::stdout();
    let mut out = stdout.lock();
    let mut execs = 0u64;
    // replay only produces the observations; the verdict (Allowed) is TLC's, in Trace_Config
    for line in std::io::BufReader::new(f).lines() {
        let line = line.unwrap();
        let c: Value = match serde_json::from_str(&line) { Ok(v) => v, Err(_) => continue };
        let src = c["src"].as_str().unwrap();
        let o = probe(src, &c["w"], workdir);
        execs += 1;
        let hint = contradiction(&c["w"], &o, c["class"].as_str().unwrap());
        writeln!(out, "{}", json!({"rec": "probe", "ev": "probe", "src": src, "w": c["w"], "class": c["class"], "o": o, "hint": hint})).unwrap();
    }
    writeln!(out, "{}", json!({"rec": "summary", "executions": execs})).unwrap();
}

pub fn record(seed: u64, tier: &str, out_path: &str, workdir: &str) {
    let mut rng = Rng::new(seed ^ 0xC16);
    let mut out = std::io::BufWriter::new(std::fs::File::create(out_path).expect("create trace"));
    let n = if tier == "thorough" { 6000 } else { 1500 };
    let grid: [i64; 18] = [-206, -1, 0, 1, 2, 16, 50, 51, 63, 64, 65, 255, 256, 300, 8080, 65535, 65536, 70000];
    for _ in 0..n {
        let src = if rng.chance(1, 2) { "file" } else { "env" };
        let mut w = json!({"port": 8686, "batch_size": ABSENT, "fault_percentage": ABSENT, "num_workers": ABSENT, "status_interval": ABSENT,
            "health_check_port": ABSENT, "seed": "ok", "interface": "ok", "client_stats": "absent", "persistence_directory": "absent", "unknown_key": false, "multidoc": false, "longfile": false, "envname": false});
        // mostly in-range multi-key configurations with one or two boundary values
        for (k, _) in INT_KEYS {
            if rng.chance(1, 2) {
                let v = if rng.chance(1, 4) { *rng.pick(&grid) } else {
                    match k { "port" | "health_check_port" => rng.range(1, 65535) as i64, "batch_size" => rng.range(1, 64) as i64,
                              "fault_percentage" => rng.range(0, 50) as i64, "num_workers" => rng.range(1, 16) as i64, _ => rng.range(1, 65535) as i64 }
                };
                w[k] = json!(v);
            }
        }
        if rng.chance(1, 12) { w["port"] = json!(ABSENT); }
        // the TCP health-check port may carry the same number as the UDP port
        if rng.chance(1, 15) && w["port"].as_i64().unwrap() != ABSENT { w["health_check_port"] = w["port"].clone(); }
        if rng.chance(1, 12) && src == "file" { w["multidoc"] = json!(true); }
        if rng.chance(1, 10) { w["seed"] = json!(*rng.pick(&["short", "long", "nonhex", "missing", "odd", "digits", "zeros", "lzdigits", "shortdigits", "zero1"])); }
        if rng.chance(1, 20) { w["interface"] = json!("missing"); }
        if rng.chance(1, 3) { w["client_stats"] = json!(*rng.pick(&["on", "yes", "off", "ON", "On", "oN", "YES", "Yes", "yEs", "OFF", "no", "enabled", "onn"])); }
        if rng.chance(1, 3) { w["persistence_directory"] = json!("dir"); }
        if src == "file" && rng.chance(1, 15) { w["unknown_key"] = json!(true); }
        if src == "file" && rng.chance(1, 8) { w["longfile"] = json!(true); }
        if src == "file" && rng.chance(1, 12) { w["envname"] = json!(true); }
        let o = probe(src, &w, workdir);
        // the class is recomputed by TLC; the harness only passes through what it believes for cross-checking
        let class = classify(&w);
        let hint = contradiction(&w, &o, class);
        writeln!(out, "{}", json!({"ev": "probe", "src": src, "w": w, "class": class, "o": o, "hint": hint})).unwrap();
    }
    out.flush().unwrap();
    println!("{}", json!({"rec": "summary", "events": n}));
}

/// harness-side copy of Class(w), cross-checked by TLC on every event (a disagreement is a tool error there)
fn classify(w: &Value) -> &'static str {
    let g = |k: &str| w[k].as_i64().unwrap();
    let inr = |k: &str, v: i64| match k { "port" | "health_check_port" | "status_interval" => (1..=65535).contains(&v), "batch_size" => (1..=64).contains(&v),
        "fault_percentage" => (0..=50).contains(&v), _ => v >= 1 };
    let must_refuse = g("port") == ABSENT || ["port", "batch_size", "fault_percentage", "num_workers"].iter().any(|k| g(k) != ABSENT && !inr(k, g(k)))
        || !["ok", "digits", "zeros", "lzdigits"].contains(&w["seed"].as_str().unwrap_or("")) || w["interface"] != "ok" || w["unknown_key"] == true;
    if must_refuse { return "must_refuse"; }
    let stats_on = ["on", "yes", "ON", "On", "oN", "YES", "Yes", "yEs"].contains(&w["client_stats"].as_str().unwrap_or(""));
    let must_run = w["multidoc"] != true && w["seed"] != "zeros" && w["seed"] != "lzdigits" && INT_KEYS.iter().all(|(k, _)| g(k) == ABSENT || inr(k, g(k))) && (!stats_on || w["persistence_directory"] == "dir");
    if must_run { "must_run" } else { "may" }
}
