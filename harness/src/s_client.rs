//! C01 / C03: the REAL roughenough-client binary against the harness's reference / adversarial responder.
//! The responder holds its own keys and builds every response with the interpretation `I`
//! (own codec, own Merkle tree at the protocol's hash width, ed25519-dalek) from the request the
//! client actually sent. Recipes come from TLC (Client.tla, MC_Client) or from seeded byte-level drivers.
use crate::interp::{self, Proto, RefTree};
use crate::proto::{self, VER_DRAFT13};
use crate::refcodec as rc;
use crate::util::{hex, le32, Rng};
use serde_json::{json, Value};
use std::io::{BufRead, Read, Write};
use std::net::UdpSocket;
use std::process::{Command, Stdio};
use std::time::Duration;

pub struct Keys { pub ltk: [u8; 32], pub ltkx: [u8; 32], pub olk: [u8; 32], pub olkx: [u8; 32] }

impl Keys {
    pub fn new(rng: &mut Rng) -> Keys {
        let k = |rng: &mut Rng| -> [u8; 32] { rng.bytes(32).try_into().unwrap() };
        Keys { ltk: k(rng), ltkx: k(rng), olk: k(rng), olkx: k(rng) }
    }
    fn by_name(&self, n: &str) -> Option<&[u8; 32]> {
        match n { "LTK" => Some(&self.ltk), "LTKx" => Some(&self.ltkx), "OLK" => Some(&self.olk), "OLKx" => Some(&self.olkx), _ => None }
    }
}

/// the parts of a response before assembly
#[derive(Clone)]
pub struct Parts {
    pub framed: bool,
    pub sig: Vec<u8>,
    pub nonc: Option<Vec<u8>>,
    pub path: Vec<u8>,
    pub indx: u32,
    pub srep: Vec<u8>,       // encoded SREP
    pub cert_sig: Vec<u8>,
    pub dele: Vec<u8>,       // encoded DELE
}

pub fn assemble(p: &Parts) -> Vec<u8> {
    let cert = rc::ref_encode(&[(rc::SIG, p.cert_sig.clone()), (rc::DELE, p.dele.clone())]);
    let mut fields: Vec<(u64, Vec<u8>)> = vec![(rc::SIG, p.sig.clone())];
    if let Some(n) = &p.nonc { fields.push((rc::NONC, n.clone())); }
    fields.push((rc::PATH, p.path.clone()));
    fields.push((rc::SREP, p.srep.clone()));
    fields.push((rc::CERT, cert));
    fields.push((rc::INDX, le32(p.indx).to_vec()));
    let body = rc::ref_encode(&fields);
    if p.framed { rc::ref_frame(&body) } else { body }
}

pub fn enc_dele(pubk: &[u8], mint: u64, maxt: u64) -> Vec<u8> {
    rc::ref_encode(&[(rc::PUBK, pubk.to_vec()), (rc::MINT, mint.to_le_bytes().to_vec()), (rc::MAXT, maxt.to_le_bytes().to_vec())])
}

pub fn enc_srep(v: Proto, midp: u64, root: &[u8]) -> Vec<u8> {
    match v {
        Proto::Google => rc::ref_encode(&[(rc::RADI, le32(5_000_000).to_vec()), (rc::MIDP, midp.to_le_bytes().to_vec()), (rc::ROOT, root.to_vec())]),
        Proto::Ietf => {
            let vers: Vec<u8> = [0u32, VER_DRAFT13].iter().flat_map(|x| le32(*x)).collect();
            rc::ref_encode(&[(rc::VER, le32(VER_DRAFT13).to_vec()), (rc::RADI, le32(5).to_vec()), (rc::MIDP, midp.to_le_bytes().to_vec()),
                             (rc::VERS, vers), (rc::ROOT, root.to_vec())])
        }
    }
}

fn sign(seed: &[u8; 32], ctx: &[u8], m: &[u8]) -> Vec<u8> {
    let mut b = ctx.to_vec(); b.extend_from_slice(m);
    interp::sign_oneshot(seed, &b).to_vec()
}

/// A batch of n leaves with `leaf` at position i (the others are dummy requests of the same protocol)
fn batch_with(v: Proto, leaf: &[u8], i: usize, n: usize, rng: &mut Rng) -> (Vec<u8>, Vec<u8>) {
    let mut leaves: Vec<Vec<u8>> = (0..n).map(|_| rng.bytes(if v == Proto::Google { 64 } else { 1024 })).collect();
    leaves[i] = leaf.to_vec();
    let t = RefTree::build(v.prof(), &leaves);
    (t.root(), t.path(i).concat())
}

/// The honest response to `request` (nonce extracted by I), signed in a batch of n at position i
pub fn honest_parts(v: Proto, request: &[u8], keys: &Keys, i: usize, n: usize, midp: u64, rng: &mut Rng) -> Parts {
    honest_parts_win(v, request, keys, i, n, midp, 0, u64::MAX, rng)
}

/// ... with an explicit delegation window (an honest server may certify any window that contains the midpoint)
pub fn honest_parts_win(v: Proto, request: &[u8], keys: &Keys, i: usize, n: usize, midp: u64, mint: u64, maxt: u64, rng: &mut Rng) -> Parts {
    let nonce = proto::request_nonce(request).unwrap_or_default();
    let leaf = proto::leaf_data(v, request, &nonce);
    let (root, path) = batch_with(v, &leaf, i, n, rng);
    let srep = enc_srep(v, midp, &root);
    let dele = enc_dele(&interp::pk_of_seed(&keys.olk), mint, maxt);
    Parts { framed: v == Proto::Ietf, sig: sign(&keys.olk, v.srep_ctx(), &srep), nonc: if v == Proto::Ietf { Some(nonce) } else { None },
            path, indx: i as u32, srep, cert_sig: sign(&keys.ltk, v.dele_ctx(), &dele), dele }
}

/// What the property's conditions say about a datagram, judged leniently on exactly the content a
/// client extracts (framing length and trailing bytes are not among the listed conditions).
pub fn facts(v: Proto, datagram: &[u8], request: &[u8], pinned: &[u8]) -> Value {
    let none = json!({"parse_ok": false, "dele_sig_ok": false, "srep_sig_ok": false, "window_ok": false, "proof_ok": false});
    let payload: &[u8] = match v {
        Proto::Ietf => { if datagram.len() < 12 || &datagram[..8] != proto::MAGIC { return none; } &datagram[12..] }
        Proto::Google => datagram,
    };
    let top = match rc::ref_decode(payload) { Some(t) => t, None => return none };
    let (sig, path, srep, cert, indx) = match (rc::get(&top, rc::SIG), rc::get(&top, rc::PATH), rc::get(&top, rc::SREP), rc::get(&top, rc::CERT), rc::get(&top, rc::INDX)) {
        (Some(a), Some(b), Some(c), Some(d), Some(e)) if e.len() >= 4 => (a, b, c, d, e), _ => return none };
    let sf = match rc::ref_decode(srep) { Some(s) => s, None => return none };
    let cf = match rc::ref_decode(cert) { Some(s) => s, None => return none };
    let (csig, dele) = match (rc::get(&cf, rc::SIG), rc::get(&cf, rc::DELE)) { (Some(a), Some(b)) => (a, b), _ => return none };
    let df = match rc::ref_decode(dele) { Some(s) => s, None => return none };
    let (root, midp) = match (rc::get(&sf, rc::ROOT), rc::get(&sf, rc::MIDP)) { (Some(a), Some(b)) if b.len() >= 8 => (a, crate::util::rd64(b)), _ => return none };
    let (pubk, mint, maxt) = match (rc::get(&df, rc::PUBK), rc::get(&df, rc::MINT), rc::get(&df, rc::MAXT)) {
        (Some(a), Some(b), Some(c)) if b.len() >= 8 && c.len() >= 8 => (a, crate::util::rd64(b), crate::util::rd64(c)), _ => return none };
    let mut m = v.dele_ctx().to_vec(); m.extend_from_slice(dele);
    let dele_sig_ok = interp::verify_oneshot(pinned, &m, csig);
    let mut m2 = v.srep_ctx().to_vec(); m2.extend_from_slice(srep);
    let srep_sig_ok = interp::verify_oneshot(pubk, &m2, sig);
    let nonce = proto::request_nonce(request).unwrap_or_default();
    let leaf = proto::leaf_data(v, request, &nonce);
    let prof = v.prof();
    let proof_ok = path.len() % prof.node_w == 0 && interp::root_from_path(prof, crate::util::rd32(indx) as u64, &leaf, path).as_deref() == Some(root);
    json!({"parse_ok": true, "dele_sig_ok": dele_sig_ok, "srep_sig_ok": srep_sig_ok, "window_ok": mint <= midp && midp <= maxt, "proof_ok": proof_ok, "midp": midp.to_string()})
}

// ---------------------------------------------------------------------------- running the client

pub struct ClientRun { pub exit: i32, pub stdout: String, pub stderr: String, pub requests: Vec<Vec<u8>>,
                       /// how the output was asked for (0 JSON, 1 plain + verbose, 2 JSON + verbose + dump + request/response files) and,
                       /// for mode 2, whether the files hold exactly the datagrams exchanged (None = not asked for)
                       pub out_mode: usize, pub files_ok: Option<bool> }

/// Output views of the client (the property speaks of both "verified=Yes" and "\"verified\": true"): every run rotates through
///   0  `-j`                 one JSON object per response on stdout
///   1  `-v` (no `-j`)       the bare time on stdout, "Received time from server: midpoint=.., radius=.., verified=Yes|No" on stderr
///   2  `-j -v -d -o F -O G` all views at once, plus the text dump of the messages and the request / response files
/// What is printed, and whether anything is printed, must be the same in every view.
pub static CLIENT_OUT_RUNS: std::sync::atomic::AtomicUsize = std::sync::atomic::AtomicUsize::new(0);
pub static CLIENT_OUT_DIR: std::sync::Mutex<String> = std::sync::Mutex::new(String::new());

/// Run the real client; `respond(k, request) -> Option<datagram>` is called for the k-th request received.
/// How the next client processes are run (the printed instant must not depend on it):
///   0  UTC output (-z), server addressed as 127.0.0.1
///   1  local-time output (no -z) in the fixed-offset zone TZ=EST5
///   2  local-time output in a zone with daylight-saving rules (TZ=NZST-12NZDT,M9.5.0,M4.1.0/3)
///   3  UTC output; the server is addressed as 127.0.0.2 and answers from its wildcard-bound socket, so the reply's
///      source address (127.0.0.1) is not the address the request was sent to
///   4  local wall-clock output ("%Y-%m-%d %H:%M:%S.%f", no offset shown) under TZ=EST5EDT with daylight-saving rules;
///      the expected text comes from the C library (`date -d @secs`), not from the client's own time library
pub const DST_ZONE: &str = "EST5EDT,M3.2.0,M11.1.0";
pub static CLIENT_ENV_MODE: std::sync::atomic::AtomicUsize = std::sync::atomic::AtomicUsize::new(0);

pub fn run_client(client_bin: &str, v: Proto, key: Option<String>, nreq: usize, extra: &[&str], sock: &UdpSocket,
                  respond: &mut dyn FnMut(usize, &[u8]) -> Option<Vec<u8>>) -> ClientRun {
    let port = sock.local_addr().unwrap().port();
    let mode = CLIENT_ENV_MODE.load(std::sync::atomic::Ordering::Relaxed);
    let mut cmd = Command::new(client_bin);
    cmd.arg(if mode == 3 { "127.0.0.2" } else { "127.0.0.1" }).arg(port.to_string()).arg("-p").arg(if v == Proto::Google { "0" } else { "13" })
        .arg("-n").arg(nreq.to_string()).arg("-t").arg("2").arg("-f").arg("%s.%f");
    let out_dir = CLIENT_OUT_DIR.lock().map(|g| g.clone()).unwrap_or_default();
    let out_mode = if mode == 4 { 0 } else { let k = CLIENT_OUT_RUNS.fetch_add(1, std::sync::atomic::Ordering::Relaxed) % 3; if k == 2 && out_dir.is_empty() { 0 } else { k } };
    let (reqf, respf) = (format!("{}/client_requests.bin", out_dir), format!("{}/client_responses.bin", out_dir));
    match out_mode {
        0 => { cmd.arg("-j"); }
        1 => { cmd.arg("-v"); }
        _ => { let _ = std::fs::remove_file(&reqf); let _ = std::fs::remove_file(&respf); cmd.arg("-j").arg("-v").arg("-d").arg("-o").arg(&reqf).arg("-O").arg(&respf); }
    }
    if mode == 4 {
        // local wall-clock output in a daylight-saving zone (the offset in force AT THE MIDPOINT applies, not today's)
        let mut c2 = Command::new(client_bin);
        c2.arg("127.0.0.1").arg(port.to_string()).arg("-p").arg(if v == Proto::Google { "0" } else { "13" })
            .arg("-n").arg(nreq.to_string()).arg("-t").arg("2").arg("-j").arg("-f").arg("%Y-%m-%d %H:%M:%S.%f").env("TZ", DST_ZONE);
        cmd = c2;
    }
    if mode == 0 || mode == 3 { cmd.arg("-z"); }
    if mode == 1 { cmd.env("TZ", "EST5"); }
    if mode == 2 { cmd.env("TZ", "NZST-12NZDT,M9.5.0,M4.1.0/3"); }
    if let Some(k) = &key { cmd.arg("-k").arg(k); }
    for e in extra { cmd.arg(e); }
    cmd.env("RUST_BACKTRACE", "0").stdin(Stdio::null()).stdout(Stdio::piped()).stderr(Stdio::piped());
    let mut child = cmd.spawn().expect("spawn client");
    // wait for the client's requests: up to 3 s, but not longer than the client process lives (a client that exits at
    // once - bad arguments, a panic - must not cost the full wait for each of a thousand runs)
    sock.set_read_timeout(Some(Duration::from_millis(50))).unwrap();
    let mut requests = Vec::new();
    let mut buf = vec![0u8; 4096];
    let mut peers = Vec::new();
    let t_wait = std::time::Instant::now();
    let mut exited_seen = false;
    while requests.len() < nreq && t_wait.elapsed() < Duration::from_millis(3000) {
        match sock.recv_from(&mut buf) {
            Ok((n, from)) => { requests.push(buf[..n].to_vec()); peers.push(from); }
            Err(_) => {
                if exited_seen { break; }
                if matches!(child.try_wait(), Ok(Some(_))) { exited_seen = true; }   // one more look at the socket, then give up
            }
        }
    }
    // the client reads the replies in the order it created its sockets = the order the requests arrived
    let mut sent: Vec<u8> = vec![];
    let mut all_answered = true;
    for (k, from) in peers.iter().enumerate() {
        if let Some(d) = respond(k, &requests[k]) { let _ = sock.send_to(&d, from); if all_answered { sent.extend_from_slice(&d); } } else { all_answered = false; }
    }
    let mut stdout = String::new();
    let mut stderr = String::new();
    // (the dump view prints much: drain the pipes before waiting)
    // both pipes are drained at the same time: a client that fills one while the harness waits for the end of the other
    // would block for ever (the text dump of a long run is larger than a pipe buffer)
    let err_pipe = child.stderr.take();
    let err_thread = std::thread::spawn(move || { let mut t = String::new(); if let Some(mut e) = err_pipe { let _ = e.read_to_string(&mut t); } t });
    if let Some(mut o) = child.stdout.take() { let _ = o.read_to_string(&mut stdout); }
    stderr.push_str(&err_thread.join().unwrap_or_default());
    let status = child.wait().expect("wait client");
    let files_ok = if out_mode == 2 && requests.len() == nreq && status.code() == Some(0) {
        // a run that ended well wrote every request it sent and every response it processed, in order, nothing else
        let rq = std::fs::read(&reqf).unwrap_or_default();
        let rs = std::fs::read(&respf).unwrap_or_default();
        Some(rq == requests.concat() && rs == sent)
    } else { None };
    ClientRun { exit: status.code().unwrap_or(-1), stdout, stderr, requests, out_mode, files_ok }
}

/// the verbose view: one line per processed response on stderr -> (seconds, nanoseconds, verified)
pub fn verbose_times(stderr: &str) -> Vec<(u64, u32, bool)> {
    let mut out = vec![];
    for line in stderr.lines() {
        let line = line.trim();
        let rest = match line.strip_prefix("Received time from server: midpoint=\"") { Some(r) => r, None => continue };
        let (m, tail) = match rest.split_once('"') { Some(x) => x, None => continue };
        let mut it = m.split('.');
        let s = it.next().and_then(|x| x.parse::<u64>().ok());
        let ns = it.next().and_then(|x| x.parse::<u32>().ok());
        let ver = if tail.contains("verified=Yes") { Some(true) } else if tail.contains("verified=No") { Some(false) } else { None };
        if let (Some(s), Some(ns), Some(v)) = (s, ns, ver) { out.push((s, ns, v)); } else { out.push((u64::MAX, 0, ver.unwrap_or(true))); }
    }
    out
}

/// the plain view: the bare time, one line per processed response on stdout
pub fn plain_times(stdout: &str) -> Vec<(u64, u32)> {
    // (with a pinned key the client also reports "Valid signature on DELE tag" / "... SREP tag" on stdout)
    stdout.lines().map(|l| l.trim()).filter(|l| !l.is_empty() && !l.starts_with("Valid signature on ")).map(|l| {
        let mut it = l.split('.');
        let s = it.next().and_then(|x| x.parse::<u64>().ok());
        let ns = it.next().and_then(|x| x.parse::<u32>().ok());
        match (s, ns, it.next()) { (Some(s), Some(ns), None) => (s, ns), _ => (u64::MAX, 0) }
    }).collect()
}

/// parse the client's JSON lines: (midpoint seconds, nanoseconds, verified)
pub fn printed_times(stdout: &str) -> Vec<(u64, u32, bool)> {
    let mut out = vec![];
    for line in stdout.lines() {
        let line = line.trim();
        if !line.starts_with('{') { continue; }
        if let Ok(v) = serde_json::from_str::<Value>(line) {
            if let Some(m) = v["midpoint"].as_str() {
                let mut it = m.split('.');
                let s = it.next().and_then(|x| x.parse::<u64>().ok());
                let ns = it.next().and_then(|x| x.parse::<u32>().ok());
                if let (Some(s), Some(ns)) = (s, ns) { out.push((s, ns, v["verified"].as_bool().unwrap_or(false))); }
            }
        }
    }
    out
}

fn key_arg(keys: &Keys, opt: &str) -> Option<String> {
    let pk = interp::pk_of_seed(&keys.ltk);
    match opt {
        "hex" => Some(hex(&pk)), "b64" => Some(b64_padded(&pk)),
        "HEX" => Some(hex(&pk).to_uppercase()),
        "HeX" => Some(hex(&pk).chars().enumerate().map(|(i, c)| if i % 3 == 0 { c.to_ascii_uppercase() } else { c }).collect()),
        _ => None }
}

fn b64_padded(d: &[u8]) -> String {
    let abc = b"ABCDEFGHIJKLMNOPQRSTUVWXYZabcdefghijklmnopqrstuvwxyz0123456789+/";
    let mut s = String::new();
    for c in d.chunks(3) {
        let n = (c[0] as u32) << 16 | (*c.get(1).unwrap_or(&0) as u32) << 8 | *c.get(2).unwrap_or(&0) as u32;
        s.push(abc[(n >> 18) as usize & 63] as char); s.push(abc[(n >> 12) as usize & 63] as char);
        s.push(if c.len() > 1 { abc[(n >> 6) as usize & 63] as char } else { '=' });
        s.push(if c.len() > 2 { abc[n as usize & 63] as char } else { '=' });
    }
    s
}

fn expected_print(v: Proto, midp: u64) -> (u64, u32) {
    match v { Proto::Google => (midp / 1_000_000, ((midp % 1_000_000) * 1000) as u32), Proto::Ietf => (midp, 0) }
}

fn now_midp(v: Proto) -> u64 {
    let d = std::time::SystemTime::now().duration_since(std::time::UNIX_EPOCH).unwrap();
    match v { Proto::Google => d.as_secs() * 1_000_000 + d.subsec_micros() as u64, Proto::Ietf => d.as_secs() }
}

// ---------------------------------------------------------------------------- recipes from TLC

struct Old { request: Vec<u8>, parts: Parts }

/// concretise one Client.tla response recipe for the request actually received
fn from_recipe(v: Proto, r: &Value, request: &[u8], keys: &Keys, old: &Old, midp: u64, rng: &mut Rng) -> Vec<u8> {
    let other = if v == Proto::Google { Proto::Ietf } else { Proto::Google };
    let nonce = proto::request_nonce(request).unwrap_or_default();
    let honest = honest_parts(v, request, keys, 1, 3, midp, rng);
    // roots and proofs
    let this_root = rc::get(&rc::ref_decode(&honest.srep).unwrap(), rc::ROOT).unwrap().to_vec();
    let old_root = rc::get(&rc::ref_decode(&old.parts.srep).unwrap(), rc::ROOT).unwrap().to_vec();
    let (op_root, op_path) = { // the other protocol's tree over this nonce (cross-protocol splice)
        let leaf = if other == Proto::Google { nonce.clone() } else { request.to_vec() };
        batch_with(other, &leaf, 0, 2, rng)
    };
    let root_of = |name: &str, rng: &mut Rng| -> Vec<u8> { match name { "this" => this_root.clone(), "old" => old_root.clone(), "otherproto" => op_root.clone(),
        "short" => { let k = [0usize, 4, 16, 32][rng.below(4) as usize].min(this_root.len().saturating_sub(4)); this_root[..k].to_vec() }   // empty or a proper prefix
        _ => rng.bytes(v.width()) } };
    let dele_of = |d: &Value| -> Vec<u8> {
        let pubk = interp::pk_of_seed(keys.by_name(d["pubk"].as_str().unwrap()).unwrap());
        let m = match v { Proto::Google => midp, Proto::Ietf => midp };
        match d["win"].as_str().unwrap() { "starts_after" => enc_dele(&pubk, m + 1, u64::MAX), "ends_before" => enc_dele(&pubk, 0, m.saturating_sub(1)),
            "inverted_lo" => enc_dele(&pubk, m.saturating_sub(10), m.saturating_sub(20)),     // MAXT < MINT <= midpoint
            "inverted_hi" => enc_dele(&pubk, m.saturating_add(20), m.saturating_add(10)),     // midpoint <= MAXT < MINT
            _ => enc_dele(&pubk, 0, u64::MAX) }
    };
    let mut srep_of = |s: &Value, rng: &mut Rng| -> Vec<u8> {
        let sv = if s["ver"] == "G" { Proto::Google } else { Proto::Ietf };
        let m = if s["midp"] == "now" { midp } else { midp + 1 };
        let root = root_of(s["root"].as_str().unwrap(), rng);
        enc_srep(sv, m, &root)
    };
    let dele = dele_of(&r["dele"]);
    let srep = srep_of(&r["srep"], rng);
    let csig = match keys.by_name(r["csig"]["k"].as_str().unwrap_or("none")) {
        Some(k) => { let ctx = if r["csig"]["ctx"] == "deleG" { Proto::Google.dele_ctx() } else { Proto::Ietf.dele_ctx() }; sign(k, ctx, &dele_of(&r["csig"]["m"])) }
        None => rng.bytes(64),
    };
    let ssig = match keys.by_name(r["ssig"]["k"].as_str().unwrap_or("none")) {
        Some(k) => { let m = if r["ssig"]["m"] == r["srep"] { srep.clone() } else { srep_of(&r["ssig"]["m"], rng) }; sign(k, v.srep_ctx(), &m) }
        None => rng.bytes(64),
    };
    let (path, indx) = match (r["proof"]["leaf"].as_str().unwrap(), r["proof"]["root"].as_str().unwrap()) {
        ("old", _) => (old.parts.path.clone(), old.parts.indx),
        ("none", _) => (rng.bytes(v.width()), 0),
        (_, "otherproto") => (op_path.clone(), 0),
        _ => (honest.path.clone(), honest.indx),
    };
    let framed = match r["framing"].as_str().unwrap() { "ok" => v == Proto::Ietf, _ => v != Proto::Ietf };
    assemble(&Parts { framed, sig: ssig, nonc: honest.nonc.clone(), path, indx, srep, cert_sig: csig, dele })
}

thread_local! {
    /// SRV value of the key the client is given in the current stage (what a request of the client may name)
    pub static REQ_SRV: std::cell::RefCell<Vec<u8>> = std::cell::RefCell::new(vec![]);
}

/// the local wall-clock text of an instant in DST_ZONE, by the C library
fn local_text(secs: u64, nanos: u32) -> String {
    let o = Command::new("date").env("TZ", DST_ZONE).arg("-d").arg(format!("@{}.{:09}", secs, nanos)).arg("+%Y-%m-%d %H:%M:%S.%N").output();
    o.ok().map(|x| String::from_utf8_lossy(&x.stdout).trim().to_string()).unwrap_or_default()
}

/// as emit_run, for runs whose "midpoint" is local wall-clock text
fn emit_run_text(out: &mut dyn Write, kind: &str, v: Proto, keyopt: &str, run: &ClientRun, served: &[Value], expect: &[(u64, u32)], extra: Value) {
    let mut printed: Vec<(String, bool)> = vec![];
    for line in run.stdout.lines() {
        if let Ok(j) = serde_json::from_str::<Value>(line.trim()) { if let Some(m) = j["midpoint"].as_str() { printed.push((m.to_string(), j["verified"].as_bool().unwrap_or(false))); } }
    }
    let want: Vec<String> = expect.iter().map(|(s, n)| local_text(*s, *n)).collect();
    let times_ok = printed.len() <= want.len() && printed.iter().zip(want.iter()).all(|(p, w)| !w.is_empty() && p.0 == *w);
    let verified: Vec<bool> = printed.iter().map(|p| p.1).collect();
    writeln!(out, "{}", json!({"ev": "run", "kind": kind, "v": v.tag(), "key": keyopt, "nreq": run.requests.len(), "served": served, "exit": run.exit,
        "printed": printed.len(), "verified": verified, "times_ok": times_ok, "panicked": run.stderr.contains("panicked"), "extra": extra,
        "reqf": run.requests.iter().map(|r| proto::request_features(r, &REQ_SRV.with(|x| x.borrow().clone()))).collect::<Vec<Value>>(),
        "printed_text": printed.iter().map(|p| p.0.clone()).collect::<Vec<_>>(), "expected_text": want,
        "out_mode": 0, "vprinted": 0, "vverified": Vec::<bool>::new(), "vtimes_ok": true, "files": "na"})).unwrap();
}

fn emit_run(out: &mut dyn Write, kind: &str, v: Proto, keyopt: &str, run: &ClientRun, served: &[Value], expect_times: &[(u64, u32)], extra: Value) {
    // the primary view of this run's output mode, and the verbose view next to it when there is one
    let (nprinted, times_ok, verified): (usize, bool, Vec<bool>) = if run.out_mode == 1 {
        let pl = plain_times(&run.stdout);
        (pl.len(), pl.len() <= expect_times.len() && pl.iter().zip(expect_times.iter()).all(|(p, e)| p.0 == e.0 && p.1 == e.1), vec![])
    } else {
        let pr = printed_times(&run.stdout);
        (pr.len(), pr.len() <= expect_times.len() && pr.iter().zip(expect_times.iter()).all(|(p, e)| p.0 == e.0 && p.1 == e.1), pr.iter().map(|p| p.2).collect())
    };
    let vb = if run.out_mode == 0 { vec![] } else { verbose_times(&run.stderr) };
    let vtimes_ok = vb.len() <= expect_times.len() && vb.iter().zip(expect_times.iter()).all(|(p, e)| p.0 == e.0 && p.1 == e.1);
    let vverified: Vec<bool> = vb.iter().map(|p| p.2).collect();
    let panicked = run.stderr.contains("panicked");
    let reqf: Vec<Value> = run.requests.iter().map(|r| proto::request_features(r, &REQ_SRV.with(|x| x.borrow().clone()))).collect();
    writeln!(out, "{}", json!({"ev": "run", "kind": kind, "v": v.tag(), "key": keyopt, "nreq": run.requests.len(), "served": served, "exit": run.exit,
        "printed": nprinted, "verified": verified, "times_ok": times_ok, "panicked": panicked, "extra": extra, "reqf": reqf,
        "out_mode": run.out_mode, "vprinted": vb.len(), "vverified": vverified, "vtimes_ok": vtimes_ok,
        "files": match run.files_ok { None => "na", Some(true) => "ok", Some(false) => "differ" }})).unwrap();
}

pub fn replay(path: &str, out_path: &str, client_bin: &str, seed: u64, tier: &str) {
    if let Ok(mut g) = CLIENT_OUT_DIR.lock() { *g = std::path::Path::new(out_path).parent().map(|p| p.to_string_lossy().to_string()).unwrap_or_default(); }
    let mut rng = Rng::new(seed ^ 0xC01);
    let keys = Keys::new(&mut rng);
    let pinned = interp::pk_of_seed(&keys.ltk);
    REQ_SRV.with(|x| *x.borrow_mut() = interp::srv_of_pk(&pinned));
    let sock = UdpSocket::bind("127.0.0.1:0").expect("bind responder");
    let mut out = std::io::BufWriter::new(std::fs::File::create(out_path).expect("create trace"));
    let f = std::fs::File::open(path).expect("open recipes");
    let mut recipes: Vec<Value> = vec![];
    for line in std::io::BufReader::new(f).lines() { if let Ok(v) = serde_json::from_str::<Value>(&line.unwrap()) { recipes.push(v); } }
    // all recipes within one substitution; a seeded sample of the farther ones
    let budget = if tier == "thorough" { 6000 } else { 700 };
    let near: Vec<Value> = recipes.iter().filter(|r| r["dist"].as_u64().unwrap_or(9) <= 1).cloned().collect();
    let mut far: Vec<Value> = recipes.iter().filter(|r| r["dist"].as_u64().unwrap_or(9) > 1).cloned().collect();
    for i in 0..far.len() { let j = i + rng.below((far.len() - i) as u64) as usize; far.swap(i, j); }
    far.truncate(budget);
    let mut n = 0u64;
    let mut mism = 0u64;
    // an earlier genuine exchange per protocol (the "old" request/response pair used for replays)
    let mut olds: std::collections::HashMap<&str, Old> = Default::default();
    for v in [Proto::Google, Proto::Ietf] {
        let midp = now_midp(v);
        let mut req0 = vec![];
        let mut parts0: Option<Parts> = None;
        let run = run_client(client_bin, v, None, 1, &[], &sock, &mut |_, rq| { req0 = rq.to_vec(); let p = honest_parts(v, rq, &keys, 0, 2, midp, &mut Rng::new(7)); parts0 = Some(p.clone()); Some(assemble(&p)) });
        let _ = run;
        if let Some(p) = parts0 { olds.insert(v.tag(), Old { request: req0, parts: p }); }
    }
    for r in near.iter().chain(far.iter()) {
        let v = if r["v"] == "G" { Proto::Google } else { Proto::Ietf };
        let keyopt = r["key"].as_str().unwrap();
        let old = match olds.get(v.tag()) { Some(o) => o, None => continue };
        let midp = now_midp(v);
        let mut served = vec![];
        let mut sub = Rng::new(rng.next_u64());
        let run = run_client(client_bin, v, key_arg(&keys, keyopt), 1, &[], &sock, &mut |_, rq| {
            let d = from_recipe(v, &r["resp"], rq, &keys, old, midp, &mut sub);
            let mut f = facts(v, &d, rq, &pinned);
            f["recipe_authentic"] = r["authentic"].clone();
            f["honest"] = json!(r["dist"].as_u64() == Some(0));
            served.push(f);
            Some(d)
        });
        let _ = &old.request;
        // cross-check of the concretisation: I's verdict on the bytes must equal the recipe's symbolic verdict
        if let Some(f) = served.first() {
            let all = f["parse_ok"] == true && f["dele_sig_ok"] == true && f["srep_sig_ok"] == true && f["window_ok"] == true && f["proof_ok"] == true;
            if all != r["authentic"].as_bool().unwrap_or(false) { mism += 1; }
        }
        let exp: Vec<(u64, u32)> = vec![expected_print(v, if r["resp"]["srep"]["midp"] == "now" { midp } else { midp + 1 })];
        emit_run(&mut out, "recipe", v, keyopt, &run, &served, &exp, json!({"recipe": r["resp"], "dist": r["dist"]}));
        n += 1;
    }
    out.flush().unwrap();
    println!("{}", json!({"rec": "summary", "executions": n, "near": near.len(), "far_sampled": far.len(), "concretisation_disagreements": mism}));
}

// ---------------------------------------------------------------------------- seeded drivers

/// byte regions of the components the property lists, located in an assembled honest response by I's codec
fn regions(v: Proto, d: &[u8]) -> Vec<(String, usize, usize)> {
    // locate a value by searching for its bytes (values are long random-looking strings; unique in practice)
    let payload_off = if v == Proto::Ietf { 12 } else { 0 };
    let top = rc::ref_decode(&d[payload_off..]).unwrap();
    let find = |needle: &[u8]| -> Option<usize> { if needle.is_empty() { return None; } d.windows(needle.len()).position(|w| w == needle) };
    let mut out = vec![];
    let mut add = |name: &str, val: Option<&[u8]>| { if let Some(x) = val { if let Some(p) = find(x) { out.push((name.to_string(), p, x.len())); } } };
    add("SIG", rc::get(&top, rc::SIG));
    add("PATH", rc::get(&top, rc::PATH));
    add("INDX", None);
    let srep = rc::get(&top, rc::SREP).unwrap();
    let sf = rc::ref_decode(srep).unwrap();
    add("SREP.MIDP", rc::get(&sf, rc::MIDP)); add("SREP.RADI", rc::get(&sf, rc::RADI)); add("SREP.ROOT", rc::get(&sf, rc::ROOT)); add("SREP.VER", rc::get(&sf, rc::VER));
    let cert = rc::get(&top, rc::CERT).unwrap();
    let cf = rc::ref_decode(cert).unwrap();
    add("CERT.SIG", rc::get(&cf, rc::SIG));
    let dele = rc::get(&cf, rc::DELE).unwrap();
    let df = rc::ref_decode(dele).unwrap();
    add("DELE.PUBK", rc::get(&df, rc::PUBK)); add("DELE.MINT", None); add("DELE.MAXT", None);
    // INDX is the last 4 bytes; MINT/MAXT are the last 16 bytes of DELE (8 + 8), located through DELE's position
    out.push(("INDX".to_string(), d.len() - 4, 4));
    if let Some(p) = find(dele) { out.push(("DELE.MINT".to_string(), p + dele.len() - 16, 8)); out.push(("DELE.MAXT".to_string(), p + dele.len() - 8, 8)); }
    out
}

pub fn record(out_path: &str, client_bin: &str, seed: u64, tier: &str) {
    if let Ok(mut g) = CLIENT_OUT_DIR.lock() { *g = std::path::Path::new(out_path).parent().map(|p| p.to_string_lossy().to_string()).unwrap_or_default(); }
    let mut rng = Rng::new(seed ^ 0xC03);
    let keys = Keys::new(&mut rng);
    let pinned = interp::pk_of_seed(&keys.ltk);
    REQ_SRV.with(|x| *x.borrow_mut() = interp::srv_of_pk(&pinned));
    let sock = UdpSocket::bind("127.0.0.1:0").expect("bind responder");
    let sock_any = UdpSocket::bind("0.0.0.0:0").expect("bind wildcard responder");
    let mut out = std::io::BufWriter::new(std::fs::File::create(out_path).expect("create trace"));
    let thorough = tier == "thorough";
    let mut runs = 0u64;
    let mut nonces: Vec<Vec<u8>> = vec![];
    let mut store: Vec<(Proto, Vec<u8>, Vec<u8>)> = vec![];   // genuine (request, response) pairs of earlier processes

    // (1) C03: honest reference responder: version x key option x (n, i) x midpoint classes
    let batch_shapes: Vec<(usize, usize)> = if thorough {
        let mut v = vec![]; for n in [1usize, 2, 3, 5, 8, 33, 64] { for i in 0..n { v.push((n, i)); } } v
    } else { vec![(1, 0), (2, 0), (2, 1), (3, 2), (5, 0), (5, 4), (8, 3), (33, 32), (64, 0), (64, 31), (64, 63)] };
    for v in [Proto::Google, Proto::Ietf] {
        let unit: u64 = if v == Proto::Google { 1_000_000 } else { 1 };
        let midpoints: Vec<u64> = vec![0, 1, 999_999, 1_000_000, now_midp(v), ((1u64 << 31) - 1) * unit, (1u64 << 32) * unit + (unit - 1).min(999_999),
                                        7_258_118_400 * unit, 253_402_300_799 * unit + (unit - 1).min(999_999)];
        for keyopt in ["none", "hex", "b64", "HEX", "HeX"] {       // (hexadecimal is hexadecimal in either case)
            for (k, (n, i)) in batch_shapes.iter().enumerate() {
                if (keyopt == "HEX" || keyopt == "HeX") && k >= 3 && !thorough { continue; }
                let mids: Vec<u64> = if thorough || k < 3 { midpoints.clone() } else { vec![midpoints[(k + 4) % midpoints.len()], now_midp(v)] };
                for midp in mids {
                    let mut served = vec![];
                    let mut sub = Rng::new(rng.next_u64());
                    // the delegation window is any window containing the midpoint, including the tight ones
                    let (mint, maxt) = match (k + (midp % 7) as usize) % 4 { 0 => (0, u64::MAX), 1 => (midp, u64::MAX), 2 => (0, midp), _ => (midp, midp) };
                    // output zone and server address vary from run to run: the printed instant must not
                    let env_mode = (runs % 5) as usize;
                    CLIENT_ENV_MODE.store(env_mode, std::sync::atomic::Ordering::Relaxed);
                    let run = run_client(client_bin, v, key_arg(&keys, keyopt), 1, &[], if env_mode == 3 { &sock_any } else { &sock }, &mut |_, rq| {
                        let d = assemble(&honest_parts_win(v, rq, &keys, *i, *n, midp, mint, maxt, &mut sub));
                        let mut f = facts(v, &d, rq, &pinned); f["honest"] = json!(true); served.push(f);
                        Some(d)
                    });
                    CLIENT_ENV_MODE.store(0, std::sync::atomic::Ordering::Relaxed);
                    for rq in &run.requests { if let Some(nn) = proto::request_nonce(rq) { nonces.push(nn); } }
                    if env_mode == 4 { emit_run_text(&mut out, "honest", v, keyopt, &run, &served, &[expected_print(v, midp)], json!({"n": n, "i": i, "midp": midp.to_string(), "env_mode": env_mode})); }
                    else { emit_run(&mut out, "honest", v, keyopt, &run, &served, &[expected_print(v, midp)], json!({"n": n, "i": i, "midp": midp.to_string(), "env_mode": env_mode})); }
                    runs += 1;
                }
            }
        }
    }
    // (1b) C01: a pinned key the client cannot use (wrong length, not hex / base64, empty): no response carries a signature
    //      chain from "that key", so even the honest response must not be reported (exit 0 with a time)
    for v in [Proto::Google, Proto::Ietf] {
        let good = hex(&pinned);
        let bads: Vec<String> = vec![good[..62].to_string(), format!("{}00", good), format!("zz{}", &good[2..]), good[..63].to_string(), String::new(),
                                     b64_padded(&pinned[..31]), b64_padded(&[pinned.to_vec(), vec![7u8]].concat()), "====".to_string()];
        // 32 well-formed bytes that are NOT a curve point (about every second mistyped key): no signature verifies under them
        let mut nonpoints: Vec<String> = vec![];
        let mut cand = pinned;
        while nonpoints.len() < 3 { cand[(nonpoints.len() * 7 + 1) % 31] = cand[(nonpoints.len() * 7 + 1) % 31].wrapping_add(1); if !interp::is_curve_point(&cand) { nonpoints.push(hex(&cand)); nonpoints.push(b64_padded(&cand)); } }
        let n_text_bad = bads.len();
        let all: Vec<String> = bads.into_iter().chain(nonpoints.into_iter()).collect();
        for (bi, bad) in all.into_iter().enumerate() {
          // served: the honest response, and (for the non-point keys) a forgery whose certificate "signature" is the neutral
          // point with S = 0 over the attacker's own delegation - what a verifier that falls back to a default key accepts
          for forged in [false, true] {
            if forged && bi < n_text_bad { continue; }
            let midp = now_midp(v);
            let mut served = vec![];
            let mut sub = Rng::new(rng.next_u64());
            let run = run_client(client_bin, v, Some(bad.clone()), 1, &[], &sock, &mut |_, rq| {
                let mut parts = honest_parts(v, rq, &keys, 0, 1, midp, &mut sub);
                if forged {
                    parts.dele = enc_dele(&interp::pk_of_seed(&keys.olkx), 0, u64::MAX);
                    parts.sig = sign(&keys.olkx, v.srep_ctx(), &parts.srep);
                    let mut neutral = vec![0u8; 64]; neutral[0] = 1;
                    parts.cert_sig = neutral;
                }
                let d = assemble(&parts);
                let mut f = facts(v, &d, rq, &pinned); f["honest"] = json!(false); f["dele_sig_ok"] = json!(false); served.push(f);
                Some(d)
            });
            for rq in &run.requests { if let Some(nn) = proto::request_nonce(rq) { nonces.push(nn); } }
            if !run.requests.is_empty() {
                emit_run(&mut out, "unusable-key", v, "bad", &run, &served, &[], json!({"key_len": bad.len(), "neutral_forgery": forged}));
                runs += 1;
            }
          }
        }
    }
    // (2) C01: byte-region forgeries of an honest response
    for v in [Proto::Google, Proto::Ietf] {
        for keyopt in ["hex", "b64", "none"] {
            if keyopt == "none" && !thorough { continue; }
            let probe = assemble(&honest_parts(v, &proto::build_request(v, &rng.bytes(if v == Proto::Google { 64 } else { 32 }), 1024, &[VER_DRAFT13], None), &keys, 1, 4, now_midp(v), &mut Rng::new(3)));
            for (name, _, len) in regions(v, &probe) {
                let offs: Vec<usize> = if thorough { (0..len).collect() } else { let mut o = vec![0, len / 2, len - 1]; o.dedup(); o };
                for off in offs {
                    let midp = now_midp(v);
                    let mut served = vec![];
                    let mut sub = Rng::new(rng.next_u64());
                    let bit = 1u8 << rng.below(8);
                    let nm = name.clone();
                    let run = run_client(client_bin, v, key_arg(&keys, keyopt), 1, &[], &sock, &mut |_, rq| {
                        let mut d = assemble(&honest_parts(v, rq, &keys, 1, 4, midp, &mut sub));
                        if let Some((_, p, _)) = regions(v, &d).into_iter().find(|(n2, _, _)| *n2 == nm) { d[p + off] ^= bit; }
                        let mut f = facts(v, &d, rq, &pinned); f["honest"] = json!(false); served.push(f);
                        Some(d)
                    });
                    emit_run(&mut out, "byte-forgery", v, keyopt, &run, &served, &[expected_print(v, midp)], json!({"region": name, "offset": off}));
                    runs += 1;
                }
            }
        }
    }
    // (2b) C01: a component of ANOTHER LENGTH that begins (or ends) with the genuine bytes: a 68- or 128-byte SIG whose first
    //      64 bytes are the genuine signature is not a signature; a PATH with four more bytes is not a path
    for v in [Proto::Google, Proto::Ietf] {
        for keyopt in ["hex", "none"] {
            for (what, delta) in [("sig", 4i64), ("sig", 64), ("sig", -4), ("cert_sig", 4), ("cert_sig", -4), ("cert_sig", 64), ("path", 4), ("path", -4)] {
                let midp = now_midp(v);
                let mut served = vec![];
                let mut sub = Rng::new(rng.next_u64());
                let run = run_client(client_bin, v, key_arg(&keys, keyopt), 1, &[], &sock, &mut |_, rq| {
                    let mut p = honest_parts(v, rq, &keys, 1, 4, midp, &mut sub);
                    let field: &mut Vec<u8> = match what { "sig" => &mut p.sig, "cert_sig" => &mut p.cert_sig, _ => &mut p.path };
                    if delta > 0 { field.extend(std::iter::repeat(0u8).take(delta as usize)); } else { let n = field.len().saturating_sub((-delta) as usize); field.truncate(n); }
                    let d = assemble(&p);
                    let mut f = facts(v, &d, rq, &pinned); f["honest"] = json!(false); served.push(f);
                    Some(d)
                });
                emit_run(&mut out, "length-forgery", v, keyopt, &run, &served, &[expected_print(v, midp)], json!({"component": what, "delta": delta}));
                runs += 1;
            }
        }
    }
    // (2c) C01: a top-level field given TWICE - a forged copy (another midpoint, another signature, another index) right in
    //      front of or behind the genuine one. Such a message does not decode (tags must strictly increase); a client that
    //      read one copy for the checks and the other for the time would print the forger's time as verified.
    for v in [Proto::Google, Proto::Ietf] {
        for keyopt in ["hex", "none"] {
            for (which, forged_first) in [(rc::SREP, true), (rc::SREP, false), (rc::SIG, true), (rc::CERT, false), (rc::INDX, true), (rc::PATH, false)] {
                let midp = now_midp(v);
                let mut served = vec![];
                let mut sub = Rng::new(rng.next_u64());
                let run = run_client(client_bin, v, key_arg(&keys, keyopt), 1, &[], &sock, &mut |_, rq| {
                    let honest = assemble(&honest_parts(v, rq, &keys, 1, 4, midp, &mut sub));
                    let body: &[u8] = if v == Proto::Ietf { &honest[12..] } else { &honest[..] };
                    let mut d = honest.clone();
                    if let Some(fields) = rc::ref_decode(body) {
                        let mut out: Vec<(u64, Vec<u8>)> = vec![];
                        for (t, val) in fields {
                            if t == which {
                                let mut fake = val.clone();
                                if which == rc::SREP { fake = enc_srep(v, midp / 2, &sub.bytes(v.width())); } else if !fake.is_empty() { let k = fake.len() / 2; fake[k] ^= 0x40; }
                                if forged_first { out.push((t, fake)); out.push((t, val)); } else { out.push((t, val)); out.push((t, fake)); }
                            } else { out.push((t, val)); }
                        }
                        let enc = rc::ref_encode(&out);
                        d = if v == Proto::Ietf { rc::ref_frame(&enc) } else { enc };
                    }
                    let mut f = facts(v, &d, rq, &pinned); f["honest"] = json!(false); served.push(f);
                    Some(d)
                });
                emit_run(&mut out, "dup-field-forgery", v, keyopt, &run, &served, &[expected_print(v, midp)], json!({"field": which, "forged_first": forged_first}));
                runs += 1;
            }
        }
    }
    // (2d) C01: LONG multi-request runs (-n 70 / -n 135: more requests than a block of pre-drawn nonces of 4 096 bytes holds):
    //      every request carries its own nonce (the nonce event at the end counts duplicates among all observed)
    for (v, nreq) in [(Proto::Google, 70usize), (Proto::Ietf, 135)] {
        let midp = now_midp(v);
        let mut served = vec![];
        let mut sub = Rng::new(rng.next_u64());
        let run = run_client(client_bin, v, key_arg(&keys, "hex"), nreq, &[], &sock, &mut |j, rq| {
            let d = assemble(&honest_parts(v, rq, &keys, j % 3, 3, midp, &mut sub));
            let mut f = facts(v, &d, rq, &pinned); f["honest"] = json!(true); served.push(f);
            Some(d)
        });
        for rq in &run.requests { if let Some(nn) = proto::request_nonce(rq) { nonces.push(nn); } }
        let exp: Vec<(u64, u32)> = (0..nreq).map(|_| expected_print(v, midp)).collect();
        emit_run(&mut out, "long-run", v, "hex", &run, &served, &exp, json!({"nreq": nreq}));
        runs += 1;
    }
    // (3) C01: replays within one multi-request run, replays across runs, truncations, random mutations, full re-signing
    let n_misc = if thorough { 400 } else { 160 };
    for k in 0..n_misc {
        let v = if k % 2 == 0 { Proto::Google } else { Proto::Ietf };
        let keyopt = ["hex", "b64", "none"][(k / 2) % 3];
        let midp = now_midp(v);
        let mode = k % 9;
        let nreq = if mode == 0 || mode == 1 { 3 } else if mode == 8 { 2 } else { 1 };
        let mut served = vec![];
        let mut sub = Rng::new(rng.next_u64());
        let mut first: Option<(Vec<u8>, Vec<u8>)> = None;
        let mut expect = vec![];
        let st = store.clone();
        let run = run_client(client_bin, v, key_arg(&keys, keyopt), nreq, &[], &sock, &mut |j, rq| {
            let honest = assemble(&honest_parts(v, rq, &keys, j % 3, 3, midp, &mut sub));
            let d = match mode {
                0 => { // multi-request run, all honest
                    honest.clone() }
                1 => { // request 2 gets the genuine response of request 1 (replay within the run)
                    if j == 1 { first.as_ref().map(|f| f.1.clone()).unwrap_or(honest.clone()) } else { honest.clone() } }
                2 => { // replay of a genuine response of an EARLIER process
                    st.iter().rev().find(|(p, _, _)| *p == v).map(|(_, _, resp)| resp.clone()).unwrap_or(honest.clone()) }
                3 => { let cut = sub.below(honest.len() as u64) as usize; honest[..cut].to_vec() }                       // truncation
                4 => { let mut m = honest.clone(); let nflip = sub.range(1, 4); for _ in 0..nflip { let p = sub.below(m.len() as u64) as usize; m[p] ^= 1 << sub.below(8); } m }
                5 => { // fully re-signed by a different long-term key (everything self-consistent under LTKx / OLKx)
                    let k2 = Keys { ltk: keys.ltkx, ltkx: keys.ltk, olk: keys.olkx, olkx: keys.olk };
                    assemble(&honest_parts(v, rq, &k2, 0, 2, midp, &mut sub)) }
                6 => { // the other protocol's honest response to the same nonce (cross-protocol splice)
                    let o = if v == Proto::Google { Proto::Ietf } else { Proto::Google };
                    let nn = proto::request_nonce(rq).unwrap_or_default();
                    let fake_req = proto::build_request(o, &nn, 1024, &[VER_DRAFT13], None);
                    assemble(&honest_parts(o, &fake_req, &keys, 0, 1, now_midp(o), &mut sub)) }
                8 => { // certificate substitution in a multi-request run: the first response is genuine; the second pairs the
                       // genuine CERT.SIG with a delegation to the adversary's key and a response signed by that key
                    if j == 0 { honest.clone() } else {
                        let mut p = honest_parts(v, rq, &keys, 0, 2, midp, &mut sub);
                        p.dele = enc_dele(&interp::pk_of_seed(&keys.olkx), 0, u64::MAX);
                        p.sig = sign(&keys.olkx, v.srep_ctx(), &p.srep);
                        assemble(&p)
                    } }
                _ => { let mut m = honest.clone(); let nx = 4 * sub.range(1, 4) as usize; let extra = sub.bytes(nx); m.extend(extra); m }  // extension
            };
            if j == 0 { first = Some((rq.to_vec(), honest.clone())); }
            let mut f = facts(v, &d, rq, &pinned); f["honest"] = json!(d == honest); served.push(f);
            expect.push(expected_print(v, midp));
            Some(d)
        });
        for rq in &run.requests { if let Some(nn) = proto::request_nonce(rq) { nonces.push(nn); } }
        if let (Some((rq, resp)), true) = (first, mode == 0) { store.push((v, rq, resp)); if store.len() > 40 { store.remove(0); } }
        let exp = expect.clone();
        emit_run(&mut out, ["multi-honest", "replay-in-run", "replay-across-runs", "truncation", "mutation", "resigned", "splice", "extension", "cert-substitution"][mode], v, keyopt, &run, &served, &exp, json!({}));
        runs += 1;
    }
    // (4) freshness: every nonce the client ever sent in this session
    let total = nonces.len();
    let mut sorted = nonces.clone(); sorted.sort(); sorted.dedup();
    let lens_ok = nonces.iter().all(|n| n.len() == 64 || n.len() == 32);
    writeln!(out, "{}", json!({"ev": "nonces", "count": total, "distinct": sorted.len(), "lens_ok": lens_ok})).unwrap();
    out.flush().unwrap();
    println!("{}", json!({"rec": "summary", "executions": runs, "nonces": total}));
}

// ---------------------------------------------------------------------------- against the REAL server (C03)

/// The real client talks to the real server binary through a recording UDP relay in the harness, so that
/// every datagram of the exchange is seen by the interpretation. Multi-request runs land the client's
/// requests at many positions of the server's batches.
pub fn record_real(out_path: &str, client_bin: &str, server_bin: &str, workdir: &str, seed: u64, tier: &str) {
    use crate::s_proc;
    let mut rng = Rng::new(seed ^ 0xC03C03);
    let mut out = std::io::BufWriter::new(std::fs::File::create(out_path).expect("create trace"));
    let thorough = tier == "thorough";
    let mut runs = 0u64;
    let mut indices: std::collections::BTreeSet<u64> = Default::default();
    // (workers, batch_size): with a small batch size a multi-request run spans several batches of one wake-up
    for (k, (workers, batch)) in [(2u64, 64u64), (1, 64), (1, 8)].iter().enumerate() {
        let sc = json!({"id": format!("c03-real-{}", k), "num_workers": workers, "batch_size": batch});
        let mut sp = match s_proc::start_server(server_bin, &sc, workdir) { Ok(s) => s, Err(e) => { eprintln!("{}", e); std::process::exit(2); } };
        let (ready, _, _) = sp.wait_started(6000);
        if ready as u64 != *workers { eprintln!("real server did not start ({} of {} workers)", ready, workers); sp.kill_and_reap(); std::process::exit(2); }
        let seed32: [u8; 32] = sp.seed.clone().try_into().unwrap();
        let pinned = interp::pk_of_seed(&seed32);
        REQ_SRV.with(|x| *x.borrow_mut() = interp::srv_of_pk(&pinned));
        let relay = UdpSocket::bind("127.0.0.1:0").expect("bind relay");
        let nreqs: Vec<usize> = if *batch == 8 { vec![12, 33] } else if thorough { vec![1, 2, 3, 8, 33, 64, 64] } else { vec![1, 8, 64] };
        for v in [Proto::Google, Proto::Ietf] {
            for keyopt in ["none", "hex", "b64"] {
                for nreq in &nreqs {
                    let key = match keyopt { "hex" => Some(hex(&pinned)), "b64" => Some(b64_padded(&pinned)), _ => None };
                    let mut served = vec![];
                    let mut expect = vec![];
                    let port = sp.port;
                    // the relay forwards all requests first (so that the server batches them), then returns the replies
                    let pending: std::cell::RefCell<Vec<(UdpSocket, Vec<u8>)>> = std::cell::RefCell::new(vec![]);
                    let run = run_client_relay(client_bin, v, key, *nreq, &relay, &mut |rq: &[u8]| {
                        let up = UdpSocket::bind("127.0.0.1:0").unwrap();
                        up.set_read_timeout(Some(Duration::from_millis(1500))).unwrap();
                        let _ = up.send_to(rq, ("127.0.0.1", port));
                        pending.borrow_mut().push((up, rq.to_vec()));
                    }, &mut |j: usize| -> Option<Vec<u8>> {
                        let pend = pending.borrow();
                        let (up, rq) = &pend[j];
                        let mut buf = vec![0u8; 4096];
                        match up.recv_from(&mut buf) {
                            Ok((n, _)) => {
                                let d = buf[..n].to_vec();
                                let mut f = facts(v, &d, rq, &pinned);
                                let ok = f["parse_ok"] == true && f["dele_sig_ok"] == true && f["srep_sig_ok"] == true && f["window_ok"] == true && f["proof_ok"] == true;
                                f["honest"] = json!(ok);
                                let midp: u64 = f["midp"].as_str().and_then(|s| s.parse().ok()).unwrap_or(0);
                                expect.push(expected_print(v, midp));
                                if let Some(t) = rc::ref_decode(if v == Proto::Ietf && d.len() > 12 { &d[12..] } else { &d }) { if let Some(ix) = rc::get(&t, rc::INDX) { if ix.len() == 4 { indices.insert(crate::util::rd32(ix) as u64); } } }
                                served.push(f);
                                Some(d)
                            }
                            Err(_) => { served.push(json!({"parse_ok": false, "dele_sig_ok": false, "srep_sig_ok": false, "window_ok": false, "proof_ok": false, "honest": false, "no_reply_from_server": true})); None }
                        }
                    });
                    emit_run(&mut out, "real-server", v, keyopt, &run, &served, &expect, json!({"nreq": nreq, "workers": workers}));
                    runs += 1;
                    let _ = rng.next_u64();
                }
            }
        }
        sp.signal("TERM");
        let _ = sp.wait_exit(3000);
        sp.kill_and_reap();
        let _ = std::fs::remove_dir_all(&sp.dir);
    }
    out.flush().unwrap();
    println!("{}", json!({"rec": "summary", "executions": runs, "merkle_indices_seen": indices.len(), "max_index": indices.iter().max()}));
}

/// like run_client, but all requests are handed to `forward` first and the replies fetched afterwards
fn run_client_relay(client_bin: &str, v: Proto, key: Option<String>, nreq: usize, sock: &UdpSocket,
                    forward: &mut dyn FnMut(&[u8]), fetch: &mut dyn FnMut(usize) -> Option<Vec<u8>>) -> ClientRun {
    let port = sock.local_addr().unwrap().port();
    let mut cmd = Command::new(client_bin);
    cmd.arg("127.0.0.1").arg(port.to_string()).arg("-p").arg(if v == Proto::Google { "0" } else { "13" })
        .arg("-n").arg(nreq.to_string()).arg("-t").arg("3").arg("-z").arg("-j").arg("-f").arg("%s.%f");
    if let Some(k) = &key { cmd.arg("-k").arg(k); }
    cmd.env("RUST_BACKTRACE", "0").stdin(Stdio::null()).stdout(Stdio::piped()).stderr(Stdio::piped());
    let mut child = cmd.spawn().expect("spawn client");
    sock.set_read_timeout(Some(Duration::from_millis(50))).unwrap();
    let mut requests = Vec::new();
    let mut peers = Vec::new();
    let mut buf = vec![0u8; 4096];
    let t_wait = std::time::Instant::now();
    let mut exited_seen = false;
    while requests.len() < nreq && t_wait.elapsed() < Duration::from_millis(3000) {
        match sock.recv_from(&mut buf) {
            Ok((n, from)) => { requests.push(buf[..n].to_vec()); peers.push(from); forward(&buf[..n]); }
            Err(_) => { if exited_seen { break; } if matches!(child.try_wait(), Ok(Some(_))) { exited_seen = true; } }
        }
    }
    for (k, from) in peers.iter().enumerate() { if let Some(d) = fetch(k) { let _ = sock.send_to(&d, from); } }
    // a large run prints much: drain the pipes while waiting
    let mut stdout = String::new();
    let mut stderr = String::new();
    // both pipes are drained at the same time: a client that fills one while the harness waits for the end of the other
    // would block for ever (the text dump of a long run is larger than a pipe buffer)
    let err_pipe = child.stderr.take();
    let err_thread = std::thread::spawn(move || { let mut t = String::new(); if let Some(mut e) = err_pipe { let _ = e.read_to_string(&mut t); } t });
    if let Some(mut o) = child.stdout.take() { let _ = o.read_to_string(&mut stdout); }
    stderr.push_str(&err_thread.join().unwrap_or_default());
    let status = child.wait().expect("wait client");
    ClientRun { exit: status.code().unwrap_or(-1), stdout, stderr, requests, out_mode: 0, files_ok: None }
}
