pub mod interp;
pub mod util;
pub mod s_merkle;
pub mod refcodec;
pub mod s_wire;
pub mod s_signer;
pub mod s_envelope;
pub mod s_config;
