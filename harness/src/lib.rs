pub mod interp;
pub mod util;
pub mod s_merkle;
