//! C14: EnvelopeEncryption::{encrypt_seed, decrypt_seed} with harness KmsProviders, against Envelope.tla.
use crate::interp;
use crate::util::{guarded, Rng};
use roughenough::kms::{EnvelopeEncryption, KmsError, KmsProvider};
use serde_json::{json, Value};
use std::cell::RefCell;
use std::io::{BufRead, Write};

/// Harness provider. Authenticated mode: the wrapped key is an opaque W-byte handle (derived
/// by hashing the DEK with a provider secret); unwrap looks the handle up and refuses unknown
/// handles. Plain mode (W = 32): wrapped = DEK xor mask, no integrity.
pub struct Provider {
    w: usize,
    auth: bool,
    fault: RefCell<String>,
    table: RefCell<Vec<(Vec<u8>, Vec<u8>)>>,
    pub seen_dek: RefCell<Vec<Vec<u8>>>,
}

impl Provider {
    pub fn new(w: usize, auth: bool, fault: &str) -> Provider {
        Provider { w, auth, fault: RefCell::new(fault.to_string()), table: RefCell::new(vec![]), seen_dek: RefCell::new(vec![]) }
    }
    fn mask(&self) -> Vec<u8> { interp::sha512(&[b"xor-mask"])[..32].to_vec() }
}

impl KmsProvider for Provider {
    fn encrypt_dek(&self, dek: &Vec<u8>) -> Result<Vec<u8>, KmsError> {
        self.seen_dek.borrow_mut().push(dek.clone());
        if *self.fault.borrow() == "enc_err" { return Err(KmsError::OperationFailed("injected".into())); }
        if self.auth {
            let mut h = Vec::new();
            let mut ctr = 0u32;
            while h.len() < self.w { h.extend(interp::sha512(&[b"handle-secret", dek, &ctr.to_le_bytes()])); ctr += 1; }
            h.truncate(self.w);
            self.table.borrow_mut().push((h.clone(), dek.clone()));
            Ok(h)
        } else {
            Ok(dek.iter().zip(self.mask()).map(|(a, b)| a ^ b).collect())
        }
    }
    fn decrypt_dek(&self, wrapped: &Vec<u8>) -> Result<Vec<u8>, KmsError> {
        match self.fault.borrow().as_str() {
            "err" => return Err(KmsError::OperationFailed("injected".into())),
            "wrongkey" => return Ok(interp::sha512(&[b"another-key"])[..32].to_vec()),
            "wronglen" => { let n = [0usize, 16, 31, 33, 64, 1][wrapped.len() % 6]; return Ok(vec![7u8; n]); }   // an unrelated key of another length
            _ => {}
        }
        let right: Result<Vec<u8>, KmsError> = if self.auth {
            match self.table.borrow().iter().find(|(h, _)| h == wrapped) { Some((_, d)) => Ok(d.clone()), None => Err(KmsError::InvalidKey("unknown handle".into())) }
        } else if wrapped.len() != 32 { Err(KmsError::InvalidKey("bad length".into())) }
        else { Ok(wrapped.iter().zip(self.mask()).map(|(a, b)| a ^ b).collect()) };
        // a key of the wrong length that agrees with the right key as far as it goes
        match (self.fault.borrow().as_str(), right) {
            ("longkey", Ok(mut d)) => { let extra = 1 + (d[0] as usize % 32); d.extend(std::iter::repeat(0xa5u8).take(extra)); Ok(d) }
            ("shortkey", Ok(d)) => Ok(d[..16 + (d[1] as usize % 16)].to_vec()),
            (_, r) => r,
        }
    }
}

fn contains(hay: &[u8], needle: &[u8]) -> bool {
    !needle.is_empty() && hay.len() >= needle.len() && hay.windows(needle.len()).any(|w| w == needle)
}

/// apply one tamper op of the specification to real bytes; `bit` chosen by caller for non-header bytes
fn apply_op(blob: &mut Vec<u8>, op: &Value, rng: &mut Rng) {
    match op["k"].as_str().unwrap_or("") {
        "flip" => {
            let pos = op["pos"].as_u64().unwrap() as usize - 1;
            if pos < blob.len() {
                let bit = if pos < 4 { op["bit"].as_u64().unwrap() } else { op.get("rbit").and_then(|b| b.as_u64()).unwrap_or_else(|| rng.below(8)) };
                blob[pos] ^= 1 << bit;
            }
        }
        "set" => {
            let pos = op["pos"].as_u64().unwrap() as usize - 1;
            if pos < blob.len() {
                if pos < 4 { blob[pos] = op["val"].as_u64().unwrap() as u8; } else { let old = blob[pos]; let mut v = rng.below(256) as u8; if v == old { v = v.wrapping_add(1); } blob[pos] = v; }
            }
        }
        "trunc" => { let n = op["len"].as_u64().unwrap() as usize; blob.truncate(n); }
        "ext" => { let n = op["n"].as_u64().unwrap() as usize; let extra = rng.bytes(n); blob.extend(extra); }
        "splice" => {   // n foreign bytes inserted behind the first `pos` bytes
            let pos = (op["pos"].as_u64().unwrap() as usize).min(blob.len());
            let extra = rng.bytes(op["n"].as_u64().unwrap() as usize);
            blob.splice(pos..pos, extra);
        }
        _ => {}
    }
}

struct Round { result: String, bloblen: usize, leak_seed: bool, leak_dek: bool, detail: String }

fn round(w: usize, p: usize, auth: bool, fault: &str, ops: &[Value], rng: &mut Rng) -> Round {
    let seed = rng.bytes(p);
    let prov = Provider::new(w, auth, fault);
    let enc = guarded(|| EnvelopeEncryption::encrypt_seed(&prov, &seed));
    let mut blob = match enc {
        Err(pn) => return Round { result: "panic".into(), bloblen: 0, leak_seed: false, leak_dek: false, detail: pn },
        Ok(Err(_)) => return Round { result: "err".into(), bloblen: 0, leak_seed: false, leak_dek: false, detail: "encrypt_seed returned Err".into() },
        Ok(Ok(b)) => b,
    };
    let bloblen = blob.len();
    let leak_seed = contains(&blob, &seed);
    let leak_dek = prov.seen_dek.borrow().iter().any(|d| contains(&blob, d));
    for op in ops { apply_op(&mut blob, op, rng); }
    let dec = guarded(|| EnvelopeEncryption::decrypt_seed(&prov, &blob));
    let (result, detail) = match dec {
        Err(pn) => ("panic".to_string(), pn),
        Ok(Err(e)) => ("err".to_string(), format!("{:?}", e)),
        Ok(Ok(pt)) => (if pt == seed { "seed".to_string() } else { "other".to_string() }, String::new()),
    };
    Round { result, bloblen, leak_seed, leak_dek, detail }
}

/// several decrypt calls on ONE blob in one process while the provider's behaviour changes between the calls
/// (a decision remembered from an earlier call must not leak into a later one)
fn sequence_round(w: usize, p: usize, auth: bool, faults: &[&str], rng: &mut Rng, out: &mut dyn Write) -> u64 {
    let seed = rng.bytes(p);
    let prov = Provider::new(w, auth, "none");
    let blob = match guarded(|| EnvelopeEncryption::encrypt_seed(&prov, &seed)) { Ok(Ok(b)) => b, _ => return 0 };
    let mut n = 0;
    for f in faults {
        *prov.fault.borrow_mut() = f.to_string();
        let dec = guarded(|| EnvelopeEncryption::decrypt_seed(&prov, &blob));
        let result = match dec { Err(_) => "panic", Ok(Err(_)) => "err", Ok(Ok(pt)) => if pt == seed { "seed" } else { "other" } };
        writeln!(out, "{}", json!({"ev": "round", "W": w, "P": p, "auth": auth, "fault": f, "ops": [], "result": result, "bloblen": blob.len(),
            "leak_seed": contains(&blob, &seed), "leak_dek": prov.seen_dek.borrow().iter().any(|d| contains(&blob, d)), "sequence": faults})).unwrap();
        n += 1;
    }
    n
}

pub fn replay(path: &str, tier: &str) {
    let f = std::fs::File::open(path).expect("open cases");
    let stdout = std::io::stdout();
    let mut out = stdout.lock();
    let mut rng = Rng::new(0xE14);
    let mut execs = 0u64;
    let mut mism = 0u64;
    let all_bits = tier == "thorough";
    for line in std::io::BufReader::new(f).lines() {
        let line = line.unwrap();
        let c: Value = match serde_json::from_str(&line) { Ok(v) => v, Err(_) => continue };
        let w = c["W"].as_u64().unwrap() as usize;
        let p = c["P"].as_u64().unwrap() as usize;
        let auth = c["auth"].as_bool().unwrap();
        let fault = c["fault"].as_str().unwrap().to_string();
        let ops: Vec<Value> = c["ops"].as_array().cloned().unwrap_or_default();
        let exp = c["exp"].as_str().unwrap();
        // a non-header "flip" stands for any change of that byte: expand to 1 random bit (quick) / all 8 (thorough)
        let expand = ops.len() == 1 && ops[0]["k"] == "flip" && ops[0]["pos"].as_u64().unwrap() > 4;
        let variants: Vec<Vec<Value>> = if expand {
            let bits: Vec<u64> = if all_bits { (0..8).collect() } else { vec![rng.below(8)] };
            bits.iter().map(|b| { let mut o = ops[0].clone(); o["rbit"] = json!(b); vec![o] }).collect()
        } else { vec![ops.clone()] };
        for v in variants {
            execs += 1;
            let r = round(w, p, auth, &fault, &v, &mut rng);
            let mut problems: Vec<String> = vec![];
            if r.result != exp { problems.push(format!("decrypt_seed gave '{}' where the specification requires '{}' ({})", r.result, exp, r.detail)); }
            if fault != "enc_err" && r.result != "panic" && r.bloblen != 0 && r.bloblen != 4 + w + 12 + p + 16 { problems.push(format!("blob length {} is not header+wrapped+nonce+ct+tag", r.bloblen)); }
            if r.leak_seed { problems.push("blob contains the plaintext seed".into()); }
            if r.leak_dek { problems.push("blob contains the unwrapped data key".into()); }
            for what in problems {
                mism += 1;
                if mism <= 200 {
                    let kind = if what.contains("'seed'") && r.result == "err" && v.is_empty() && fault == "none" { "round_trip_fails" }
                        else if r.result == "panic" { "panic" } else if r.result == "seed" || r.result == "other" { "tamper_undetected" }
                        else if what.contains("contains") { "leak" } else { "other" };
                    writeln!(out, "{}", json!({"rec": "mismatch", "kind": kind, "what": what, "case": c, "ops_applied": v})).unwrap();
                }
            }
        }
    }
    writeln!(out, "{}", json!({"rec": "summary", "executions": execs, "mismatches": mism})).unwrap();
}

pub fn record(seed: u64, tier: &str, out_path: &str) {
    let mut rng = Rng::new(seed ^ 0xC14);
    let mut out = std::io::BufWriter::new(std::fs::File::create(out_path).expect("create trace"));
    let n = if tier == "thorough" { 12_000 } else { 2_500 };
    let mut events = 0u64;
    for k in 0..n {
        if k % 12 == 5 {
            let auth = rng.chance(1, 2);
            let w = if auth { *rng.pick(&[16usize, 32, 48, 200]) } else { 32 };
            let seqs: [&[&str]; 7] = [&["none", "err", "none"], &["none", "wrongkey", "none"], &["wrongkey", "none"], &["none", "wronglen"], &["err", "none", "none"], &["none", "longkey", "none"], &["shortkey", "none"]];
            let pick = seqs[(k / 12) % seqs.len()];
            let p = rng.range(32, 64) as usize;
            events += sequence_round(w, p, auth, pick, &mut rng, &mut out);
            continue;
        }
        if k % 12 == 7 {
            // COORDINATED edits: a length word of the header raised by n and n foreign bytes spliced in right behind that
            // field, so that everything after it still lines up (the nonce is 12 bytes, the wrapped key is what the provider
            // returned: a blob that says otherwise is not the blob that was written)
            let auth = rng.chance(2, 3);
            let w = if auth { *rng.pick(&[16usize, 32, 48]) } else { 32 };
            let p = rng.range(32, 64) as usize;
            let n = *rng.pick(&[4u64, 1, 16, 4]);
            let ops: Vec<Value> = if (k / 12) % 2 == 0 {
                vec![json!({"k": "set", "pos": 3, "val": 12 + n}), json!({"k": "splice", "pos": 4 + w + 12, "n": n})]      // nonce field grows
            } else {
                vec![json!({"k": "set", "pos": 1, "val": w as u64 + n}), json!({"k": "splice", "pos": 4 + w, "n": n})]    // wrapped-key field grows
            };
            let r = round(w, p, auth, "none", &ops, &mut rng);
            writeln!(out, "{}", json!({"ev": "round", "W": w, "P": p, "auth": auth, "fault": "none", "ops": ops,
                "result": r.result, "bloblen": r.bloblen, "leak_seed": r.leak_seed, "leak_dek": r.leak_dek})).unwrap();
            events += 1;
            continue;
        }
        let auth = rng.chance(2, 3);
        let w = if !auth { 32 } else { match rng.below(6) { 0 => 16, 1 => 1024, 2 => 32, 3 => 255 + rng.below(3) as usize, _ => rng.range(16, 1024) as usize } };
        let p = rng.range(32, 64) as usize;
        let total = 4 + w + 12 + p + 16;
        let fault = if k % 25 == 0 { *rng.pick(&["enc_err", "err", "wrongkey", "wronglen", "longkey", "shortkey"]) } else { "none" };
        let mut ops: Vec<Value> = vec![];
        if fault == "none" && k % 10 != 0 {
            let nops = if rng.chance(1, 5) { 2 } else { 1 };
            let mut len_now = total;
            for _ in 0..nops {
                let op = match rng.below(10) {
                    0..=1 => { let pos = rng.range(1, 4); json!({"k": "flip", "pos": pos, "bit": rng.below(8)}) }
                    2 => { let pos = rng.range(1, 4); json!({"k": "set", "pos": pos, "val": rng.below(256)}) }
                    3..=6 => { let pos = rng.range(5, len_now.max(5) as u64); json!({"k": "flip", "pos": pos, "bit": 0, "rbit": rng.below(8)}) }
                    7..=8 => { let l = rng.below(len_now.max(1) as u64); len_now = l as usize; json!({"k": "trunc", "len": l}) }
                    // (extension lengths include those a narrowed length computation wraps on: 2^8, 2^16, 2^17 and neighbours)
                    _ => json!({"k": "ext", "n": *rng.pick(&[1u64, 16, 1, 16, 255, 256, 257, 65_535, 65_536, 65_537, 131_072])}),
                };
                let pos_ok = op["k"] != "flip" && op["k"] != "set" || (op["pos"].as_u64().unwrap() as usize) <= len_now;
                // a second change of the same byte could restore it; keep positions distinct
                let dup = ops.iter().any(|o: &Value| o.get("pos").is_some() && o.get("pos") == op.get("pos"));
                if pos_ok && !dup && len_now >= 4 { ops.push(op); }
            }
        }
        let r = round(w, p, auth, fault, &ops, &mut rng);
        // after an earlier truncation, header positions may be gone: the specification's Tampered() is only
        // defined on existing positions, which the generator guarantees
        writeln!(out, "{}", json!({"ev": "round", "W": w, "P": p, "auth": auth, "fault": fault, "ops": ops,
            "result": r.result, "bloblen": r.bloblen, "leak_seed": r.leak_seed, "leak_dek": r.leak_dek})).unwrap();
        events += 1;
    }
    out.flush().unwrap();
    println!("{}", json!({"rec": "summary", "events": events}));
}
