//! The interpretation `I`: the only place where symbolic terms of the TLA+ specification
//! meet bytes. Written from the Google Roughtime protocol document and
//! draft-ietf-ntp-roughtime-13, NOT from roughenough: it uses `sha2` and `ed25519-dalek`
//! directly and never calls roughenough::{merkle, message, sign, version, key}.
use ed25519_dalek::{Signer, SigningKey, Verifier, VerifyingKey, Signature};
use sha2::{Digest, Sha512};

#[derive(Clone, Copy, Debug, PartialEq, Eq)]
pub enum Proto {
    Google,
    Ietf,
}

impl Proto {
    /// hash width in bytes AT EVERY NODE (classic: SHA-512; IETF: first 32 bytes of SHA-512)
    pub fn width(self) -> usize {
        match self {
            Proto::Google => 64,
            Proto::Ietf => 32,
        }
    }
    pub fn tag(self) -> &'static str {
        match self {
            Proto::Google => "G",
            Proto::Ietf => "I",
        }
    }
    pub fn dele_ctx(self) -> &'static [u8] {
        match self {
            Proto::Google => b"RoughTime v1 delegation signature--\x00",
            Proto::Ietf => b"RoughTime v1 delegation signature\x00",
        }
    }
    pub fn srep_ctx(self) -> &'static [u8] {
        b"RoughTime v1 response signature\x00"
    }
}

/// Hash profile of a Merkle tree: width of every leaf/interior node and width of the root.
/// The protocols define (64,64) for classic and (32,32) for IETF draft-13.
#[derive(Clone, Copy, Debug, PartialEq, Eq)]
pub struct Prof {
    pub node_w: usize,
    pub root_w: usize,
}

impl Proto {
    pub fn prof(self) -> Prof {
        Prof { node_w: self.width(), root_w: self.width() }
    }
}

pub fn sha512(parts: &[&[u8]]) -> Vec<u8> {
    let mut h = Sha512::new();
    for p in parts {
        h.update(p);
    }
    h.finalize().to_vec()
}

pub fn hash_leaf(p: Prof, data: &[u8]) -> Vec<u8> {
    let mut h = sha512(&[&[0u8], data]);
    h.truncate(p.node_w);
    h
}

pub fn hash_node(p: Prof, a: &[u8], b: &[u8]) -> Vec<u8> {
    let mut h = sha512(&[&[1u8], a, b]);
    h.truncate(p.node_w);
    h
}

pub fn zero_node(p: Prof) -> Vec<u8> {
    vec![0u8; p.node_w]
}

pub fn as_root(p: Prof, top: &[u8]) -> Vec<u8> {
    top[..p.root_w.min(top.len())].to_vec()
}

/// Evaluate a hash term (`Z`, `L<d>`, `N(a,b)`, `X` = junk) on bytes.
/// `data` resolves a leaf data id to its bytes.
pub fn eval_hash(term: &str, p: Prof, data: &dyn Fn(u64) -> Vec<u8>) -> Vec<u8> {
    let b = term.as_bytes();
    let (v, used) = eval_at(b, 0, p, data);
    assert_eq!(used, b.len(), "trailing characters in term {}", term);
    v
}

fn eval_at(b: &[u8], i: usize, p: Prof, data: &dyn Fn(u64) -> Vec<u8>) -> (Vec<u8>, usize) {
    match b[i] {
        b'Z' => (zero_node(p), i + 1),
        b'X' => {
            // junk node: a value no honest computation produces
            let mut h = sha512(&[b"junk-node"]);
            h.truncate(p.node_w);
            (h, i + 1)
        }
        b'L' => {
            let mut j = i + 1;
            let mut n = 0u64;
            while j < b.len() && b[j].is_ascii_digit() {
                n = n * 10 + (b[j] - b'0') as u64;
                j += 1;
            }
            (hash_leaf(p, &data(n)), j)
        }
        b'N' => {
            assert_eq!(b[i + 1], b'(');
            let (l, j) = eval_at(b, i + 2, p, data);
            assert_eq!(b[j], b',');
            let (r, k) = eval_at(b, j + 1, p, data);
            assert_eq!(b[k], b')');
            (hash_node(p, &l, &r), k + 1)
        }
        c => panic!("bad term char {}", c as char),
    }
}

// ---- the Merkle tree DEFINITION on bytes (mirror of Crypto.tla Val/RefRoot/RefPath)

pub struct RefTree {
    pub proto: Prof,
    /// levels[l][p]; only real nodes (no padding) are stored
    pub levels: Vec<Vec<Vec<u8>>>,
}

impl RefTree {
    pub fn build(proto: Prof, leaves: &[Vec<u8>]) -> RefTree {
        assert!(!leaves.is_empty());
        let mut levels = vec![leaves.iter().map(|d| hash_leaf(proto, d)).collect::<Vec<_>>()];
        while levels.last().unwrap().len() > 1 {
            let cur = levels.last().unwrap();
            let mut next = Vec::with_capacity((cur.len() + 1) / 2);
            let mut i = 0;
            while i < cur.len() {
                let right = if i + 1 < cur.len() { cur[i + 1].clone() } else { zero_node(proto) };
                next.push(hash_node(proto, &cur[i], &right));
                i += 2;
            }
            levels.push(next);
        }
        RefTree { proto, levels }
    }
    pub fn depth(&self) -> usize {
        self.levels.len() - 1
    }
    pub fn root(&self) -> Vec<u8> {
        as_root(self.proto, &self.levels.last().unwrap()[0])
    }
    /// path elements for position i, bottom-up
    pub fn path(&self, i: usize) -> Vec<Vec<u8>> {
        let mut out = Vec::new();
        let mut idx = i;
        for l in 0..self.depth() {
            let s = idx ^ 1;
            out.push(if s < self.levels[l].len() { self.levels[l][s].clone() } else { zero_node(self.proto) });
            idx >>= 1;
        }
        out
    }
    /// abstract a node value seen in an implementation's path: "l:p", "Z", or "J" (junk)
    /// (when several nodes have the same value - equal leaves - any of their ids is a true
    /// statement about the bytes; the hinted position is tried first)
    pub fn abs_node(&self, bytes: &[u8], level_hint: usize, pos_hint: usize) -> String {
        if level_hint < self.levels.len() && pos_hint < self.levels[level_hint].len()
            && self.levels[level_hint][pos_hint].as_slice() == bytes {
            return format!("{}:{}", level_hint, pos_hint);
        }
        if bytes == zero_node(self.proto).as_slice() {
            return "Z".to_string();
        }
        if level_hint < self.levels.len() {
            for (p, n) in self.levels[level_hint].iter().enumerate() {
                if n.as_slice() == bytes {
                    return format!("{}:{}", level_hint, p);
                }
            }
        }
        for (l, lv) in self.levels.iter().enumerate() {
            for (p, n) in lv.iter().enumerate() {
                if n.as_slice() == bytes {
                    return format!("{}:{}", l, p);
                }
            }
        }
        "J".to_string()
    }
}

/// what a protocol verifier computes from (index, leaf data, path bytes)
pub fn root_from_path(p: Prof, index: u64, leaf_data: &[u8], path: &[u8]) -> Option<Vec<u8>> {
    let w = p.node_w;
    if path.len() % w != 0 {
        return None;
    }
    let mut h = hash_leaf(p, leaf_data);
    let mut idx = index;
    for el in path.chunks(w) {
        h = if idx & 1 == 0 { hash_node(p, &h, el) } else { hash_node(p, el, &h) };
        idx >>= 1;
    }
    Some(as_root(p, &h))
}

// ---- Ed25519 (RFC 8032) through ed25519-dalek, one-shot

pub fn pk_of_seed(seed: &[u8; 32]) -> [u8; 32] {
    SigningKey::from_bytes(seed).verifying_key().to_bytes()
}

pub fn sign_oneshot(seed: &[u8; 32], msg: &[u8]) -> [u8; 64] {
    SigningKey::from_bytes(seed).sign(msg).to_bytes()
}

/// do these 32 bytes decode to a point of the curve?
pub fn is_curve_point(pk: &[u8; 32]) -> bool { VerifyingKey::from_bytes(pk).is_ok() }

pub fn verify_oneshot(pk: &[u8], msg: &[u8], sig: &[u8]) -> bool {
    let pk: [u8; 32] = match pk.try_into() {
        Ok(p) => p,
        Err(_) => return false,
    };
    let sig: [u8; 64] = match sig.try_into() {
        Ok(s) => s,
        Err(_) => return false,
    };
    match VerifyingKey::from_bytes(&pk) {
        Ok(vk) => vk.verify(msg, &Signature::from_bytes(&sig)).is_ok(),
        Err(_) => false,
    }
}

pub fn srv_of_pk(pk: &[u8]) -> Vec<u8> {
    sha512(&[&[0xffu8], pk])[..32].to_vec()
}

/// Self-check of `I` (tool error if it fails, never a verdict about the code):
/// RFC 8032 test vector 1 and 2, the README's seed/public key pair, hand-computed trees.
pub fn self_check() -> Result<(), String> {
    use crate::util::{hex, unhex};
    let v = [
        ("9d61b19deffd5a60ba844af492ec2cc44449c5697b326919703bac031cae7f60",
         "d75a980182b10ab7d54bfed3c964073a0ee172f3daa62325af021a68f707511a", "",
         "e5564300c360ac729086e2cc806e828a84877f1eb8e5d974d873e065224901555fb8821590a33bacc61e39701cf9b46bd25bf5f0595bbe24655141438e7a100b"),
        ("4ccd089b28ff96da9db6c346ec114e0f5b8a319f35aba624da8cf6ed4fb8a6fb",
         "3d4017c3e843895a92b70aa74d1b7ebc9c982ccf2ec4968cc0cd55f12af4660c", "72",
         "92a009a9f0d4cab8720e820b5f642540a2b27b5416503f8fb3762223ebdb69da085ac1e43e15996e458f3613d0f11d8c387b2eaeb4302aeeb00d291612bb0c00"),
    ];
    for (sk, pk, m, s) in v.iter() {
        let seed: [u8; 32] = unhex(sk).try_into().unwrap();
        if hex(&pk_of_seed(&seed)) != *pk {
            return Err("RFC 8032 public key vector failed".into());
        }
        if hex(&sign_oneshot(&seed, &unhex(m))) != *s {
            return Err("RFC 8032 signature vector failed".into());
        }
        if !verify_oneshot(&unhex(pk), &unhex(m), &unhex(s)) {
            return Err("RFC 8032 verify vector failed".into());
        }
    }
    // hand-computed 3-leaf tree: root = N(N(L1,L2),N(L3,Z))
    for p in [Proto::Google.prof(), Proto::Ietf.prof(), Prof { node_w: 64, root_w: 32 }] {
        let d = |k: u64| vec![k as u8; 3];
        let t = RefTree::build(p, &[d(1), d(2), d(3)]);
        let want = as_root(p, &eval_hash("N(N(L1,L2),N(L3,Z))", p, &d));
        if t.root() != want || want.len() != p.root_w {
            return Err("reference tree self-check failed".into());
        }
        let path2 = t.path(2);
        if path2.len() != 2 || path2[0] != zero_node(p) || path2[1] != eval_hash("N(L1,L2)", p, &d) {
            return Err("reference path self-check failed".into());
        }
        let flat: Vec<u8> = path2.concat();
        if root_from_path(p, 2, &d(3), &flat) != Some(t.root()) {
            return Err("root_from_path self-check failed".into());
        }
    }
    Ok(())
}
