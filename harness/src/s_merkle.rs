//! C04: MerkleTree object conformance.
//!  replay: TLC behaviours of Merkle.tla (op sequences with expected root / path TERMS)
//!          executed on the real roughenough::merkle::MerkleTree, compared after every op.
//!  record: the real object driven for all n = 1..=255, pairs of batch sizes and random
//!          sequences; observations abstracted to node ids and handed to Trace_Merkle.tla.
use crate::interp::{self, Prof, Proto, RefTree};
use crate::util::{guarded, hex, Rng};
use roughenough::merkle::MerkleTree;
use roughenough::version::Version;
use serde_json::{json, Value};
use std::io::{BufRead, Write};

fn version_of(p: Proto) -> Version {
    match p {
        Proto::Google => Version::Google,
        Proto::Ietf => Version::RfcDraft13,
    }
}

/// Determine the (node width, root width) the implementation uses for this profile from a
/// fresh 2-leaf tree. C04 is about completeness/binding/history-independence for whatever
/// widths the profile uses; the protocol-mandated widths are C02's business.
pub fn calibrate(p: Proto) -> Prof {
    let r = guarded(|| {
        let mut t = MerkleTree::new(version_of(p));
        t.push_leaf(b"a");
        t.push_leaf(b"b");
        let root = t.compute_root();
        let path = t.get_paths(0);
        (path.len(), root.len())
    });
    match r {
        Ok((pw, rw)) if (pw == 32 || pw == 64) && (rw == 32 || rw == 64) => Prof { node_w: pw, root_w: rw },
        _ => p.prof(),
    }
}

/// leaf data maps: how a data id of the specification becomes bytes
fn data_map(kind: u64, d: u64) -> Vec<u8> {
    match kind {
        0 => interp::sha512(&[b"leafdata", &d.to_le_bytes()]),           // 64 random-looking bytes
        1 => {
            // includes the empty leaf and very short leaves
            if d == 1 { vec![] } else { vec![d as u8; (d % 5) as usize] }
        }
        _ => {
            let mut v = interp::sha512(&[b"request", &d.to_le_bytes()]);  // a 1024-byte "request"
            while v.len() < 1024 { let more = interp::sha512(&[&v]); v.extend(more); }
            v.truncate(1024);
            v
        }
    }
}

struct Mismatch {
    step: usize,
    what: String,
    detail: Value,
}

fn replay_one(hist: &[Value], p: Proto, prof: Prof, kind: u64) -> Result<usize, Mismatch> {
    let data = move |d: u64| data_map(kind, d);
    let mut tree = MerkleTree::new(version_of(p));
    let mut leaves: Vec<u64> = Vec::new();
    let mut steps = 0;
    for (k, op) in hist.iter().enumerate() {
        let name = op["op"].as_str().unwrap_or("");
        match name {
            "push" => {
                let d = op["d"].as_u64().unwrap();
                let bytes = data(d);
                if let Err(e) = guarded(|| tree.push_leaf(&bytes)) {
                    return Err(Mismatch { step: k, what: "panic in push_leaf".into(), detail: json!(e) });
                }
                leaves.push(d);
            }
            "reset" => {
                if let Err(e) = guarded(|| tree.reset()) {
                    return Err(Mismatch { step: k, what: "panic in reset".into(), detail: json!(e) });
                }
                leaves.clear();
            }
            "root" => {
                let want_root = interp::as_root(prof, &interp::eval_hash(op["root"].as_str().unwrap(), prof, &data));
                let got_root = match guarded(|| tree.compute_root()) {
                    Ok(r) => r,
                    Err(e) => return Err(Mismatch { step: k, what: "panic in compute_root".into(), detail: json!(e) }),
                };
                if got_root != want_root {
                    return Err(Mismatch { step: k, what: "root differs from specification term".into(),
                        detail: json!({"term": op["root"], "got": hex(&got_root), "want": hex(&want_root)}) });
                }
                let paths = op["paths"].as_array().unwrap();
                for (i, pterms) in paths.iter().enumerate() {
                    let want: Vec<u8> = pterms.as_array().unwrap().iter()
                        .flat_map(|t| interp::eval_hash(t.as_str().unwrap(), prof, &data)).collect();
                    let got = match guarded(|| tree.get_paths(i)) {
                        Ok(r) => r,
                        Err(e) => return Err(Mismatch { step: k, what: format!("panic in get_paths({})", i), detail: json!(e) }),
                    };
                    if got != want {
                        return Err(Mismatch { step: k, what: format!("path {} differs from specification terms", i),
                            detail: json!({"terms": pterms, "got_len": got.len(), "want_len": want.len()}) });
                    }
                    // Complete, under the implementation's own verifier and under I's verifier
                    let leaf = data(leaves[i]);
                    let own = guarded(|| tree.root_from_paths(i, &leaf, &got));
                    if own.as_ref().ok() != Some(&got_root) {
                        return Err(Mismatch { step: k, what: format!("root_from_paths({}) does not recompute the root", i), detail: json!(null) });
                    }
                    if interp::root_from_path(prof, i as u64, &leaf, &got) != Some(got_root.clone()) {
                        return Err(Mismatch { step: k, what: format!("independent verifier does not recompute the root for {}", i), detail: json!(null) });
                    }
                }
                steps += 1;
            }
            _ => {}
        }
    }
    Ok(steps)
}

pub fn replay(path: &str) {
    let f = std::fs::File::open(path).expect("open behaviours");
    let out = std::io::stdout();
    let mut out = out.lock();
    let profs = [(Proto::Google, calibrate(Proto::Google)), (Proto::Ietf, calibrate(Proto::Ietf))];
    let mut n = 0u64;
    for line in std::io::BufReader::new(f).lines() {
        let line = line.unwrap();
        let v: Value = match serde_json::from_str(&line) { Ok(v) => v, Err(_) => continue };
        let hist = match v["hist"].as_array() { Some(h) => h.clone(), None => continue };
        for (p, prof) in profs.iter() {
            for kind in 0..3u64 {
                n += 1;
                match replay_one(&hist, *p, *prof, kind) {
                    Ok(_) => {}
                    Err(m) => {
                        writeln!(out, "{}", json!({"rec": "mismatch", "proto": p.tag(), "datamap": kind, "step": m.step,
                            "what": m.what, "detail": m.detail, "hist": hist})).unwrap();
                    }
                }
            }
        }
    }
    writeln!(out, "{}", json!({"rec": "summary", "executions": n,
        "prof_G": [profs[0].1.node_w, profs[0].1.root_w], "prof_I": [profs[1].1.node_w, profs[1].1.root_w]})).unwrap();
}

// ------------------------------------------------------------------------------------
// code -> spec

/// Run one batch on `tree` (already reset/fresh), return the abstract event.
fn observe_batch(tree: &mut MerkleTree, prof: Prof, leaves: &[Vec<u8>], distinct: bool, rng: &mut Rng, full_binding: bool) -> Value {
    let n = leaves.len();
    let reft = RefTree::build(prof, leaves);
    let r = guarded(|| {
        for l in leaves { tree.push_leaf(l); }
        let root = tree.compute_root();
        // PathOf is a function of the tree's state: the ORDER in which positions are asked (ascending as the server does,
        // descending, odd positions first, shuffled) and asking again must not matter
        let mut order: Vec<usize> = (0..n).collect();
        match rng.below(4) {
            0 => {}
            1 => order.reverse(),
            2 => { order = (0..n).filter(|i| i % 2 == 1).chain((0..n).filter(|i| i % 2 == 0)).collect(); }
            _ => { for i in 0..n { let j = i + rng.below((n - i) as u64) as usize; order.swap(i, j); } }
        }
        let mut paths: Vec<Vec<u8>> = vec![Vec::new(); n];
        for i in order { paths[i] = tree.get_paths(i); }
        for _ in 0..n.min(4) { let i = rng.below(n as u64) as usize; let again = tree.get_paths(i); if again != paths[i] { paths[i] = again; } }
        (root, paths)
    });
    let (root, paths) = match r {
        Ok(x) => x,
        Err(e) => return json!({"ev": "batch", "n": n, "panic": e}),
    };
    let mut ids: Vec<Value> = Vec::with_capacity(n);
    let mut selfverify = true;
    let mut iverify = true;
    let mut aligned = true;
    for (i, p) in paths.iter().enumerate() {
        if p.len() % prof.node_w != 0 { aligned = false; ids.push(json!(["J"])); continue; }
        let els: Vec<String> = p.chunks(prof.node_w).enumerate().map(|(l, c)| reft.abs_node(c, l, (i >> l) ^ 1)).collect();
        ids.push(json!(els));
        match guarded(|| tree.root_from_paths(i, &leaves[i], p)) {
            Ok(r) if r == root => {}
            _ => selfverify = false,
        }
        if interp::root_from_path(prof, i as u64, &leaves[i], p) != Some(root.clone()) { iverify = false; }
    }
    // Binding: attempts that (wrongly) recompute the root
    let mut bindhits = 0u64;
    let mut bindtries = 0u64;
    if distinct && aligned {
        let positions: Vec<usize> = if full_binding || n <= 8 { (0..n).collect() } else {
            let mut v = vec![0, n - 1, n / 2];
            for _ in 0..3 { v.push(rng.below(n as u64) as usize); }
            v
        };
        for &i in &positions {
            let p = &paths[i];
            let mut attempt = |idx: u64, leaf: &[u8], path: &[u8]| {
                bindtries += 1;
                if interp::root_from_path(prof, idx, leaf, path) == Some(root.clone()) { bindhits += 1; }
                if let Ok(r) = guarded(|| tree.root_from_paths(idx as usize, leaf, path)) {
                    if r == root { bindhits += 1; }
                }
            };
            // other leaves
            let others: Vec<usize> = if full_binding || n <= 8 { (0..n).filter(|j| *j != i).collect() }
                else { vec![(i + 1) % n, (i + n - 1) % n, rng.below(n as u64) as usize].into_iter().filter(|j| *j != i).collect() };
            for j in others { attempt(i as u64, &leaves[j], p); }
            // other in-range indices
            let span = 1u64 << reft.depth();
            let idxs: Vec<u64> = if full_binding || span <= 16 { (0..span).collect() } else { (0..8).map(|_| rng.below(span)).collect() };
            for k in idxs { if k != i as u64 { attempt(k, &leaves[i], p); } }
            // changed / removed / added elements
            let w = prof.node_w;
            let depth = p.len() / w;
            for k in 0..depth {
                let mut q = p.clone();
                q[k * w + (rng.below(w as u64) as usize)] ^= 1 << rng.below(8);
                attempt(i as u64, &leaves[i], &q);
                let mut q = p.clone();
                q.drain(k * w..(k + 1) * w);
                attempt(i as u64, &leaves[i], &q);
            }
            // a PARTIAL element added or removed: the path is no longer a whole number of nodes
            for stray in [1usize, w / 2, w - 1] {
                let mut q = p.clone();
                let extra = rng.bytes(stray);
                q.extend(extra);
                attempt(i as u64, &leaves[i], &q);
                if p.len() >= stray {
                    let mut q = p.clone();
                    q.truncate(p.len() - stray);
                    attempt(i as u64, &leaves[i], &q);
                }
            }
            for k in 0..=depth {
                let mut q = p.clone();
                let ins = if rng.chance(1, 2) { vec![0u8; w] } else { rng.bytes(w) };
                for (o, b) in ins.iter().enumerate() { q.insert(k * w + o, *b); }
                attempt(i as u64, &leaves[i], &q);
            }
        }
    }
    json!({"ev": "batch", "n": n, "rootok": root == reft.root(), "rootlen": root.len(), "paths": ids,
           "selfverify": selfverify, "iverify": iverify, "aligned": aligned, "distinct": distinct,
           "bindtries": bindtries, "bindhits": bindhits})
}

fn gen_leaves(rng: &mut Rng, n: usize, mode: u64) -> (Vec<Vec<u8>>, bool) {
    match mode {
        0 => ((0..n).map(|_| rng.bytes(64)).collect(), true),                       // nonces
        1 => ((0..n).map(|i| { let mut v = rng.bytes(1020); v.extend((i as u32).to_le_bytes()); v }).collect(), true), // requests
        2 => ((0..n).map(|i| (i as u32).to_le_bytes()[..(1 + i / 256).min(4)].to_vec()).map(|mut v| { v.push(7); v }).collect(), n <= 256),
        3 => (vec![rng.bytes(8); n], n == 1),                                       // all equal
        5 => {   // long leaves (a maximum-size request and beyond) that share everything but their LAST bytes
            let len = *rng.pick(&[1499usize, 1500, 1501, 1504, 2048, 4096]);
            let prefix = rng.bytes(len - 4);
            ((0..n).map(|i| { let mut v = prefix.clone(); v.extend((i as u32).to_le_bytes()); v }).collect(), true)
        }
        _ => ((0..n).map(|i| if i == 0 { vec![] } else { let l = rng.below(40) as usize; let mut v = rng.bytes(l); v.extend((i as u32).to_le_bytes()); v }).collect(), true), // includes empty leaf
    }
}

pub fn record(seed: u64, tier: &str, out_path: &str) {
    let mut rng = Rng::new(seed ^ 0xC04);
    let mut out = std::io::BufWriter::new(std::fs::File::create(out_path).expect("create trace"));
    let thorough = tier == "thorough";
    let mut batches = 0u64;
    for p in [Proto::Google, Proto::Ietf] {
        let prof = calibrate(p);
        // (a) one long-lived object through all n = 1..=255 in increasing order, then a fresh
        //     object in decreasing order (every size follows a larger one)
        for pass in 0..2 {
            writeln!(out, "{}", json!({"ev": "new", "prof": p.tag(), "node_w": prof.node_w, "root_w": prof.root_w})).unwrap();
            let mut tree = MerkleTree::new(version_of(p));
            let sizes: Vec<usize> = if pass == 0 { (1..=255).collect() } else { (1..=255).rev().collect() };
            for n in sizes {
                let mode = rng.below(6);
                let (leaves, distinct) = gen_leaves(&mut rng, n, mode);
                let ev = observe_batch(&mut tree, prof, &leaves, distinct, &mut rng, thorough && n <= 64);
                writeln!(out, "{}", ev).unwrap();
                batches += 1;
                let _ = guarded(|| tree.reset());
            }
        }
        // (b) every ordered pair from a grid of sizes on one reused object
        let grid: Vec<usize> = if thorough {
            vec![1, 2, 3, 4, 5, 6, 7, 8, 9, 15, 16, 17, 31, 32, 33, 63, 64, 65, 100, 127, 128, 129, 200, 255]
        } else {
            vec![1, 2, 3, 4, 5, 7, 8, 9, 16, 17, 33, 64, 65, 255]
        };
        for &a in &grid {
            for &b in &grid {
                writeln!(out, "{}", json!({"ev": "new", "prof": p.tag(), "node_w": prof.node_w, "root_w": prof.root_w})).unwrap();
                let mut tree = MerkleTree::new(version_of(p));
                for n in [a, b] {
                    let mode = rng.below(6);
                    let (leaves, distinct) = gen_leaves(&mut rng, n, mode);
                    let ev = observe_batch(&mut tree, prof, &leaves, distinct, &mut rng, false);
                    writeln!(out, "{}", ev).unwrap();
                    batches += 1;
                    let _ = guarded(|| tree.reset());
                }
            }
        }
        // (b2) a LONG life: a batch that fills the upper levels, then many batches that never reach them (single leaves,
        //      as the classic responder of a mostly-IETF server sees, or nothing at all), then a multi-leaf batch again.
        //      The counts sit at the wrap points of 8- and 16-bit counters (a generation stamp, a use count).
        for &idle in &[255usize, 256, 65_535, 65_536] {
            writeln!(out, "{}", json!({"ev": "new", "prof": p.tag(), "node_w": prof.node_w, "root_w": prof.root_w})).unwrap();
            let mut tree = MerkleTree::new(version_of(p));
            for (k, n) in [9usize, 5, 12].iter().enumerate() {
                let (leaves, distinct) = gen_leaves(&mut rng, *n, 0);
                let ev = observe_batch(&mut tree, prof, &leaves, distinct, &mut rng, false);
                writeln!(out, "{}", ev).unwrap();
                batches += 1;
                // `idle` resets in all until the next observed batch
                let _ = guarded(|| tree.reset());
                if k < 2 {
                    let one = rng.bytes(64);
                    let _ = guarded(|| for j in 1..idle { if j % 3 != 0 { tree.push_leaf(&one); let _ = tree.compute_root(); } tree.reset(); });
                }
            }
        }
        // (c) random longer sequences
        let seqs = if thorough { 300 } else { 40 };
        for _ in 0..seqs {
            writeln!(out, "{}", json!({"ev": "new", "prof": p.tag(), "node_w": prof.node_w, "root_w": prof.root_w})).unwrap();
            let mut tree = MerkleTree::new(version_of(p));
            let len = rng.range(3, 8);
            for _ in 0..len {
                let n = if rng.chance(1, 2) { rng.range(1, 9) } else { rng.range(1, 255) } as usize;
                let mode = rng.below(6);
                    let (leaves, distinct) = gen_leaves(&mut rng, n, mode);
                let ev = observe_batch(&mut tree, prof, &leaves, distinct, &mut rng, false);
                writeln!(out, "{}", ev).unwrap();
                batches += 1;
                let _ = guarded(|| tree.reset());
            }
        }
    }
    out.flush().unwrap();
    println!("{}", json!({"rec": "summary", "batches": batches}));
}
