//! Reference tables and codec for the Roughtime tag-value format, written from the protocol
//! documents (part of the interpretation `I`; independent of roughenough::message / ::tag).
use crate::util::{le32, rd32};

/// The 18 tags roughenough knows, by wire bytes. Rank = position in LITTLE-ENDIAN NUMERIC order.
pub const TAGS: [&[u8; 4]; 18] = [
    b"SIG\x00", b"VER\x00", b"SRV\x00", b"NONC", b"DELE", b"PATH", b"RADI", b"PUBK", b"MIDP", b"SREP",
    b"VERS", b"MINT", b"ROOT", b"CERT", b"MAXT", b"INDX", b"ZZZZ", b"PAD\xff",
];

pub const BIG: u64 = 1 << 30;

pub fn tag_rank(word: u32) -> u64 {
    // numeric order is verified in self_check()
    for (i, t) in TAGS.iter().enumerate() {
        if rd32(&t[..]) == word {
            return (i + 1) as u64;
        }
    }
    0
}

pub fn rank_of_wire(w: &[u8]) -> u64 {
    if w.len() != 4 { return 0; }
    tag_rank(rd32(w))
}

pub fn tag_wire(rank: u64) -> [u8; 4] {
    *TAGS[(rank - 1) as usize]
}

/// abstraction of a 32-bit word to the specification's <<v, t>>
pub fn abs_word(w: u32) -> (u64, u64) {
    let v = if (w as u64) < BIG { w as u64 } else { BIG + (w as u64 % 4) };
    (v, tag_rank(w))
}

/// concretisation of <<v, t>>; `variant` picks among representatives of clamped values
pub fn conc_word(v: u64, t: u64, variant: u64) -> u32 {
    if t > 0 {
        return rd32(&tag_wire(t));
    }
    if v < BIG {
        return v as u32;
    }
    let r = (v - BIG) as u32; // value mod 4
    let reps: [u32; 4] = [0xFFFF_FFFC, 0x5858_5858, 0x4000_0000, 0x8000_0000];
    let base = reps[(variant % 4) as usize];
    let cand = (base & !3) | r;
    if tag_rank(cand) != 0 { 0xFFFF_FFFC | r } else { cand }
}

pub fn words_to_bytes(ws: &[(u64, u64)], variant: u64) -> Vec<u8> {
    let mut out = Vec::with_capacity(ws.len() * 4);
    for (v, t) in ws {
        out.extend_from_slice(&le32(conc_word(*v, *t, variant)));
    }
    out
}

pub fn bytes_to_words(b: &[u8]) -> (Vec<(u64, u64)>, usize) {
    let n = b.len() / 4;
    let mut ws = Vec::with_capacity(n);
    for i in 0..n {
        ws.push(abs_word(rd32(&b[i * 4..])));
    }
    (ws, b.len() % 4)
}

/// Reference decoder on bytes (same rules as Wire.tla's Decode): returns (tag ranks, values)
pub fn ref_decode(b: &[u8]) -> Option<Vec<(u64, Vec<u8>)>> {
    if b.len() < 4 || b.len() % 4 != 0 { return None; }
    let nt = rd32(b) as usize;
    if nt == 0 { return Some(vec![]); }
    if nt == 1 {
        if b.len() < 8 { return None; }
        let r = rank_of_wire(&b[4..8]);
        if r == 0 { return None; }
        return Some(vec![(r, b[8..].to_vec())]);
    }
    if nt > 1024 || b.len() < 8 * nt { return None; }
    let hdr = 8 * nt;
    let vlen = b.len() - hdr;
    let mut offs = vec![0usize];
    for k in 0..nt - 1 {
        let o = rd32(&b[4 + 4 * k..]) as usize;
        if o % 4 != 0 || o > vlen { return None; }
        offs.push(o);
    }
    offs.push(vlen);
    let mut out = Vec::with_capacity(nt);
    let mut last = 0u64;
    for k in 0..nt {
        let r = rank_of_wire(&b[4 * nt + 4 * k..4 * nt + 4 * k + 4]);
        if r == 0 || r <= last { return None; }
        last = r;
        if offs[k] > offs[k + 1] { return None; }
        out.push((r, b[hdr + offs[k]..hdr + offs[k + 1]].to_vec()));
    }
    Some(out)
}

pub fn ref_encode(fields: &[(u64, Vec<u8>)]) -> Vec<u8> {
    let nt = fields.len();
    let mut out = Vec::new();
    out.extend_from_slice(&le32(nt as u32));
    let mut sum = 0usize;
    for (k, (_, v)) in fields.iter().enumerate() {
        if k + 1 < nt {
            sum += v.len();
            out.extend_from_slice(&le32(sum as u32));
        }
    }
    for (r, _) in fields { out.extend_from_slice(&tag_wire(*r)); }
    for (_, v) in fields { out.extend_from_slice(v); }
    out
}

pub fn ref_frame(payload: &[u8]) -> Vec<u8> {
    let mut out = b"ROUGHTIM".to_vec();
    out.extend_from_slice(&le32(payload.len() as u32));
    out.extend_from_slice(payload);
    out
}

pub fn get<'a>(fields: &'a [(u64, Vec<u8>)], rank: u64) -> Option<&'a [u8]> {
    fields.iter().find(|(r, _)| *r == rank).map(|(_, v)| v.as_slice())
}

pub const SIG: u64 = 1;
pub const VER: u64 = 2;
pub const SRV: u64 = 3;
pub const NONC: u64 = 4;
pub const DELE: u64 = 5;
pub const PATH: u64 = 6;
pub const RADI: u64 = 7;
pub const PUBK: u64 = 8;
pub const MIDP: u64 = 9;
pub const SREP: u64 = 10;
pub const VERS: u64 = 11;
pub const MINT: u64 = 12;
pub const ROOT: u64 = 13;
pub const CERT: u64 = 14;
pub const MAXT: u64 = 15;
pub const INDX: u64 = 16;
pub const ZZZZ: u64 = 17;
pub const PAD: u64 = 18;

pub fn self_check() -> Result<(), String> {
    let mut last = 0u32;
    for t in TAGS.iter() {
        let v = rd32(&t[..]);
        if v <= last { return Err("reference tag table not in numeric order".into()); }
        last = v;
    }
    let f = vec![(SIG, vec![1u8; 8]), (NONC, vec![]), (PAD, vec![9u8; 4])];
    let e = ref_encode(&f);
    if ref_decode(&e) != Some(f) { return Err("reference codec round trip failed".into()); }
    Ok(())
}
