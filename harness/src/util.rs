//! Small utilities: deterministic PRNG, hex, panic capture.
use std::panic::{catch_unwind, AssertUnwindSafe};

/// xoshiro256** seeded through splitmix64; deterministic for a given VERIF_SEED
pub struct Rng {
    s: [u64; 4],
}

impl Rng {
    pub fn new(seed: u64) -> Rng {
        let mut z = seed.wrapping_add(0x9E3779B97F4A7C15);
        let mut s = [0u64; 4];
        for x in s.iter_mut() {
            z = z.wrapping_add(0x9E3779B97F4A7C15);
            let mut y = z;
            y = (y ^ (y >> 30)).wrapping_mul(0xBF58476D1CE4E5B9);
            y = (y ^ (y >> 27)).wrapping_mul(0x94D049BB133111EB);
            *x = y ^ (y >> 31);
        }
        Rng { s }
    }
    pub fn next_u64(&mut self) -> u64 {
        let r = self.s[1].wrapping_mul(5).rotate_left(7).wrapping_mul(9);
        let t = self.s[1] << 17;
        self.s[2] ^= self.s[0];
        self.s[3] ^= self.s[1];
        self.s[1] ^= self.s[2];
        self.s[0] ^= self.s[3];
        self.s[2] ^= t;
        self.s[3] = self.s[3].rotate_left(45);
        r
    }
    /// uniform in 0..n (n > 0)
    pub fn below(&mut self, n: u64) -> u64 {
        if n == 0 { return 0; }
        self.next_u64() % n
    }
    pub fn range(&mut self, lo: u64, hi_incl: u64) -> u64 {
        if hi_incl <= lo { return lo; }
        lo + self.below(hi_incl - lo + 1)
    }
    pub fn chance(&mut self, num: u64, den: u64) -> bool {
        self.below(den) < num
    }
    pub fn bytes(&mut self, n: usize) -> Vec<u8> {
        let mut v = Vec::with_capacity(n + 8);
        while v.len() < n {
            v.extend_from_slice(&self.next_u64().to_le_bytes());
        }
        v.truncate(n);
        v
    }
    pub fn pick<'a, T>(&mut self, xs: &'a [T]) -> &'a T {
        &xs[self.below(xs.len() as u64) as usize]
    }
}

pub fn hex(b: &[u8]) -> String {
    let mut s = String::with_capacity(b.len() * 2);
    for x in b {
        s.push_str(&format!("{:02x}", x));
    }
    s
}

pub fn unhex(s: &str) -> Vec<u8> {
    let s = s.as_bytes();
    let mut v = Vec::with_capacity(s.len() / 2);
    let nib = |c: u8| -> u8 {
        match c {
            b'0'..=b'9' => c - b'0',
            b'a'..=b'f' => c - b'a' + 10,
            b'A'..=b'F' => c - b'A' + 10,
            _ => panic!("bad hex"),
        }
    };
    let mut i = 0;
    while i + 1 < s.len() {
        v.push(nib(s[i]) << 4 | nib(s[i + 1]));
        i += 2;
    }
    v
}

/// Run code under test; a panic is data (Err(message)), never a harness failure.
thread_local! { static IN_GUARD: std::cell::Cell<u32> = std::cell::Cell::new(0); }

/// when the outermost call into the code under test began (epoch ms; 0 = none running) and how many there have been
static CALL_STARTED_MS: std::sync::atomic::AtomicU64 = std::sync::atomic::AtomicU64::new(0);
static CALLS: std::sync::atomic::AtomicU64 = std::sync::atomic::AtomicU64::new(0);

/// milliseconds on the MONOTONIC clock since the first call, never 0 (the watchdogs must not follow a stepped wall clock)
pub fn mono_ms() -> u64 {
    static START: std::sync::OnceLock<std::time::Instant> = std::sync::OnceLock::new();
    START.get_or_init(std::time::Instant::now).elapsed().as_millis() as u64 + 1
}
fn now_ms() -> u64 { mono_ms() }

/// A steppable wall clock. The harness binary interposes `clock_gettime` (see bin/rvh.rs): CLOCK_REALTIME is shifted by this
/// many seconds for everything linked into the process - the code under test's `SystemTime::now()` and the harness's own
/// bracketing readings alike - so a driver can make the system clock jump backwards or forwards between two batches
/// (an operator or NTP correcting the clock, a VM restored from a snapshot). All other clocks are untouched.
pub static REALTIME_SHIFT_SECS: std::sync::atomic::AtomicI64 = std::sync::atomic::AtomicI64::new(0);
pub fn step_clock(secs: i64) { REALTIME_SHIFT_SECS.fetch_add(secs, std::sync::atomic::Ordering::SeqCst); }
pub fn unstep_clock() { REALTIME_SHIFT_SECS.store(0, std::sync::atomic::Ordering::SeqCst); }

/// A call into the code under test that does not come back is a finding, not a harness failure: after `limit_ms` the
/// watchdog prints a `hang` record (suite, mode, ordinal of the call - runs are deterministic for a seed) and ends the run.
pub fn start_call_watchdog(limit_ms: u64, what: String) {
    std::thread::spawn(move || loop {
        std::thread::sleep(std::time::Duration::from_millis(1000));
        let t0 = CALL_STARTED_MS.load(std::sync::atomic::Ordering::SeqCst);
        if t0 != 0 && now_ms() > t0 + limit_ms {
            // (stderr: the suite may hold the stdout lock for its whole run; exit status 3 = "hang record on stderr")
            eprintln!("{}", serde_json::json!({"rec": "hang", "what": what, "call": CALLS.load(std::sync::atomic::Ordering::SeqCst), "limit_ms": limit_ms}));
            std::process::exit(3);
        }
    });
}

pub fn guarded<T>(f: impl FnOnce() -> T) -> Result<T, String> {
    let outermost = IN_GUARD.with(|g| { g.set(g.get() + 1); g.get() == 1 });
    if outermost { CALLS.fetch_add(1, std::sync::atomic::Ordering::SeqCst); CALL_STARTED_MS.store(now_ms(), std::sync::atomic::Ordering::SeqCst); }
    let r = catch_unwind(AssertUnwindSafe(f));
    if outermost { CALL_STARTED_MS.store(0, std::sync::atomic::Ordering::SeqCst); }
    IN_GUARD.with(|g| g.set(g.get() - 1));
    match r {
        Ok(v) => Ok(v),
        Err(e) => {
            let msg = if let Some(s) = e.downcast_ref::<&str>() {
                s.to_string()
            } else if let Some(s) = e.downcast_ref::<String>() {
                s.clone()
            } else {
                "panic".to_string()
            };
            Err(msg)
        }
    }
}

/// where the last panic OUTSIDE a guarded call happened: (file, line, message)
pub static UNGUARDED_PANIC: std::sync::Mutex<Option<(String, u32, String)>> = std::sync::Mutex::new(None);

/// Silence the default panic message printing (panics of the code under test are data)
pub fn quiet_panics() {
    let default = std::panic::take_hook();
    std::panic::set_hook(Box::new(move |info| {
        // panics of the code under test (inside `guarded`) are data; a panic outside is remembered with its location: if it
        // happened in the repository's code (a call the harness did not wrap) it is still a finding, not a harness failure
        if IN_GUARD.with(|g| g.get()) == 0 {
            let msg = if let Some(s) = info.payload().downcast_ref::<&str>() { s.to_string() } else if let Some(s) = info.payload().downcast_ref::<String>() { s.clone() } else { "panic".to_string() };
            if let Some(l) = info.location() { if let Ok(mut g) = UNGUARDED_PANIC.lock() { *g = Some((l.file().to_string(), l.line(), msg)); } }
            default(info);
        }
    }));
}

/// did the remembered panic happen in the code under test (not in the harness, the standard library or a dependency)?
pub fn unguarded_panic_in_code_under_test() -> Option<(String, u32, String)> {
    let g = UNGUARDED_PANIC.lock().ok()?;
    let (file, line, msg) = g.clone()?;
    let harness_dir = env!("CARGO_MANIFEST_DIR");
    let foreign = file.starts_with(harness_dir) || file.starts_with("src/") || file.contains("/.cargo/registry/") || file.contains("/rustc/") || file.contains("/rustlib/");
    if foreign { None } else { Some((file, line, msg)) }
}

pub fn le32(x: u32) -> [u8; 4] {
    x.to_le_bytes()
}

pub fn rd32(b: &[u8]) -> u32 {
    u32::from_le_bytes([b[0], b[1], b[2], b[3]])
}

pub fn rd64(b: &[u8]) -> u64 {
    let mut a = [0u8; 8];
    a.copy_from_slice(&b[..8]);
    u64::from_le_bytes(a)
}
