//! C13: MsgSigner / MsgVerifier conformance with Signer.tla; oracle: ed25519-dalek one-shot (I).
use crate::interp;
use crate::util::{guarded, Rng};
use roughenough::sign::{MsgSigner, MsgVerifier};
use serde_json::{json, Value};
use std::io::{BufRead, Write};

fn chunk_bytes(map: u64, c: u64) -> Vec<u8> {
    if c == 0 { return vec![]; }
    match map {
        0 => vec![c as u8; c as usize],                                   // tiny
        1 => interp::sha512(&[b"chunk", &c.to_le_bytes()]),               // 64 bytes
        2 => { let mut v = Vec::new(); while v.len() < 700 { v.extend(interp::sha512(&[&[c as u8], &(v.len() as u64).to_le_bytes()])); } v } // 704 bytes: two chunks cross the 1024 initial capacity
        _ => vec![c as u8],                                               // single byte
    }
}

fn seed_of(k: u64) -> [u8; 32] {
    match k {
        0 => [0u8; 32],
        1 => [0xffu8; 32],
        2 => crate::util::unhex("9d61b19deffd5a60ba844af492ec2cc44449c5697b326919703bac031cae7f60").try_into().unwrap(),
        _ => interp::sha512(&[b"seed", &k.to_le_bytes()])[..32].try_into().unwrap(),
    }
}

pub fn replay(path: &str, tier: &str) {
    let n_seeds: u64 = if tier == "thorough" { 3 } else { 2 };
    let f = std::fs::File::open(path).expect("open behaviours");
    let stdout = std::io::stdout();
    let mut out = stdout.lock();
    let mut execs = 0u64;
    let mut mism = 0u64;
    for line in std::io::BufReader::new(f).lines() {
        let line = line.unwrap();
        let v: Value = match serde_json::from_str(&line) { Ok(v) => v, Err(_) => continue };
        let hist = match v["hist"].as_array() { Some(h) => h.clone(), None => continue };
        for map in 0..4u64 {
            for sk in 0..n_seeds {
                execs += 1;
                let seed = seed_of(sk);
                let other = seed_of(sk + 10);
                let pk = interp::pk_of_seed(&seed);
                let res: Result<Option<(usize, String)>, String> = guarded(|| {
                    let mut signer = MsgSigner::from_seed(&seed);
                    if signer.public_key_bytes() != pk.to_vec() { return Some((0, "public_key_bytes differs from RFC 8032 public key".to_string())); }
                    let mut verifier = MsgVerifier::new(&pk);
                    let mut last_sig: Option<Vec<u8>> = None;
                    for (k, op) in hist.iter().enumerate() {
                        match op["op"].as_str().unwrap_or("") {
                            "update" => signer.update(&chunk_bytes(map, op["c"].as_u64().unwrap())),
                            "vupdate" => verifier.update(&chunk_bytes(map, op["c"].as_u64().unwrap())),
                            "sign" => {
                                let msg: Vec<u8> = op["covers"].as_array().unwrap().iter().flat_map(|c| chunk_bytes(map, c.as_u64().unwrap())).collect();
                                let want = interp::sign_oneshot(&seed, &msg);
                                let got = signer.sign();
                                if got != want.to_vec() { return Some((k, "signature differs from one-shot Ed25519 over the chunks the specification says it covers".to_string())); }
                                last_sig = Some(got);
                            }
                            "vverify" => {
                                let sigmsg: Vec<u8> = op["sigmsg"].as_array().unwrap().iter().flat_map(|c| chunk_bytes(map, c.as_u64().unwrap())).collect();
                                let sig = if op["otherKey"].as_bool().unwrap() { interp::sign_oneshot(&other, &sigmsg).to_vec() } else { last_sig.clone().unwrap() };
                                let exp = op["exp"].as_bool().unwrap();
                                let got = verifier.verify(&sig);
                                if got != exp { return Some((k, format!("verifier says {} where the specification says {}", got, exp))); }
                            }
                            _ => {}
                        }
                    }
                    None
                });
                let problem = match res { Ok(None) => None, Ok(Some(p)) => Some(p), Err(p) => Some((0, format!("panic: {}", p))) };
                if let Some((step, what)) = problem {
                    mism += 1;
                    if mism <= 100 {
                        writeln!(out, "{}", json!({"rec": "mismatch", "step": step, "what": what, "chunkmap": map, "seed": sk, "hist": hist})).unwrap();
                    }
                }
            }
        }
    }
    writeln!(out, "{}", json!({"rec": "summary", "executions": execs, "mismatches": mism})).unwrap();
}

pub fn record(seed: u64, tier: &str, out_path: &str) {
    let mut rng = Rng::new(seed ^ 0xC13);
    let mut out = std::io::BufWriter::new(std::fs::File::create(out_path).expect("create trace"));
    let thorough = tier == "thorough";
    let n_signers = if thorough { 160 } else { 36 };
    let mut events = 0u64;
    // every length 0..=4096 is visited across signers (lengths are dealt round-robin)
    let mut next_len = 0usize;
    let n_hist = if thorough { 80 } else { 14 };
    for s in 0..n_signers + n_hist {
        // (degenerate seeds are seeds too: all zero, all ones, a single bit)
        let sd: [u8; 32] = if s < 3 { seed_of(s) } else if s == 3 { [0u8; 32] } else if s == 4 { [0xff; 32] } else if s == 5 { let mut z = [0u8; 32]; z[31] = 0x80; z } else { let b = rng.bytes(32); b.try_into().unwrap() };
        let pk = interp::pk_of_seed(&sd);
        writeln!(out, "{}", json!({"ev": "new"})).unwrap();
        events += 1;
        let mut signer = match guarded(|| MsgSigner::from_seed(&sd)) {
            Ok(s) => s,
            Err(_) => {   // a constructor that panics on a valid seed: the first signature of this signer "panicked"
                writeln!(out, "{}", json!({"ev": "sign", "covers": [999_999], "equal_oneshot": false, "panic": true, "len": 0})).unwrap();
                events += 1;
                continue;
            }
        };
        let mut chunks: Vec<Vec<u8>> = Vec::new();    // all chunks ever fed to this signer
        let mut msg_start = 0usize;                    // index of first chunk of the current message
        let mut starts: Vec<usize> = vec![0];
        let per_signer = 4097 / n_signers as usize + 1;
        // the plan of this signer: (message length, forced chunking)
        let mut plan: Vec<(usize, Option<u64>)> = Vec::new();
        if s < n_signers {
            for m in 0..32usize.max(per_signer) {
                plan.push((if m < per_signer { let l = next_len % 4097; next_len += 1; l } else { rng.below(4097) as usize }, None));
            }
        } else {
            // "history" signers: what was signed long before must not matter. A few large messages (fed whole or in pieces, so
            // that the internal buffer grows in different ways), then long runs of small ones; alternations; ramps
            let bigs = [3000usize, 3500, 4096, 2049, 4095, 1025, 2500, 4097 - 1];
            let small = |rng: &mut Rng| rng.below(1025) as usize;
            match (s - n_signers) % 5 {
                0 => { let a = *rng.pick(&bigs); let b = *rng.pick(&bigs); plan.push((a, Some(0))); plan.push((b, Some(0))); for _ in 0..44 { let l = small(&mut rng); plan.push((l, None)); } }
                1 => { plan.push((3000, Some(0))); plan.push((3500, Some(0))); for _ in 0..44 { let l = small(&mut rng); plan.push((l, Some(0))); } }
                2 => { for k in 0..24 { if k % 2 == 0 { plan.push((*rng.pick(&bigs), None)); } else { let l = small(&mut rng); plan.push((l, None)); } } for _ in 0..30 { let l = small(&mut rng); plan.push((l, None)); } }
                3 => { let mut l = 4096usize; while l > 0 { plan.push((l, Some(0))); l /= 2; } for _ in 0..40 { let l = small(&mut rng); plan.push((l, None)); } }
                _ => { for _ in 0..3 { plan.push((*rng.pick(&bigs), Some(3))); } for _ in 0..44 { let l = small(&mut rng); plan.push((l, None)); } }
            }
        }
        for (len, forced) in plan {
            let msg = rng.bytes(len);
            // chunking: whole / bytes / random pieces / pieces with empty chunks
            let mut pieces: Vec<Vec<u8>> = Vec::new();
            match forced.unwrap_or_else(|| rng.below(5)) {
                0 => pieces.push(msg.clone()),
                1 if len <= 300 => for b in &msg { pieces.push(vec![*b]); },
                2 => { pieces.push(vec![]); pieces.push(msg.clone()); pieces.push(vec![]); }
                _ => { let mut p = 0; while p < len { let n = (1 + rng.below(700) as usize).min(len - p); pieces.push(msg[p..p + n].to_vec()); p += n; if rng.chance(1, 6) { pieces.push(vec![]); } } }
            }
            for p in &pieces {
                let _ = guarded(|| signer.update(p));
                writeln!(out, "{}", json!({"ev": "update", "chunk": chunks.len(), "len": p.len()})).unwrap();
                events += 1;
                chunks.push(p.clone());
            }
            let got = guarded(|| signer.sign());
            let (sig, panic) = match got { Ok(s) => (s, false), Err(_) => (vec![], true) };
            // which chunks does this signature cover? candidates: current message; carry-over from the
            // previous 1..3 messages; everything since creation
            let end = chunks.len();
            let mut covers: Value = json!([999_999]);   // "covers nothing the harness can name" (a sequence, so that TLC can compare it)
            let mut cands: Vec<usize> = vec![msg_start];
            for back in 1..=3usize { if starts.len() > back { cands.push(starts[starts.len() - 1 - back]); } }
            cands.push(0);
            for a in cands {
                let m: Vec<u8> = chunks[a..end].concat();
                if interp::verify_oneshot(&pk, &m, &sig) { covers = json!((a..end).collect::<Vec<usize>>()); break; }
            }
            let own: Vec<u8> = chunks[msg_start..end].concat();
            let equal = sig == interp::sign_oneshot(&sd, &own).to_vec();
            writeln!(out, "{}", json!({"ev": "sign", "covers": covers, "equal_oneshot": equal, "panic": panic, "len": own.len()})).unwrap();
            events += 1;
            // the verifier on the same triple, fed with the same chunking (every length 0..=4096 gets here)
            if !panic {
                let oracle = interp::verify_oneshot(&pk, &own, &sig);
                let imp = guarded(|| {
                    let mut v = MsgVerifier::new(&pk);
                    for p in &chunks[msg_start..end] { v.update(p); }
                    v.verify(&sig)
                }).unwrap_or(false);
                writeln!(out, "{}", json!({"ev": "verify", "case": "signed-message", "impl": imp, "oracle": oracle, "len": own.len()})).unwrap();
                events += 1;
            }
            msg_start = end;
            starts.push(end);
        }
    }
    // verifier: valid triples and every single-bit corruption of message, signature and key
    let n_triples = if thorough { 64 } else { 8 };
    for t in 0..n_triples {
        let sd: [u8; 32] = rng.bytes(32).try_into().unwrap();
        let pk = interp::pk_of_seed(&sd);
        let len = match t % 4 { 0 => 0, 1 => 1 + rng.below(40) as usize, 2 => 1024, _ => rng.below(4097) as usize };
        let msg = rng.bytes(len);
        let sig = interp::sign_oneshot(&sd, &msg).to_vec();
        let mut check = |case: &str, pk: &[u8], msg: &[u8], sig: &[u8], chunked: bool| {
            let oracle = interp::verify_oneshot(pk, msg, sig);
            let imp = guarded(|| {
                let mut v = MsgVerifier::new(pk);
                if chunked { for c in msg.chunks(97) { v.update(c); } } else { v.update(msg); }
                v.verify(sig)
            }).unwrap_or(false);   // a panic in the wrapper is "does not accept"
            writeln!(out, "{}", json!({"ev": "verify", "case": case, "impl": imp, "oracle": oracle, "len": msg.len()})).unwrap();
            events += 1;
        };
        check("valid", &pk, &msg, &sig, false);
        check("valid-chunked", &pk, &msg, &sig, true);
        let msg_bits = if len * 8 <= 512 || thorough && t < 8 { (0..len * 8).collect::<Vec<_>>() } else { (0..64).map(|_| rng.below((len * 8).max(1) as u64) as usize).collect() };
        if len > 0 { for b in msg_bits { let mut m = msg.clone(); m[b / 8] ^= 1 << (b % 8); check("flip-msg", &pk, &m, &sig, b % 2 == 0); } }
        for b in 0..512 { let mut s = sig.clone(); s[b / 8] ^= 1 << (b % 8); check("flip-sig", &pk, &msg, &s, false); }
        for b in 0..256 { let mut k = pk.to_vec(); k[b / 8] ^= 1 << (b % 8); check("flip-key", &k, &msg, &sig, false); }
        check("short-msg", &pk, &msg[..len / 2], &sig, false);
        let mut longer = msg.clone(); longer.push(0);
        check("long-msg", &pk, &longer, &sig, false);
        // byte strings of another length are not signatures, whatever they begin or end with (a panic counts as "refused")
        for cut in [0usize, 1, 32, 63] { check("short-sig", &pk, &msg, &sig[..cut], false); }
        for extra in [1usize, 4, 32, 64] {
            let mut s2 = sig.clone(); s2.extend(std::iter::repeat(0u8).take(extra));
            check("long-sig", &pk, &msg, &s2, false);
            let mut s3 = vec![0u8; extra]; s3.extend_from_slice(&sig);
            check("long-sig", &pk, &msg, &s3, false);
        }
        let twice = [sig.clone(), sig.clone()].concat();
        check("long-sig", &pk, &msg, &twice, false);
    }
    // several verifier objects alive at once on one thread, fed alternately: each holds its own message
    for t in 0..(if thorough { 40 } else { 10 }) {
        let sd1: [u8; 32] = rng.bytes(32).try_into().unwrap();
        let sd2: [u8; 32] = rng.bytes(32).try_into().unwrap();
        let (pk1, pk2) = (interp::pk_of_seed(&sd1), interp::pk_of_seed(&sd2));
        let (l1, l2) = (1 + rng.below(300) as usize, 1 + rng.below(300) as usize);
        let m1 = rng.bytes(l1);
        let m2 = rng.bytes(l2);
        let (s1, s2) = (interp::sign_oneshot(&sd1, &m1).to_vec(), interp::sign_oneshot(&sd2, &m2).to_vec());
        let r = guarded(|| {
            let mut v1 = MsgVerifier::new(&pk1);
            let (a1, b1) = m1.split_at(m1.len() / 2);
            v1.update(a1);
            let mut v2 = MsgVerifier::new(&pk2);          // created while v1 holds half of its message
            let (a2, b2) = m2.split_at(m2.len() / 2);
            v2.update(a2);
            v1.update(b1);
            v2.update(b2);
            let order = t % 2 == 0;
            let (r1, r2) = if order { let x = v1.verify(&s1); (x, v2.verify(&s2)) } else { let y = v2.verify(&s2); (v1.verify(&s1), y) };
            // and each refuses the other's signature
            (r1, r2, v1.verify(&s2), v2.verify(&s1))
        });
        let (r1, r2, x1, x2) = r.unwrap_or((false, false, true, true));
        for (case, imp, oracle, len) in [("interleaved-1", r1, true, m1.len()), ("interleaved-2", r2, true, m2.len()), ("interleaved-cross-1", x1, false, m1.len()), ("interleaved-cross-2", x2, false, m2.len())] {
            writeln!(out, "{}", json!({"ev": "verify", "case": case, "impl": imp, "oracle": oracle, "len": len})).unwrap();
            events += 1;
        }
    }
    // edge cases of the verification equation itself: small-order public keys and small-order R with S = 0 (a direct RFC 8032
    // verification accepts those for which R = [S]B - [k]A holds; a "strict" verifier refuses them all), S + L and S with high
    // bits set (refused by both)
    let small_order: [&str; 8] = [
        "0100000000000000000000000000000000000000000000000000000000000000",
        "ecffffffffffffffffffffffffffffffffffffffffffffffffffffffffffff7f",
        "0000000000000000000000000000000000000000000000000000000000000080",
        "0000000000000000000000000000000000000000000000000000000000000000",
        "c7176a703d4dd84fba3c0b760d10670f2a2053fa2c39ccc64ec7fd7792ac037a",
        "c7176a703d4dd84fba3c0b760d10670f2a2053fa2c39ccc64ec7fd7792ac03fa",
        "26e8958fc2b227b045c3f489f2ef98f0d5dfac05d3c63339b13802886d53fc05",
        "26e8958fc2b227b045c3f489f2ef98f0d5dfac05d3c63339b13802886d53fc85",
    ];
    let mut edge = |case: &str, pk: &[u8], msg: &[u8], sig: &[u8]| {
        let oracle = interp::verify_oneshot(pk, msg, sig);
        let imp = guarded(|| { let mut v = MsgVerifier::new(pk); v.update(msg); v.verify(sig) }).unwrap_or(false);
        writeln!(out, "{}", json!({"ev": "verify", "case": case, "impl": imp, "oracle": oracle, "len": msg.len()})).unwrap();
        events += 1;
    };
    for a in small_order.iter() {
        for r in small_order.iter() {
            for m in 0..(if thorough { 32u8 } else { 12 }) {
                let mut sig = crate::util::unhex(r);
                sig.extend_from_slice(&[0u8; 32]);
                edge("small-order", &crate::util::unhex(a), &[m, 0x55, m], &sig);
            }
        }
    }
    // 32-byte keys that are not curve points, with the signature (neutral point, S = 0) that a verifier falling back to a
    // default key accepts for every message
    {
        let base = interp::pk_of_seed(&[3u8; 32]);
        let mut cand = base;
        let mut found = 0;
        let mut k = 0usize;
        while found < 8 && k < 2000 {
            cand[k % 31] = cand[k % 31].wrapping_add(1 + (k / 31) as u8);
            k += 1;
            if !interp::is_curve_point(&cand) {
                found += 1;
                let mut neutral = vec![0u8; 64]; neutral[0] = 1;
                for m in 0..4u8 { edge("non-point-key", &cand, &[m; 9], &neutral); }
                let sig = interp::sign_oneshot(&[3u8; 32], b"abc").to_vec();
                edge("non-point-key", &cand, b"abc", &sig);
            }
        }
    }
    {
        // the group order L, little-endian
        let l: [u8; 32] = [0xed, 0xd3, 0xf5, 0x5c, 0x1a, 0x63, 0x12, 0x58, 0xd6, 0x9c, 0xf7, 0xa2, 0xde, 0xf9, 0xde, 0x14, 0, 0, 0, 0, 0, 0, 0, 0, 0, 0, 0, 0, 0, 0, 0, 0x10];
        for t in 0..8u8 {
            let sd: [u8; 32] = rng.bytes(32).try_into().unwrap();
            let pk = interp::pk_of_seed(&sd);
            let msg = vec![t; 5 + t as usize];
            let sig = interp::sign_oneshot(&sd, &msg).to_vec();
            let mut plus_l = sig.clone();
            let mut carry = 0u16;
            for i in 0..32 { let v = plus_l[32 + i] as u16 + l[i] as u16 + carry; plus_l[32 + i] = v as u8; carry = v >> 8; }
            edge("s-plus-l", &pk, &msg, &plus_l);
            for bit in [5u8, 6, 7] { let mut hi = sig.clone(); hi[63] |= 1 << bit; edge("s-high-bit", &pk, &msg, &hi); }
        }
    }
    out.flush().unwrap();
    println!("{}", json!({"rec": "summary", "events": events}));
}
