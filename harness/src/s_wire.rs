//! C05 / C06: wire codec conformance.
//!  replay: every test case TLC generated from Wire.tla (word sequence, tail, reference verdict)
//!          is concretised to bytes and given to RtMessage::from_bytes / encode / encode_framed /
//!          Display; builder cases are also rebuilt through add_field.
//!  record: seeded API messages (0..=18 fields, up to 64 KiB), count/offset/tag-targeted
//!          mutations and random strings; the observed outcome is abstracted and TLC
//!          re-decides it with the reference decoder (Trace_Wire.tla).
use crate::refcodec as rc;
use crate::util::{guarded, Rng};
use roughenough::{RtMessage, Tag};
use serde_json::{json, Value};
use std::io::{BufRead, Write};

pub struct Observed {
    pub panic: Option<String>,
    pub ok: bool,
    pub tags: Vec<u64>,
    pub lens: Vec<u64>, // words
    pub concat_ok: bool,
    pub reenc_ok: bool,
    pub frame_ok: bool,
    pub display_panic: Option<String>,
    pub nested_undecodable: bool,
}

fn tag_of_rank(r: u64) -> Tag {
    Tag::from_wire(&rc::tag_wire(r)).expect("known tag")
}

fn rank_of_tag(t: &Tag) -> u64 {
    rc::rank_of_wire(t.wire_value())
}

/// does the message (per reference decoder) contain, at any depth, a nested-type field
/// (CERT/DELE/SREP) whose value is not itself a decodable message?
fn has_undecodable_nested(fields: &[(u64, Vec<u8>)]) -> bool {
    for (r, v) in fields {
        if *r == rc::CERT || *r == rc::DELE || *r == rc::SREP {
            match rc::ref_decode(v) {
                None => return true,
                Some(inner) => {
                    if has_undecodable_nested(&inner) {
                        return true;
                    }
                }
            }
        }
    }
    false
}

pub fn observe(bytes: &[u8]) -> Observed {
    let mut o = Observed { panic: None, ok: false, tags: vec![], lens: vec![], concat_ok: true, reenc_ok: true,
        frame_ok: true, display_panic: None, nested_undecodable: false };
    let res = guarded(|| RtMessage::from_bytes(bytes));
    let msg = match res {
        Err(p) => { o.panic = Some(p); return o; }
        Ok(Err(_)) => return o,
        Ok(Ok(m)) => m,
    };
    o.ok = true;
    o.tags = msg.tags().iter().map(rank_of_tag).collect();
    o.lens = msg.values().iter().map(|v| (v.len() / 4) as u64).collect();
    let nt = o.tags.len();
    if nt > 0 {
        let hdr = if nt == 1 { 8 } else { 8 * nt };
        let concat: Vec<u8> = msg.values().iter().flat_map(|v| v.iter().copied()).collect();
        o.concat_ok = hdr <= bytes.len() && concat.as_slice() == &bytes[hdr..];
        match guarded(|| msg.encode()) {
            Ok(Ok(e)) => {
                o.reenc_ok = e.as_slice() == bytes;
                match guarded(|| msg.encode_framed()) {
                    Ok(Ok(f)) => o.frame_ok = f == rc::ref_frame(&e),
                    _ => o.frame_ok = false,
                }
            }
            _ => o.reenc_ok = false,
        }
    }
    if let Err(p) = guarded(|| format!("{}", msg)) {
        o.display_panic = Some(p);
        let fields: Vec<(u64, Vec<u8>)> = o.tags.iter().copied().zip(msg.values().iter().cloned()).collect();
        o.nested_undecodable = has_undecodable_nested(&fields);
    }
    o
}

fn parse_words(v: &Value) -> Vec<(u64, u64)> {
    v.as_array().map(|a| a.iter().map(|w| (w[0].as_u64().unwrap_or(0), w[1].as_u64().unwrap_or(0))).collect()).unwrap_or_default()
}

fn u64s(v: &Value) -> Vec<u64> {
    v.as_array().map(|a| a.iter().map(|x| x.as_u64().unwrap_or(0)).collect()).unwrap_or_default()
}

pub fn replay(path: &str) {
    let f = std::fs::File::open(path).expect("open cases");
    let stdout = std::io::stdout();
    let mut out = stdout.lock();
    let mut n = 0u64;
    let mut execs = 0u64;
    let mut accepted = 0u64;
    let mut mism = 0u64;
    for line in std::io::BufReader::new(f).lines() {
        let line = line.unwrap();
        let c: Value = match serde_json::from_str(&line) { Ok(v) => v, Err(_) => continue };
        n += 1;
        let ws = parse_words(&c["ws"]);
        let tail = c["tail"].as_u64().unwrap_or(0) as usize;
        let exp_ok = c["exp"]["ok"].as_bool().unwrap_or(false);
        let exp_tags = u64s(&c["exp"]["tags"]);
        let exp_lens = u64s(&c["exp"]["lens"]);
        let has_big = ws.iter().any(|(v, t)| *t == 0 && *v >= rc::BIG);
        let variants = if has_big { 3 } else { 1 };
        for variant in 0..variants {
            execs += 1;
            let mut bytes = rc::words_to_bytes(&ws, variant);
            for k in 0..tail { bytes.push((k as u8).wrapping_mul(17).wrapping_add(variant as u8)); }
            let o = observe(&bytes);
            let mut problems: Vec<(&str, &str, String)> = Vec::new();
            if let Some(p) = &o.panic {
                problems.push(("C06", "panic_from_bytes", p.clone()));
            } else {
                if o.ok != exp_ok {
                    problems.push(("C05", if o.ok { "accepts_what_reference_rejects" } else { "rejects_what_reference_accepts" }, String::new()));
                } else if o.ok {
                    accepted += 1;
                    if o.tags != exp_tags || o.lens != exp_lens {
                        problems.push(("C05", "content_differs_from_reference", format!("{:?} {:?}", o.tags, o.lens)));
                    }
                    if !o.concat_ok { problems.push(("C06", "values_not_exactly_input_after_header", String::new())); }
                    if !o.reenc_ok { problems.push(("C05", "reencode_differs", String::new())); }
                    if !o.frame_ok { problems.push(("C05", "framing_differs", String::new())); }
                }
                if let Some(p) = &o.display_panic {
                    problems.push(("C06", if o.nested_undecodable { "panic_display_nested_undecodable" } else { "panic_display_other" }, p.clone()));
                }
            }
            // builder cases: the same message through the public API
            if variant == 0 && c["gen"] == "build" && c["op"] == "encode" {
                let tags = u64s(&c["tags"]);
                let lens = u64s(&c["lens"]);
                let hdr = if tags.len() < 2 { 4 + 4 * tags.len() } else { 8 * tags.len() };
                let cleared = c["cleared"].as_bool().unwrap_or(false);
                let r = guarded(|| {
                    let mut m = RtMessage::with_capacity(tags.len() as u32);
                    if cleared {
                        // the object held another message before and was clear()ed
                        for r in (1..=18u64).step_by(2) { let _ = m.add_field(tag_of_rank(r), &[r as u8; 8]); }
                        m.clear();
                        if m.num_fields() != 0 { return Err("num_fields not 0 after clear".to_string()); }
                    }
                    let mut pos = hdr;
                    for (k, r) in tags.iter().enumerate() {
                        let l = lens[k] as usize * 4;
                        if m.add_field(tag_of_rank(*r), &bytes[pos..pos + l]).is_err() { return Err("add_field rejected ascending tag".to_string()); }
                        pos += l;
                    }
                    // ordering rule of the builder: a tag <= the last one must be refused, message unchanged
                    if let Some(last) = tags.last() {
                        for r in 1..=*last {
                            if m.add_field(tag_of_rank(r), &[0, 0, 0, 0]).is_ok() { return Err(format!("add_field accepted tag {} after {}", r, last)); }
                        }
                    }
                    if m.num_fields() as usize != tags.len() { return Err("num_fields wrong".to_string()); }
                    // the read accessors agree with what was added
                    if m.encoded_size() != bytes.len() && !(tags.is_empty() && m.encoded_size() == 4) { return Err(format!("encoded_size {} != {}", m.encoded_size(), bytes.len())); }
                    let mut p2 = hdr;
                    for (k, r) in tags.iter().enumerate() {
                        let l = lens[k] as usize * 4;
                        if m.get_field(tag_of_rank(*r)) != Some(&bytes[p2..p2 + l]) { return Err(format!("get_field differs for tag rank {}", r)); }
                        p2 += l;
                    }
                    for r in 1..=18u64 { if !tags.contains(&r) && m.get_field(tag_of_rank(r)).is_some() { return Err(format!("get_field invents tag rank {}", r)); } }
                    match m.encode() {
                        Ok(e) if e == bytes => Ok(()),
                        Ok(_) => Err("encode() differs from specification encoding".to_string()),
                        Err(_) => Err("encode() failed".to_string()),
                    }
                });
                match r {
                    Ok(Ok(())) => {}
                    Ok(Err(e)) => problems.push(("C05", "builder_differs", e)),
                    Err(p) => problems.push(("C06", "panic_builder", p)),
                }
            }
            for (pid, kind, detail) in problems {
                mism += 1;
                if mism <= 400 {
                    writeln!(out, "{}", json!({"rec": "mismatch", "property": pid, "kind": kind, "detail": detail,
                        "case": c, "variant": variant, "bytes_hex": crate::util::hex(&bytes[..bytes.len().min(256)])})).unwrap();
                }
            }
        }
    }
    writeln!(out, "{}", json!({"rec": "summary", "cases": n, "executions": execs, "accepted": accepted, "mismatches": mism})).unwrap();
}

// ------------------------------------------------------------------------------------
// code -> spec

fn event_of(bytes: &[u8], kind: &str, api: Option<(&[u64], &[u64])>) -> Value {
    let o = observe(bytes);
    let (ws, tail) = rc::bytes_to_words(bytes);
    let wsj: Vec<Value> = ws.iter().map(|(v, t)| json!([v, t])).collect();
    let mut e = json!({
        "ev": "decode", "kind": kind, "ws": wsj, "tail": tail,
        "obs": {"ok": o.ok, "tags": o.tags, "lens": o.lens},
        "panic": o.panic.is_some(), "concat_ok": o.concat_ok, "reenc_ok": o.reenc_ok, "frame_ok": o.frame_ok,
        "display_ok": o.display_panic.is_none(), "nested_undecodable": o.nested_undecodable,
    });
    if let Some((t, l)) = api {
        e["api"] = json!({"ok": true, "tags": t, "lens": l});
    }
    e
}

fn random_api_message(rng: &mut Rng, max_total_words: usize) -> Result<(Vec<u8>, Vec<u64>, Vec<u64>), (String, Vec<u64>, Vec<u64>)> {
    let nf = match rng.below(10) { 0 => 0, 1 => 18, 2 => 1, _ => rng.range(1, 18) } as usize;
    let mut ranks: Vec<u64> = (1..=18).collect();
    // choose nf distinct ranks
    for i in 0..ranks.len() { let j = i + rng.below((ranks.len() - i) as u64) as usize; ranks.swap(i, j); }
    let mut tags: Vec<u64> = ranks[..nf].to_vec();
    tags.sort();
    let mut lens = Vec::new();
    let mut budget = max_total_words;
    for _ in 0..nf {
        let l = match rng.below(6) { 0 => 0, 1 => 1, 2 => rng.below(4), 3 => rng.below(20), _ => rng.below((budget / 2 + 1) as u64) } as usize;
        let l = l.min(budget);
        budget -= l;
        lens.push(l as u64);
    }
    let rng_bit = rng.chance(1, 2);
    let mut vals: Vec<Vec<u8>> = Vec::new();
    for (k, _) in tags.iter().enumerate() {
        // values that look like headers now and then, so that mutations move boundaries into them
        let mut v = Vec::with_capacity(lens[k] as usize * 4);
        for _ in 0..lens[k] {
            let w: u32 = match rng.below(8) { 0 => 0, 1 => 4, 2 => 8, 3 => crate::util::rd32(&rc::tag_wire(rng.range(1, 18))), _ => rng.next_u64() as u32 };
            v.extend_from_slice(&w.to_le_bytes());
        }
        vals.push(v);
    }
    // the code under test: a refusal or panic here is an observation, not a harness error
    let built = guarded(|| {
        // every other message is built in a long-lived object that is clear()ed first (what it held before must not matter)
        thread_local! { static REUSED: std::cell::RefCell<RtMessage> = std::cell::RefCell::new(RtMessage::with_capacity(4)); }
        let reuse = rng_bit;
        let mut fresh = RtMessage::with_capacity(nf as u32);
        let mut taken = if reuse { REUSED.with(|r| std::mem::replace(&mut *r.borrow_mut(), RtMessage::with_capacity(1))) } else { RtMessage::with_capacity(1) };
        let m: &mut RtMessage = if reuse { taken.clear(); &mut taken } else { &mut fresh };
        for (k, r) in tags.iter().enumerate() {
            if m.add_field(tag_of_rank(*r), &vals[k]).is_err() {
                return Err(format!("add_field refused ascending tag rank {}", r));
            }
        }
        let out = m.encode().map_err(|_| "encode failed".to_string());
        if let Ok(e) = &out {
            if m.num_fields() as usize != nf { return Err("num_fields wrong".to_string()); }
            if m.encoded_size() != e.len() && nf > 0 { return Err("encoded_size differs from encode().len()".to_string()); }
            for (k, r) in tags.iter().enumerate() { if m.get_field(tag_of_rank(*r)) != Some(vals[k].as_slice()) { return Err("get_field differs".to_string()); } }
        }
        if reuse { REUSED.with(|r| *r.borrow_mut() = taken); }
        out
    });
    match built {
        Ok(Ok(e)) => Ok((e, tags, lens)),
        Ok(Err(e)) => Err((e, tags, lens)),
        Err(p) => Err((format!("panic: {}", p), tags, lens)),
    }
}

fn mutate(rng: &mut Rng, bytes: &[u8], nt: usize) -> Vec<u8> {
    let mut b = bytes.to_vec();
    let nwords = b.len() / 4;
    let interesting = |rng: &mut Rng, len: usize| -> u32 {
        match rng.below(15) {
            0 => 0, 1 => 1, 2 => 2, 3 => 0xFFFF_FFFF, 4 => 0xFFFF_FFFC, 5 => 0x8000_0000,
            6 => (len as u32).wrapping_add(rng.below(9) as u32).wrapping_sub(4),
            7 => (rng.below(len as u64 + 8) as u32) & !3,
            8 => rng.below(len as u64 + 8) as u32,
            9 => crate::util::rd32(&rc::tag_wire(rng.range(1, 18))),
            10 => 1024 + rng.below(3) as u32 - 1,
            11 => ((len / 4) as u32 + rng.below(5) as u32).wrapping_sub(2),       // words in the message +-2
            12 => ((len / 8) as u32 + rng.below(5) as u32).wrapping_sub(2),       // count whose header just fills the message +-2
            _ => rng.below(40) as u32,
        }
    };
    // half of the mutants are near-valid: exactly one header rule is broken (or just kept), everything else intact
    if nt >= 2 && nwords >= 2 * nt && rng.chance(1, 2) {
        let vlen = b.len() - 8 * nt;
        let off_pos = |k: usize| 4 + 4 * (k - 1);            // byte position of offset k (1-based, 1..nt-1)
        let tag_pos = |k: usize| 4 * nt + 4 * (k - 1);        // byte position of tag k (1-based)
        let get = |b: &Vec<u8>, p: usize| crate::util::rd32(&b[p..]);
        let k = 1 + rng.below((nt - 1) as u64) as usize;      // an offset index
        let lo = if k == 1 { 0 } else { get(&b, off_pos(k - 1)) };
        let hi = if k == nt - 1 { vlen as u32 } else { get(&b, off_pos(k + 1)) };
        let put = |b: &mut Vec<u8>, p: usize, w: u32| b[p..p + 4].copy_from_slice(&w.to_le_bytes());
        match rng.below(9) {
            0 => { let w = if hi > lo { lo + 1 + (rng.below((hi - lo) as u64) as u32 % (hi - lo).max(1)) } else { lo + 1 }; put(&mut b, off_pos(k), if w % 4 == 0 { w + 1 + rng.below(3) as u32 } else { w }); } // unaligned, between neighbours
            1 => put(&mut b, off_pos(k), lo),                  // zero-length value (still valid)
            2 => put(&mut b, off_pos(k), hi),                  // zero-length next value (still valid)
            3 => put(&mut b, off_pos(k), hi.wrapping_add(4)),  // beyond the next offset / value area
            4 => put(&mut b, off_pos(k), lo.wrapping_sub(4)),  // before the previous offset
            5 => { let t = 1 + rng.below((nt - 1) as u64) as usize; let w = get(&b, tag_pos(t)); put(&mut b, tag_pos(t + 1), w); } // duplicate tag
            6 => { let t = 1 + rng.below((nt - 1) as u64) as usize; let w1 = get(&b, tag_pos(t)); let w2 = get(&b, tag_pos(t + 1)); put(&mut b, tag_pos(t), w2); put(&mut b, tag_pos(t + 1), w1); } // swapped tags
            7 => put(&mut b, off_pos(k), (vlen as u32).wrapping_add(4 * rng.below(3) as u32)), // at / past the end of the value area
            _ => { let w = (lo + hi) / 2 & !3; put(&mut b, off_pos(k), w.max(lo)); }  // another valid split
        }
        return b;
    }
    let n_mut = rng.range(1, 3);
    for _ in 0..n_mut {
        if nwords == 0 { break; }
        let hdr_words = if nt < 2 { 1 + nt } else { 2 * nt };
        let target = match rng.below(10) {
            0..=1 => 0,                                                  // count word
            2..=5 if nt >= 2 => 1 + rng.below((nt - 1) as u64) as usize, // an offset
            6..=7 if nt >= 1 => (if nt < 2 { 1 } else { nt }) + rng.below(nt as u64) as usize, // a tag
            _ => rng.below(nwords.min(hdr_words + 4) as u64) as usize,
        }.min(nwords - 1);
        let w = interesting(rng, b.len());
        b[target * 4..target * 4 + 4].copy_from_slice(&w.to_le_bytes());
    }
    match rng.below(10) {
        0 => { let k = rng.below(b.len() as u64 + 1) as usize; b.truncate(k); }
        1 => { let n = rng.range(1, 9) as usize; let extra = rng.bytes(n); b.extend(extra); }
        2 if nwords > 2 => { let k = rng.below(nwords as u64) as usize * 4; b.drain(k..k + 4); }
        _ => {}
    }
    b
}

pub fn record(seed: u64, tier: &str, out_path: &str) {
    let mut rng = Rng::new(seed ^ 0xC05);
    let mut out = std::io::BufWriter::new(std::fs::File::create(out_path).expect("create trace"));
    let thorough = tier == "thorough";
    let (n_api, n_mut_per, n_rand, n_big) = if thorough { (1500, 6, 4000, 24) } else { (350, 4, 900, 5) };
    let mut events = 0u64;
    for k in 0..n_api {
        let cap = if k < n_big { 16_000 } else if k % 10 == 0 { 375 } else { 40 };
        let (enc, tags, lens) = match random_api_message(&mut rng, cap) {
            Ok(x) => x,
            Err((why, tags, lens)) => {
                // the builder refused / failed on a well-formed ascending message: an event no spec action allows
                writeln!(out, "{}", json!({"ev": "decode", "kind": "api_build_failed", "why": why, "ws": [], "tail": 0,
                    "obs": {"ok": false, "tags": [], "lens": []}, "api": {"ok": true, "tags": tags, "lens": lens},
                    "panic": false, "concat_ok": true, "reenc_ok": true, "frame_ok": true, "display_ok": true,
                    "nested_undecodable": false})).unwrap();
                events += 1;
                continue;
            }
        };
        writeln!(out, "{}", event_of(&enc, "api", Some((&tags, &lens)))).unwrap();
        events += 1;
        let muts = if k < n_big { 1 } else { n_mut_per };
        for _ in 0..muts {
            let m = mutate(&mut rng, &enc, tags.len());
            writeln!(out, "{}", event_of(&m, "mutant", None)).unwrap();
            events += 1;
        }
    }
    for k in 0..n_rand {
        let len = match k % 8 { 0 => rng.below(16), 1 => rng.below(64) & !3, 2 => rng.below(1600), 3 => 4 * rng.below(300),
            4 if k % 64 == 4 => rng.below(65_537), _ => 4 * rng.below(30) } as usize;
        let mut b = rng.bytes(len);
        // most random strings die at the count word; give many a small count so that decoding goes deeper
        if len >= 4 && rng.chance(3, 4) {
            let nt = rng.below(6) as u32;
            b[..4].copy_from_slice(&nt.to_le_bytes());
            for j in 0..(nt as usize).saturating_sub(1) {
                if 8 + 4 * j <= len && rng.chance(2, 3) { let o = (rng.below(len as u64) as u32) & !3; b[4 + 4 * j..8 + 4 * j].copy_from_slice(&o.to_le_bytes()); }
            }
            for j in 0..nt as usize {
                let p = 4 * (if nt < 2 { 1 } else { nt as usize }) + 4 * j;
                if p + 4 <= len && rng.chance(3, 4) { b[p..p + 4].copy_from_slice(&rc::tag_wire(rng.range(1, 18))); }
            }
        }
        writeln!(out, "{}", event_of(&b, "random", None)).unwrap();
        events += 1;
    }
    // near misses of every known tag: one byte of the tag word differs (set to 00 / ff, case bit, +1, top bit), as the only tag
    // of a message and as the second tag after SIG (or before PAD for SIG itself)
    for r in 1..=18u64 {
        for i in 0..4usize {
            for pert in 0..5 {
                let mut t = rc::tag_wire(r);
                t[i] = match pert { 0 => 0x00, 1 => 0xff, 2 => t[i] ^ 0x20, 3 => t[i].wrapping_add(1), _ => t[i] ^ 0x80 };
                if t == rc::tag_wire(r) { continue; }
                let mut one = vec![1u8, 0, 0, 0]; one.extend_from_slice(&t); one.extend_from_slice(&[1, 2, 3, 4]);
                writeln!(out, "{}", event_of(&one, "nearmiss", None)).unwrap();
                let (a, b) = if r == 1 { (t, rc::tag_wire(18)) } else { (rc::tag_wire(1), t) };
                let mut two = vec![2u8, 0, 0, 0, 4, 0, 0, 0]; two.extend_from_slice(&a); two.extend_from_slice(&b); two.extend_from_slice(&[1, 2, 3, 4, 5, 6, 7, 8]);
                writeln!(out, "{}", event_of(&two, "nearmiss", None)).unwrap();
                events += 2;
            }
        }
    }
    // messages of exactly the largest sizes in scope (65 528, 65 532, 65 536 bytes) with an offset at and around the end of
    // the input and of the value area (narrowed offset types, off-by-one bounds)
    for total in [65_528usize, 65_532, 65_536] {
        for nt in [2usize, 3] {
            let hdr = 8 * nt;
            let vlen = total - hdr;
            for target in [vlen as u32 - 8, vlen as u32 - 4, vlen as u32, vlen as u32 + 4, total as u32 - 4, total as u32, total as u32 + 4, 65_532, 65_536, 65_540] {
                let mut b: Vec<u8> = (nt as u32).to_le_bytes().to_vec();
                for k in 1..nt { let o: u32 = if k == nt - 1 { target } else { 4 }; b.extend_from_slice(&o.to_le_bytes()); }
                for k in 0..nt { b.extend_from_slice(&rc::tag_wire([1u64, 4, 18][k])); }
                b.resize(total, 0x3c);
                writeln!(out, "{}", event_of(&b, "maxsize", None)).unwrap();
                events += 1;
            }
        }
    }
    // many fields: counts beyond the 18 known tags (no such message can be valid) with well-formed offset tables of several
    // shapes, cut off after the offsets, after the tags, or complete
    for nt in (2u32..=40).chain([63, 64, 65, 100, 255, 256, 512, 1023, 1024, 1025]) {
        for shape in 0..3 {
            for cut in 0..3 {
                let mut b: Vec<u8> = nt.to_le_bytes().to_vec();
                for k in 1..nt { let o: u32 = match shape { 0 => 0, 1 => 4 * k, _ => 4 * (k / 2) }; b.extend_from_slice(&o.to_le_bytes()); }
                if cut >= 1 { for k in 0..nt { b.extend_from_slice(&rc::tag_wire(1 + (k as u64 % 18))); } }
                if cut >= 2 { b.extend(std::iter::repeat(0x5au8).take(4 * nt as usize + 8)); }
                writeln!(out, "{}", event_of(&b, "manyfields", None)).unwrap();
                events += 1;
            }
        }
    }
    // nesting: CERT / DELE / SREP inside one another, 1..=40 levels (single-tag levels, and two-tag levels SIG + nested)
    for depth in 1..=40usize {
        for two in [false, true] {
            let mut inner: Vec<u8> = vec![0, 0, 0, 0];
            for lvl in 0..depth {
                let nested = [rc::CERT, rc::DELE, rc::SREP][lvl % 3];
                inner = if two { rc::ref_encode(&[(rc::SIG, vec![7u8; 4]), (nested, inner)]) } else { rc::ref_encode(&[(nested, inner)]) };
            }
            writeln!(out, "{}", event_of(&inner, "nested", None)).unwrap();
            events += 1;
        }
    }
    // the frame magic handed to the MESSAGE decoder (a caller that forgot to strip the frame, a datagram cut short): the bare
    // eight bytes, every prefix of a framed message, the magic twice, the magic in front of an unframed message
    {
        let msg = rc::ref_encode(&[(rc::NONC, vec![5u8; 32]), (rc::PAD, vec![0u8; 8])]);
        let framed = rc::ref_frame(&msg);
        let mut inputs: Vec<Vec<u8>> = (0..=framed.len().min(40)).map(|k| framed[..k].to_vec()).collect();
        inputs.push(framed.clone());
        inputs.push([b"ROUGHTIM".to_vec(), b"ROUGHTIM".to_vec()].concat());
        inputs.push([b"ROUGHTIM".to_vec(), msg.clone()].concat());
        inputs.push([b"ROUGHTIM".to_vec(), vec![0xffu8; 4]].concat());
        for b in inputs {
            writeln!(out, "{}", event_of(&b, "magic", None)).unwrap();
            events += 1;
        }
    }
    // boundary lengths
    for len in [0usize, 1, 2, 3, 4, 5, 7, 8, 65_532, 65_536] {
        let b = vec![0u8; len];
        writeln!(out, "{}", event_of(&b, "boundary", None)).unwrap();
        events += 1;
    }
    out.flush().unwrap();
    println!("{}", json!({"rec": "summary", "events": events}));
}

/// Deeply nested CERT-in-CERT message (each level a single-tag message): Display recursion depth
/// probe, run in a separate process by the check because a stack overflow would abort, not panic.
pub fn deep(depth: u64) {
    let mut bytes: Vec<u8> = vec![0, 0, 0, 0];
    for _ in 0..depth {
        let mut b = vec![1u8, 0, 0, 0];
        b.extend_from_slice(&rc::tag_wire(rc::CERT));
        b.extend_from_slice(&bytes);
        bytes = b;
    }
    let o = observe(&bytes);
    println!("{}", json!({"rec": "deep", "depth": depth, "len": bytes.len(), "accepted": o.ok, "display_ok": o.display_panic.is_none()}));
}
