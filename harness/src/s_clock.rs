//! C11: OnlineKey::make_srep with chosen clocks (Clock.tla). Digit tuples are base 10^6.
use crate::interp::{self, Proto};
use crate::refcodec as rc;
use crate::util::{guarded, unhex, Rng};
use roughenough::key::OnlineKey;
use roughenough::version::Version;
use serde_json::{json, Value};
use std::io::{BufRead, Write};
use std::time::{Duration, UNIX_EPOCH};

const M: u64 = 1_000_000;

fn observe(olk: &mut OnlineKey, olk_pub: &[u8], v: &str, secs: u64, ns: u32) -> Value {
    let (ver, p) = if v == "G" { (Version::Google, Proto::Google) } else { (Version::RfcDraft13, Proto::Ietf) };
    let root: Vec<u8> = interp::sha512(&[&secs.to_le_bytes(), &ns.to_le_bytes()])[..p.width()].to_vec();
    let r = guarded(|| olk.make_srep(ver, UNIX_EPOCH + Duration::new(secs, ns), &root).encode().unwrap());
    let mut e = json!({"ev": "srep", "v": v, "s": [secs / M, secs % M], "ns": ns, "panic": false, "midp": [], "radi": 0, "sig_ok": false, "root_ok": false, "shape_ok": false});
    let bytes = match r { Ok(b) => b, Err(_) => { e["panic"] = json!(true); return e; } };
    let top = match rc::ref_decode(&bytes) { Some(t) => t, None => return e };
    let (sig, srep) = match (rc::get(&top, rc::SIG), rc::get(&top, rc::SREP)) { (Some(a), Some(b)) => (a, b), _ => return e };
    let mut m = p.srep_ctx().to_vec(); m.extend_from_slice(srep);
    e["sig_ok"] = json!(interp::verify_oneshot(olk_pub, &m, sig));
    let sf = match rc::ref_decode(srep) { Some(s) => s, None => return e };
    if let (Some(midp), Some(radi), Some(rt)) = (rc::get(&sf, rc::MIDP), rc::get(&sf, rc::RADI), rc::get(&sf, rc::ROOT)) {
        if midp.len() == 8 && radi.len() == 4 {
            let mv = crate::util::rd64(midp);
            e["midp"] = if v == "G" { json!([mv / (M * M), (mv / M) % M, mv % M]) } else { json!([mv / M, mv % M]) };
            e["radi"] = json!(crate::util::rd32(radi));
            e["root_ok"] = json!(rt == root.as_slice());
            // IETF: VER and VERS are part of the signed response; classic: exactly RADI, MIDP, ROOT
            e["shape_ok"] = json!(if v == "G" { sf.len() == 3 } else { sf.len() == 5 && rc::get(&sf, rc::VER) == Some(&0x8000_000cu32.to_le_bytes()[..]) });
        }
    }
    e
}

pub fn replay(path: &str, out_path: &str) {
    let f = std::fs::File::open(path).expect("open cases");
    let mut out = std::io::BufWriter::new(std::fs::File::create(out_path).expect("create trace"));
    // the zone the server process happens to run in is not part of the signed time: the whole replay runs in a zone with a
    // half-hour offset
    std::env::set_var("TZ", "IST-5:30");
    let mut olk = OnlineKey::new();
    let olk_pub = unhex(&format!("{}", olk));
    let mut n = 0u64;
    for line in std::io::BufReader::new(f).lines() {
        let c: Value = match serde_json::from_str(&line.unwrap()) { Ok(v) => v, Err(_) => continue };
        let secs = c["s"][0].as_u64().unwrap() * M + c["s"][1].as_u64().unwrap();
        let e = observe(&mut olk, &olk_pub, c["v"].as_str().unwrap(), secs, c["ns"].as_u64().unwrap() as u32);
        writeln!(out, "{}", e).unwrap();
        n += 1;
    }
    out.flush().unwrap();
    println!("{}", json!({"rec": "summary", "executions": n}));
}

pub fn record(seed: u64, tier: &str, out_path: &str) {
    let mut rng = Rng::new(seed ^ 0xC11);
    let mut out = std::io::BufWriter::new(std::fs::File::create(out_path).expect("create trace"));
    let n = if tier == "thorough" { 100_000 } else { 12_000 };
    let mut olk = OnlineKey::new();
    let mut olk_pub = unhex(&format!("{}", olk));
    // (the process's time zone rotates: daylight-saving rules, a half-hour offset, far east, UTC, unset)
    let zones = ["EST5EDT,M3.2.0,M11.1.0", "IST-5:30", "NZST-12NZDT,M9.5.0,M4.1.0/3", "UTC0", ""];
    for k in 0..n {
        if k % 1000 == 0 { let z = zones[(k / 1000) % zones.len()]; if z.is_empty() { std::env::remove_var("TZ"); } else { std::env::set_var("TZ", z); } }
        if k % 2000 == 1999 { olk = OnlineKey::new(); olk_pub = unhex(&format!("{}", olk)); }
        // from the epoch to beyond year 2200, denser around 32-bit boundaries and now
        let secs = match rng.below(8) { 0 => rng.below(1 << 33), 1 => (1u64 << 32) - 50 + rng.below(100), 2 => (1u64 << 31) - 50 + rng.below(100),
            3 => 1_790_000_000 + rng.below(100_000_000), 4 => rng.below(10_000), 5 => 7_258_118_400 + rng.below(1 << 31), _ => rng.below(253_402_300_800) };
        let ns = match rng.below(6) { 0 => 0, 1 => 999_999_999, 2 => 1000 * rng.below(1_000_000) as u32, 3 => 1000 * rng.below(1_000_000) as u32 + 999, _ => rng.below(1_000_000_000) as u32 };
        let e = observe(&mut olk, &olk_pub, if k % 2 == 0 { "G" } else { "I" }, secs, ns);
        writeln!(out, "{}", e).unwrap();
    }
    out.flush().unwrap();
    println!("{}", json!({"rec": "summary", "events": n}));
}
