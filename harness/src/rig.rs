//! In-process rig: a REAL roughenough::server::Server on a loopback UDP socket, harness client
//! sockets, the verification hooks' tracer, a capturing logger, and the observation of every
//! reply through the interpretation `I` (proto.rs).
use crate::interp::{self, Proto};
use crate::proto::{self, RespFacts};
use crate::util::guarded;
use mio::net::UdpSocket as MioUdp;
use mio::Events;
use roughenough::config::MemoryConfig;
use roughenough::server::Server;
use roughenough::stats::StatsQueue;
use roughenough::verif;
use serde_json::{json, Value};
use std::cell::RefCell;
use std::collections::HashMap;
use std::net::{SocketAddr, UdpSocket};
use std::rc::Rc;
use std::sync::atomic::{AtomicUsize, Ordering};
use std::sync::{Arc, Mutex};
use std::time::{SystemTime, UNIX_EPOCH};

// ---------------------------------------------------------------------------- logger

static LOG_LEVEL: AtomicUsize = AtomicUsize::new(0); // 0 Off .. 5 Trace
static LOG_CAPTURE: Mutex<Vec<(usize, String, String)>> = Mutex::new(Vec::new());

struct CaptureLogger;

impl log::Log for CaptureLogger {
    fn enabled(&self, m: &log::Metadata) -> bool { (m.level() as usize) <= LOG_LEVEL.load(Ordering::Relaxed) }
    fn log(&self, r: &log::Record) {
        if !self.enabled(r.metadata()) { return; }
        // formatting the arguments is the point: lazily evaluated arguments run here
        let text = format!("{}", r.args());
        if let Ok(mut v) = LOG_CAPTURE.lock() {
            if v.len() < 200_000 { v.push((r.level() as usize, format!("{}:{}", r.file().unwrap_or("?"), r.line().unwrap_or(0)), text)); }
        }
    }
    fn flush(&self) {}
}

static LOGGER: CaptureLogger = CaptureLogger;

pub fn install_logger() {
    let _ = log::set_logger(&LOGGER);
    log::set_max_level(log::LevelFilter::Trace);
}

pub fn level_name(l: usize) -> &'static str { ["Off", "Error", "Warn", "Info", "Debug", "Trace"][l.min(5)] }

pub fn set_log_level(l: usize) {
    LOG_LEVEL.store(l, Ordering::Relaxed);
    log::set_max_level(match l { 0 => log::LevelFilter::Off, 1 => log::LevelFilter::Error, 2 => log::LevelFilter::Warn,
        3 => log::LevelFilter::Info, 4 => log::LevelFilter::Debug, _ => log::LevelFilter::Trace });
}

pub fn take_logs() -> Vec<(usize, String, String)> {
    LOG_CAPTURE.lock().map(|mut v| std::mem::take(&mut *v)).unwrap_or_default()
}

// ---------------------------------------------------------------------------- secrets scan

pub struct Secrets { needles: Vec<Vec<u8>> }

impl Secrets {
    pub fn new(seed: &[u8]) -> Secrets {
        use sha2::{Digest, Sha512};
        // a raw needle must have some variety, or ordinary protocol fields (zero padding nodes, MINT = 0,
        // MAXT = ff..ff) would "contain" a degenerate seed such as all-zero
        let varied = |v: &[u8]| { let mut seen = [false; 256]; for b in v { seen[*b as usize] = true; } seen.iter().filter(|x| **x).count() >= 8 };
        let mut needles: Vec<Vec<u8>> = vec![];
        if varied(seed) { needles.push(seed.to_vec()); }
        // the Ed25519 private scalar derived from the seed (RFC 8032: clamped low half of SHA-512(seed))
        let h = Sha512::digest(seed);
        let mut scalar = h[..32].to_vec();
        scalar[0] &= 248; scalar[31] &= 127; scalar[31] |= 64;
        needles.push(scalar.clone());
        needles.push(h[..32].to_vec());
        let raw: Vec<Vec<u8>> = needles.clone();
        for n in raw {
            let hx = crate::util::hex(&n);
            needles.push(hx.clone().into_bytes());
            needles.push(hx.to_uppercase().into_bytes());
            needles.push(b64(&n, false).into_bytes());
            needles.push(b64(&n, true).into_bytes());
        }
        Secrets { needles }
    }
    pub fn found_in(&self, hay: &[u8]) -> bool {
        self.needles.iter().any(|n| {
            // base64 needles: compare without padding and allow the 3 alignments by searching the core
            hay.len() >= n.len() && hay.windows(n.len()).any(|w| w == n.as_slice())
        })
    }
}

fn b64(data: &[u8], urlsafe: bool) -> String {
    let abc: &[u8] = if urlsafe { b"ABCDEFGHIJKLMNOPQRSTUVWXYZabcdefghijklmnopqrstuvwxyz0123456789-_" } else { b"ABCDEFGHIJKLMNOPQRSTUVWXYZabcdefghijklmnopqrstuvwxyz0123456789+/" };
    let mut s = String::new();
    for c in data.chunks(3) {
        let n = (c[0] as u32) << 16 | (*c.get(1).unwrap_or(&0) as u32) << 8 | *c.get(2).unwrap_or(&0) as u32;
        s.push(abc[(n >> 18) as usize & 63] as char);
        s.push(abc[(n >> 12) as usize & 63] as char);
        if c.len() > 1 { s.push(abc[(n >> 6) as usize & 63] as char); }
        if c.len() > 2 { s.push(abc[n as usize & 63] as char); }
    }
    s   // unpadded: a padded encoding contains it
}

// ---------------------------------------------------------------------------- the rig

#[derive(Clone)]
pub struct RigCfg { pub batch: u8, pub fault: u8, pub seed: Vec<u8>, pub client_stats: bool, pub level: usize, pub n_clients: usize, pub hc: bool }

/// pseudo socket index: the datagram is sent through a raw socket with SOURCE PORT 0, an address the
/// operating system refuses to send to (send_to fails with EINVAL): the server's send-failure path
pub const UNROUTABLE: usize = 9999;

pub struct Sent { pub id: usize, pub sock: usize, pub bytes: Vec<u8>, pub features: Value, pub nonce: Option<Vec<u8>>, pub t_sent_ns: u128 }

pub struct Rig {
    pub cfg: RigCfg,
    server: Option<Server>,
    events: Events,
    pub addr: SocketAddr,
    pub clients: Vec<UdpSocket>,
    pub ltk_pub: [u8; 32],
    pub srv: Vec<u8>,
    pub secrets: Secrets,
    hooks: Rc<RefCell<Vec<verif::Event>>>,
    inject: Rc<RefCell<HashMap<(String, usize), Vec<(usize, Vec<u8>)>>>>,   // (hook event name, ordinal) -> datagrams to send right then
    counts: Rc<RefCell<HashMap<String, usize>>>,
    recv_count: Rc<RefCell<usize>>,
    pub root_ids: HashMap<Vec<u8>, usize>,
    pub key_ids: HashMap<Vec<u8>, usize>,
    pub announced_key: String,
    pub drifted: usize,
    /// (socket, first 16 bytes, time) of every datagram the tracer injected in this pump
    pub injected_at: Rc<RefCell<Vec<(usize, Vec<u8>, u128)>>>,
    /// sleep this many milliseconds at every recv hook (slow-drain scenarios)
    pub recv_sleep_ms: Rc<std::cell::Cell<u64>>,
    /// health-check listener port of the in-process server, connections made by the harness, planned connects
    pub hc_port: Option<u16>,
    pub hc_streams: Rc<RefCell<Vec<std::net::TcpStream>>>,
    inject_tcp: Rc<RefCell<HashMap<(String, usize), Vec<bool>>>>,
    /// raw IPPROTO_UDP socket (needs CAP_NET_RAW; -1 if it could not be created)
    raw_fd: libc::c_int,
    /// the statistics queue the server publishes to
    stats_queue: Arc<StatsQueue>,
}

/// a UDP datagram to 127.0.0.1:`port` whose source port is 0 (hand-made UDP header, checksum 0 = none)
fn send_unroutable_raw(raw_fd: libc::c_int, port: u16, bytes: &[u8]) -> bool {
    if raw_fd < 0 { return false; }
    let mut pkt = Vec::with_capacity(8 + bytes.len());
    pkt.extend_from_slice(&0u16.to_be_bytes());
    pkt.extend_from_slice(&port.to_be_bytes());
    pkt.extend_from_slice(&((8 + bytes.len()) as u16).to_be_bytes());
    pkt.extend_from_slice(&0u16.to_be_bytes());
    pkt.extend_from_slice(bytes);
    let mut sa: libc::sockaddr_in = unsafe { std::mem::zeroed() };
    sa.sin_family = libc::AF_INET as libc::sa_family_t;
    sa.sin_addr.s_addr = u32::from_ne_bytes([127, 0, 0, 1]);
    let n = unsafe { libc::sendto(raw_fd, pkt.as_ptr() as *const libc::c_void, pkt.len(), 0,
                                  &sa as *const libc::sockaddr_in as *const libc::sockaddr, std::mem::size_of::<libc::sockaddr_in>() as libc::socklen_t) };
    n == pkt.len() as isize
}

// ---------------------------------------------------------------------------- watchdog
// The rig calls Server::process_events on the harness's own thread. A worker that never returns (a loop that spins on an
// error, a blocking call) would hang the harness: the watchdog notices that one call has lasted longer than HANG_MS, appends
// a `pumped` event with wedged = true (and hung = true) to the trace, prints the summary line and ends the process normally,
// so that the trace is decided by TLC like any other ("wedged").
static PUMP_STARTED_MS: std::sync::atomic::AtomicU64 = std::sync::atomic::AtomicU64::new(0);
const HANG_MS: u64 = 25_000;

fn epoch_ms() -> u64 { crate::util::mono_ms() }
fn call_begins() { PUMP_STARTED_MS.store(epoch_ms(), Ordering::SeqCst); }
fn call_ended() { PUMP_STARTED_MS.store(0, Ordering::SeqCst); }

pub fn start_watchdog(trace_path: &str) {
    let path = trace_path.to_string();
    std::thread::spawn(move || loop {
        std::thread::sleep(std::time::Duration::from_millis(500));
        let t0 = PUMP_STARTED_MS.load(Ordering::SeqCst);
        if t0 != 0 && epoch_ms() > t0 + HANG_MS {
            use std::io::Write;
            if let Ok(mut f) = std::fs::OpenOptions::new().append(true).open(&path) {
                let _ = writeln!(f, "{}", json!({"ev": "pumped", "panic": false, "panic_msg": "", "wedged": true, "hung": true, "unconsumed": 0,
                                              "note": format!("Server::process_events did not return within {} ms", HANG_MS)}));
                let _ = writeln!(f, "{}", json!({"ev": "round_end"}));
            }
            println!("{}", json!({"rec": "summary", "events": 0, "rounds": 0, "replies": 0, "replayed": 0, "dropped_rounds": 0, "hung": true}));
            std::process::exit(0);
        }
    });
}

fn hc_connect_one(port: u16, aborted: bool, streams: &Rc<RefCell<Vec<std::net::TcpStream>>>) {
    if let Ok(s) = std::net::TcpStream::connect(("127.0.0.1", port)) {
        if aborted {
            // SO_LINGER {on, 0}: close() sends RST instead of FIN
            use std::os::unix::io::AsRawFd;
            let l = libc::linger { l_onoff: 1, l_linger: 0 };
            unsafe { libc::setsockopt(s.as_raw_fd(), libc::SOL_SOCKET, libc::SO_LINGER, &l as *const libc::linger as *const libc::c_void, std::mem::size_of::<libc::linger>() as libc::socklen_t); }
            drop(s);
        } else {
            streams.borrow_mut().push(s);
        }
    }
}

fn now_ns() -> u128 { SystemTime::now().duration_since(UNIX_EPOCH).unwrap().as_nanos() }

impl Rig {
    pub fn new(cfg: RigCfg) -> Result<Rig, String> {
        set_log_level(cfg.level);
        let std_sock = UdpSocket::bind("127.0.0.1:0").map_err(|e| e.to_string())?;
        // large receive buffer: bursts of the drivers must not be dropped by the kernel
        unsafe {
            use std::os::unix::io::AsRawFd;
            let sz: libc::c_int = 16 * 1024 * 1024;
            let p = &sz as *const libc::c_int as *const libc::c_void;
            if libc::setsockopt(std_sock.as_raw_fd(), libc::SOL_SOCKET, libc::SO_RCVBUFFORCE, p, 4) != 0 {
                libc::setsockopt(std_sock.as_raw_fd(), libc::SOL_SOCKET, libc::SO_RCVBUF, p, 4);
            }
        }
        let sock = MioUdp::from_socket(std_sock).map_err(|e| e.to_string())?;
        let addr = sock.local_addr().map_err(|e| e.to_string())?;
        let mut mc = MemoryConfig::new(addr.port());
        mc.batch_size = cfg.batch;
        mc.fault_percentage = cfg.fault;
        mc.seed = cfg.seed.clone();
        mc.client_stats = cfg.client_stats;
        mc.num_workers = 1;
        let hc_port = if cfg.hc { Some(std::net::TcpListener::bind("127.0.0.1:0").map_err(|e| e.to_string())?.local_addr().unwrap().port()) } else { None };
        mc.health_check_port = hc_port;
        let queue = Arc::new(StatsQueue::new(4));
        let stats_queue = queue.clone();
        let server = guarded(|| Server::new(&mc, sock, queue)).map_err(|p| format!("Server::new panicked: {}", p))?;
        let announced_key = server.get_public_key().to_string();
        let seed32: [u8; 32] = cfg.seed.clone().try_into().map_err(|_| "seed must be 32 bytes".to_string())?;
        let ltk_pub = interp::pk_of_seed(&seed32);
        let srv = interp::srv_of_pk(&ltk_pub);
        let mut clients = Vec::new();
        for i in 0..cfg.n_clients {
            // distinct loopback source addresses so that per-client statistics see distinct clients
            let ip = format!("127.0.0.{}:0", 1 + (i % 200));
            let c = UdpSocket::bind(&ip).map_err(|e| e.to_string())?;
            c.set_nonblocking(true).map_err(|e| e.to_string())?;
            clients.push(c);
        }
        let hooks = Rc::new(RefCell::new(Vec::new()));
        let inject: Rc<RefCell<HashMap<(String, usize), Vec<(usize, Vec<u8>)>>>> = Rc::new(RefCell::new(HashMap::new()));
        let counts: Rc<RefCell<HashMap<String, usize>>> = Rc::new(RefCell::new(HashMap::new()));
        let recv_count = Rc::new(RefCell::new(0usize));
        let rig = Rig { secrets: Secrets::new(&cfg.seed), cfg, server: Some(server), events: Events::with_capacity(1024), addr, clients, ltk_pub, srv,
            hooks, inject, counts, recv_count, root_ids: HashMap::new(), key_ids: HashMap::new(), announced_key, drifted: 0, injected_at: Rc::new(RefCell::new(Vec::new())), recv_sleep_ms: Rc::new(std::cell::Cell::new(0)),
            hc_port, hc_streams: Rc::new(RefCell::new(Vec::new())), inject_tcp: Rc::new(RefCell::new(HashMap::new())),
            raw_fd: unsafe { libc::socket(libc::AF_INET, libc::SOCK_RAW, libc::IPPROTO_UDP) }, stats_queue };
        rig.install_tracer();
        Ok(rig)
    }

    fn install_tracer(&self) {
        let hooks = self.hooks.clone();
        let inject = self.inject.clone();
        let recv_count = self.recv_count.clone();
        let counts = self.counts.clone();
        let injected_at = self.injected_at.clone();
        let recv_sleep = self.recv_sleep_ms.clone();
        let inject_tcp = self.inject_tcp.clone();
        let hc_streams = self.hc_streams.clone();
        let hc_port = self.hc_port;
        let socks: Vec<UdpSocket> = self.clients.iter().map(|c| c.try_clone().unwrap()).collect();
        let addr = self.addr;
        let raw_fd = self.raw_fd;
        verif::set_tracer(Some(Box::new(move |e: &verif::Event| {
            if e.name == "recv" { *recv_count.borrow_mut() += 1; }
            let n = { let mut c = counts.borrow_mut(); let x = c.entry(e.name.to_string()).or_insert(0); *x += 1; *x };
            if e.name == "recv" && recv_sleep.get() > 0 { std::thread::sleep(std::time::Duration::from_millis(recv_sleep.get())); }
            if let Some(list) = inject.borrow_mut().remove(&(e.name.to_string(), n)) {
                for (s, bytes) in list {
                    injected_at.borrow_mut().push((s, bytes[..bytes.len().min(48)].to_vec(), now_ns()));
                    if s == UNROUTABLE { send_unroutable_raw(raw_fd, addr.port(), &bytes); } else { let _ = socks[s].send_to(&bytes, addr); }
                }
            }
            if let Some(list) = inject_tcp.borrow_mut().remove(&(e.name.to_string(), n)) {
                if let Some(p) = hc_port { for aborted in list { hc_connect_one(p, aborted, &hc_streams); } }
            }
            hooks.borrow_mut().push(e.clone());
        })));
    }

    pub fn send(&self, sock: usize, bytes: &[u8]) -> bool {
        if sock == UNROUTABLE { return self.send_unroutable(bytes); }
        self.clients[sock].send_to(bytes, self.addr).is_ok()
    }

    pub fn can_spoof(&self) -> bool { self.raw_fd >= 0 }

    fn send_unroutable(&self, bytes: &[u8]) -> bool { send_unroutable_raw(self.raw_fd, self.addr.port(), bytes) }

    /// schedule datagrams to be sent at the moment the server has received its k-th datagram of this pump
    pub fn plan_injection(&self, at_recv: usize, sock: usize, bytes: Vec<u8>) {
        self.plan_injection_at("recv", at_recv, sock, bytes);
    }

    /// ... or at the n-th occurrence (within this pump) of any hook event: "recv", "recv_empty", "evt", ...
    pub fn plan_injection_at(&self, hook: &str, n: usize, sock: usize, bytes: Vec<u8>) {
        self.inject.borrow_mut().entry((hook.to_string(), n)).or_default().push((sock, bytes));
    }

    /// Let the worker process until it has consumed `expect` datagrams or goes idle.
    /// Returns (panic message, wedged, consumed).
    pub fn pump(&mut self, expect: usize) -> (Option<String>, bool, usize) {
        *self.recv_count.borrow_mut() = 0;
        self.counts.borrow_mut().clear();
        self.injected_at.borrow_mut().clear();
        let mut panic = None;
        let mut wedged = false;
        let mut rounds = 0;
        loop {
            let before = *self.recv_count.borrow();
            let server = match self.server.as_mut() { Some(s) => s, None => { panic = Some("server gone".to_string()); break; } };
            let events = &mut self.events;
            call_begins();
            let r = guarded(|| server.process_events(events));
            call_ended();
            if let Err(p) = r { panic = Some(p); break; }
            let after = *self.recv_count.borrow();
            rounds += 1;
            if after >= expect { break; }
            if after == before {
                // idle: injections whose hook point never came up are delivered now (the schedule drifted from
                // the specification's hook structure; the datagrams must still all be judged)
                let pending: Vec<(usize, Vec<u8>)> = self.inject.borrow_mut().drain().flat_map(|(_, v)| v).collect();
                if !pending.is_empty() {
                    self.drifted += pending.len();
                    for (s, b) in pending { let _ = self.send(s, &b); }
                    continue;
                }
                wedged = true;   // went idle (poll timed out) with datagrams outstanding
                break;
            }
            if rounds > 10_000 { wedged = true; break; }
        }
        let consumed = *self.recv_count.borrow();
        self.inject.borrow_mut().clear();
        (panic, wedged, consumed)
    }

    /// bytes still queued on the server's socket according to the kernel (/proc/net/udp rx_queue)
    pub fn server_rx_queue(&self) -> u64 {
        let want = format!(":{:04X}", self.addr.port());
        if let Ok(t) = std::fs::read_to_string("/proc/net/udp") {
            for line in t.lines().skip(1) {
                let f: Vec<&str> = line.split_whitespace().collect();
                if f.len() > 4 && f[1].ends_with(&want) {
                    if let Some(rx) = f[4].split(':').nth(1) { return u64::from_str_radix(rx, 16).unwrap_or(0); }
                }
            }
        }
        0
    }

    /// make `k` TCP connections to the health-check port now
    pub fn hc_connect(&self, k: usize) {
        if let Some(p) = self.hc_port { for _ in 0..k { hc_connect_one(p, false, &self.hc_streams); } }
    }
    /// one connection; `aborted`: the peer resets it (RST) right away, while it still waits in the accept queue
    pub fn hc_connect_kind(&self, aborted: bool) {
        if let Some(p) = self.hc_port { hc_connect_one(p, aborted, &self.hc_streams); }
    }
    /// ... or at the n-th occurrence of a hook event during the next pumping
    pub fn plan_hc_connect_at(&self, hook: &str, n: usize, aborted: bool) { self.inject_tcp.borrow_mut().entry((hook.to_string(), n)).or_default().push(aborted); }

    /// let the worker run until it is idle (one poll timed out without any hook activity); returns panic message
    pub fn pump_until_idle(&mut self) -> Option<String> {
        self.counts.borrow_mut().clear();
        loop {
            let before = self.hooks.borrow().len();
            let server = self.server.as_mut()?;
            let events = &mut self.events;
            call_begins();
            let r = guarded(|| server.process_events(events));
            call_ended();
            if let Err(p) = r { return Some(p); }
            let new: usize = self.hooks.borrow()[before..].iter().filter(|e| e.name != "poll" && e.name != "pe_return").count();
            if new == 0 {
                // connects planned at hook points that never came up are made now, then one more pass
                let pending: Vec<bool> = self.inject_tcp.borrow_mut().drain().flat_map(|(_, k)| k).collect();
                if !pending.is_empty() { self.drifted += pending.len(); for a in pending { self.hc_connect_kind(a); } continue; }
                return None;
            }
        }
    }

    /// read what the health-check connections received; returns (connections, answered with exactly the fixed 200 response)
    pub fn hc_collect(&self) -> (usize, usize) {
        use std::io::Read;
        let expect = b"HTTP/1.1 200 OK\nContent-Length: 0\nConnection: close\n\n";
        let streams: Vec<std::net::TcpStream> = self.hc_streams.borrow_mut().drain(..).collect();
        let n = streams.len();
        let mut ok = 0;
        for mut s in streams {
            let _ = s.set_read_timeout(Some(std::time::Duration::from_millis(30)));
            let mut text = Vec::new();
            let mut buf = [0u8; 128];
            loop { match s.read(&mut buf) { Ok(0) => break, Ok(k) => text.extend_from_slice(&buf[..k]), Err(_) => break } }
            if text == expect { ok += 1; }
        }
        (n, ok)
    }

    pub fn take_hooks(&self) -> Vec<verif::Event> { std::mem::take(&mut *self.hooks.borrow_mut()) }

    pub fn drain(&self) -> Vec<(usize, Vec<u8>)> {
        let mut out = Vec::new();
        let mut buf = vec![0u8; 70_000];
        for (i, c) in self.clients.iter().enumerate() {
            loop {
                match c.recv_from(&mut buf) {
                    Ok((n, _)) => out.push((i, buf[..n].to_vec())),
                    Err(_) => break,
                }
            }
        }
        out
    }

    pub fn client_port(&self, i: usize) -> u16 { self.clients[i].local_addr().unwrap().port() }

    pub fn stats_event(&self) -> Value {
        match self.server.as_ref() {
            Some(s) => {
                let st = s.verif_stats();
                json!({"ev": "stats", "valid": st.total_valid_requests(), "invalid": st.total_invalid_requests(),
                       "responses": st.total_responses_sent(), "bytes": st.total_bytes_sent(), "failed": st.total_failed_send_attempts(),
                       "rfc": st.num_rfc_requests(), "classic": st.num_classic_requests()})
            }
            None => json!({"ev": "stats", "valid": 0, "invalid": 0, "responses": 0, "bytes": 0}),
        }
    }

    /// run the status timer's step (Server::send_client_stats) on the real server, then pop everything its queue holds
    pub fn publish_event(&mut self) -> Value { self.publish_step(true) }

    /// ... `drain` = false: the queue is left as it is (a reporter that is slow or stalled), so that it fills up
    pub fn publish_step(&mut self, drain: bool) -> Value {
        let panic = match self.server.as_mut() { Some(s) => guarded(|| s.verif_send_client_stats()).err(), None => Some("server gone".to_string()) };
        let (mut snapshots, mut entries) = (0u64, 0u64);
        let mut sum = [0u64; 5];   // valid, invalid, responses, bytes, failed
        while let Some(list) = if drain { self.stats_queue.pop() } else { None } {
            snapshots += 1;
            for c in list {
                entries += 1;
                sum[0] += c.rfc_requests as u64 + c.classic_requests as u64;
                sum[1] += c.invalid_requests as u64;
                sum[2] += c.rfc_responses_sent as u64 + c.classic_responses_sent as u64;
                sum[3] += c.bytes_sent as u64;
                sum[4] += c.failed_send_attempts as u64;
            }
        }
        let post_zero = match self.server.as_ref() { Some(s) => { let st = s.verif_stats(); st.total_valid_requests() == 0 && st.total_invalid_requests() == 0 && st.total_responses_sent() == 0 && st.total_unique_clients() == 0 }, None => false };
        json!({"ev": "publish", "client_stats": self.cfg.client_stats, "drain": drain, "qcap": 4, "panic": panic.is_some(), "panic_msg": panic.clone().unwrap_or_default(), "snapshots": snapshots, "entries": entries,
               "valid": sum[0], "invalid": sum[1], "responses": sum[2], "bytes": sum[3], "failed": sum[4], "post_zero": post_zero})
    }

    pub fn server_mut(&mut self) -> Option<&mut Server> { self.server.as_mut() }

    /// Observe one reply datagram: all facts the specification needs, computed by `I`.
    pub fn reply_event(&mut self, sock: usize, bytes: &[u8], round: &[Sent], t_before_ns: u128, t_after_ns: u128, greased: bool) -> Value {
        let mut fc = FactCtx { ltk_pub: self.ltk_pub, secrets: &self.secrets, root_ids: &mut self.root_ids, key_ids: &mut self.key_ids };
        fc.reply_event(sock, bytes, round, t_before_ns, t_after_ns, greased)
    }
}

/// what is needed to turn a reply datagram into facts (shared by the in-process rig and the process-level suites)
pub struct FactCtx<'a> {
    pub ltk_pub: [u8; 32],
    pub secrets: &'a Secrets,
    pub root_ids: &'a mut HashMap<Vec<u8>, usize>,
    pub key_ids: &'a mut HashMap<Vec<u8>, usize>,
}

impl<'a> FactCtx<'a> {
    /// `round`: the datagrams sent in this round (ids are 1-based positions).
    pub fn reply_event(&mut self, sock: usize, bytes: &[u8], round: &[Sent], t_before_ns: u128, t_after_ns: u128, greased: bool) -> Value {
        let rf: RespFacts = proto::parse_response(bytes);
        let p = rf.proto();
        let other = if p == Proto::Google { Proto::Ietf } else { Proto::Google };
        let mut nonce_reqs = vec![];
        let mut proof_reqs = vec![];
        for s in round {
            if let (Some(n), Some(rn)) = (&s.nonce, &rf.nonce) { if n == rn && s.sock == sock { nonce_reqs.push(s.id); } }
            if let Some(n) = &s.nonce {
                let sp = if s.features["magic"] == true { Proto::Ietf } else { Proto::Google };
                if sp == p && rf.proves(&proto::leaf_data(p, &s.bytes, n)) { proof_reqs.push(s.id); }
            }
        }
        // clock bracket in the protocol's unit; radius five seconds in that unit. Lower bound: the batch was
        // signed after the request it answers was sent (if the reply echoes a nonce of this round)
        let t_before_ns = nonce_reqs.first().and_then(|id| round.iter().find(|s| s.id == *id)).map(|s| s.t_sent_ns).filter(|t| *t > 0).unwrap_or(t_before_ns);
        let (time_ok, radi_ok) = if rf.parse == "ok" {
            match p {
                Proto::Google => {
                    let lo = (t_before_ns / 1000) as i128 - rf.radi as i128;
                    let hi = (t_after_ns / 1000) as i128 + rf.radi as i128;
                    ((rf.midp as i128) >= lo && (rf.midp as i128) <= hi, rf.radi == 5_000_000)
                }
                Proto::Ietf => {
                    let lo = (t_before_ns / 1_000_000_000) as i128 - rf.radi as i128;
                    let hi = (t_after_ns / 1_000_000_000) as i128 + rf.radi as i128;
                    ((rf.midp as i128) >= lo && (rf.midp as i128) <= hi, rf.radi == 5)
                }
            }
        } else { (false, false) };
        let cert_ok = rf.cert_ok_under(&self.ltk_pub, p);
        let cert_other = rf.cert_ok_under(&self.ltk_pub, other);
        let srep_ok = rf.srep_ok();
        let n_roots = self.root_ids.len();
        let root_id = *self.root_ids.entry(rf.srep.clone()).or_insert(n_roots + 1);
        let n_keys = self.key_ids.len();
        let key_id = if rf.parse == "ok" { *self.key_ids.entry(rf.pubk.clone()).or_insert(n_keys + 1) } else { 0 };
        // does it verify in full for the (single) request this socket sent in this round?
        let own: Vec<&Sent> = round.iter().filter(|s| s.sock == sock).collect();
        let full = rf.parse == "ok" && cert_ok && srep_ok && rf.window_ok() && rf.ver_ok() && (p == Proto::Google || rf.frame_ok)
            && own.iter().any(|s| proof_reqs.contains(&s.id) && (rf.nonce.is_none() && p == Proto::Google || nonce_reqs.contains(&s.id)));
        json!({"ev": "reply", "sock": sock, "len": bytes.len(), "parse": rf.parse, "v": p.tag(), "frame_ok": rf.frame_ok,
               "nonce_reqs": nonce_reqs, "proof_reqs": proof_reqs, "has_nonce": rf.nonce.is_some(),
               "cert_ok": cert_ok, "cert_other": cert_other, "srep_ok": srep_ok, "window_ok": rf.window_ok(), "ver_ok": rf.ver_ok(),
               "pathlen": if rf.parse == "ok" { rf.path_elems() } else { 0 }, "indx": if rf.indx > 1_000_000 { 1_000_000 } else { rf.indx },
               "time_ok": time_ok, "radi_ok": radi_ok, "greased": greased, "leak": self.secrets.found_in(bytes),
               "root_id": root_id, "key_id": key_id, "fails": !full})
    }
}

impl Drop for Rig {
    fn drop(&mut self) { verif::set_tracer(None); if self.raw_fd >= 0 { unsafe { libc::close(self.raw_fd); } } }
}

pub fn now() -> u128 { now_ns() }
