//! In-process server suites (C02, C07, C08, C09, C10, C11, C12, C17-wiring, C20): drivers that put
//! traffic on a REAL Server through the rig and write the observation trace for Trace_Server.tla.
use crate::interp::{self, Proto};
use crate::proto;
use crate::refcodec as rc;
use crate::rig::{self, Rig, RigCfg, Sent};
use crate::util::{hex, unhex, Rng};
use serde_json::{json, Value};
use std::io::{BufRead, Write};

pub const DEFAULT_SEED: &str = "a32049da0ffde0ded92ce10a0230d35fe615ec8461c14986baa63fe3b3bac3db";
type Out = std::io::BufWriter<std::fs::File>;

pub struct Ctx { pub out: Out, pub events: u64, pub rounds: u64, pub replies: u64, pub dropped_rounds: u64 }

impl Ctx {
    pub fn new(path: &str) -> Ctx { Ctx { out: std::io::BufWriter::new(std::fs::File::create(path).expect("create trace")), events: 0, rounds: 0, replies: 0, dropped_rounds: 0 } }
    /// every event reaches the file at once: if the worker never returns from process_events the watchdog ends the run and
    /// the trace must be complete up to that point
    pub fn emit(&mut self, v: Value) { writeln!(self.out, "{}", v).unwrap(); self.out.flush().unwrap(); self.events += 1; }
}

pub fn cfg(batch: u8, fault: u8, level: usize, n_clients: usize) -> RigCfg {
    RigCfg { batch, fault, seed: unhex(DEFAULT_SEED), client_stats: false, level, n_clients, hc: false }
}

pub fn new_section(ctx: &mut Ctx, c: RigCfg) -> Option<Rig> {
    match Rig::new(c.clone()) {
        Ok(r) => {
            let announced_ok = r.announced_key == hex(&r.ltk_pub);
            ctx.emit(json!({"ev": "new", "batch": c.batch, "fault": c.fault, "level": rig::level_name(c.level), "announced_ok": announced_ok,
                            "client_stats": c.client_stats}));
            Some(r)
        }
        Err(e) => { ctx.emit(json!({"ev": "new", "batch": c.batch, "fault": c.fault, "level": rig::level_name(c.level), "announced_ok": false, "error": e})); None }
    }
}

pub fn valid_request(rng: &mut Rng, p: Proto, size: usize, srv: Option<&[u8]>) -> Vec<u8> {
    let nonce = rng.bytes(if p == Proto::Google { 64 } else { 32 });
    proto::build_request(p, &nonce, size, &[proto::VER_DRAFT13], srv)
}

/// One round: initial datagrams, optional injections at "after the k-th recv", pump, observe.
pub fn run_round(ctx: &mut Ctx, rig: &mut Rig, sends: Vec<(usize, Vec<u8>)>, injections: Vec<(usize, usize, Vec<u8>)>, want_logs: bool) {
    let inj: Vec<(String, usize, usize, Vec<u8>)> = injections.into_iter().map(|(n, s, b)| ("recv".to_string(), n, s, b)).collect();
    run_round_at(ctx, rig, sends, inj, want_logs)
}

/// as run_round, with injections at arbitrary hook points (hook name, ordinal, socket, datagram)
pub fn run_round_at(ctx: &mut Ctx, rig: &mut Rig, sends: Vec<(usize, Vec<u8>)>, injections: Vec<(String, usize, usize, Vec<u8>)>, want_logs: bool) {
    ctx.emit(json!({"ev": "round"}));
    ctx.rounds += 1;
    let mut round: Vec<Sent> = Vec::new();
    let mut all: Vec<(usize, Vec<u8>)> = sends.clone();
    for (_, _, s, b) in &injections { all.push((*s, b.clone())); }
    for (i, (s, b)) in all.iter().enumerate() {
        round.push(Sent { id: i + 1, sock: *s, bytes: b.clone(), features: proto::request_features(b, &rig.srv), nonce: proto::request_nonce(b), t_sent_ns: 0 });
    }
    let _ = rig.drain();
    let _ = rig.take_hooks();
    let t_before = rig::now();
    let mut sent_ok = 0usize;
    for (k, (s, b)) in sends.iter().enumerate() { round[k].t_sent_ns = rig::now(); if rig.send(*s, b) { sent_ok += 1; } }
    for (hook, at, s, b) in injections { rig.plan_injection_at(&hook, at, s, b); sent_ok += 1; }
    let expect = sent_ok;
    let (panic, wedged, consumed) = rig.pump(expect);
    let t_after = rig::now();
    // send times of the injected datagrams, recorded by the tracer at the moment it sent them
    for (s, head, t) in rig.injected_at.borrow().iter() {
        if let Some(r) = round.iter_mut().find(|r| r.t_sent_ns == 0 && r.sock == *s && r.bytes.starts_with(head)) { r.t_sent_ns = *t; }
    }
    // idle with datagrams outstanding: wedged only if the kernel still holds them for the server;
    // if the kernel dropped them (queue empty) the round is an environment fault and is not judged
    let really_wedged = wedged && panic.is_none() && rig.server_rx_queue() > 0;
    if wedged && panic.is_none() && !really_wedged {
        ctx.emit(json!({"ev": "round", "discarded": "kernel dropped datagrams", "unconsumed": expect.saturating_sub(consumed)}));
        let _ = rig.drain(); let _ = rig.take_hooks(); let _ = rig::take_logs();
        ctx.dropped_rounds += 1;
        return;
    }
    for s in &round {
        if s.sock == rig::UNROUTABLE { ctx.emit(json!({"ev": "arrive", "id": s.id, "sock": s.sock, "f": s.features, "unroutable": true})); }
        else { ctx.emit(json!({"ev": "arrive", "id": s.id, "sock": s.sock, "f": s.features})); }
    }
    ctx.emit(json!({"ev": "pumped", "panic": panic.is_some(), "panic_msg": panic.clone().unwrap_or_default(), "wedged": really_wedged,
                    "unconsumed": expect.saturating_sub(consumed)}));
    // fault-injection flags from the hook at the should_add_error() site, per destination port in order
    let hooks = rig.take_hooks();
    let mut greased: std::collections::HashMap<u16, std::collections::VecDeque<bool>> = Default::default();
    for h in &hooks {
        if h.name == "sent" && h.get_b("ok") == Some(true) {
            if let Some(dst) = h.get_s("dst") { if let Some(port) = dst.rsplit(':').next().and_then(|p| p.parse::<u16>().ok()) {
                greased.entry(port).or_default().push_back(h.get_b("greased").unwrap_or(false));
            } }
        }
    }
    // fault-injection sections: per signed batch, how many responses it had and how many were fault-injected
    if rig.cfg.fault > 0 {
        let mut cur: Option<(u64, u64)> = None;
        for h in &hooks {
            if h.name == "signed" { if let Some((n, g)) = cur.take() { if n > 0 { ctx.emit(json!({"ev": "grease_batch", "n": n, "greased": g})); } } cur = Some((0, 0)); }
            else if h.name == "sent" { if let Some((n, g)) = cur.as_mut() { *n += 1; if h.get_b("greased") == Some(true) { *g += 1; } } }
        }
        if let Some((n, g)) = cur { if n > 0 { ctx.emit(json!({"ev": "grease_batch", "n": n, "greased": g})); } }
    }
    for (sock, bytes) in rig.drain() {
        let g = greased.get_mut(&rig.client_port(sock)).and_then(|q| q.pop_front()).unwrap_or(false);
        let e = rig.reply_event(sock, &bytes, &round, t_before, t_after, g);
        ctx.emit(e);
        ctx.replies += 1;
    }
    ctx.emit(json!({"ev": "round_end"}));
    let logs = rig::take_logs();
    if want_logs {
        for (lvl, site, text) in logs {
            let leak = rig.secrets.found_in(text.as_bytes());
            ctx.emit(json!({"ev": "log", "level": lvl, "site": site, "leak": leak}));
        }
    }
}

fn sentinel(rng: &mut Rng, k: u64) -> Vec<u8> {
    valid_request(rng, if k % 2 == 0 { Proto::Google } else { Proto::Ietf }, 1024, None)
}

// ---------------------------------------------------------------------------- request mutants

/// two padding fields (ZZZZ, PAD) behind the nonce and the offset BETWEEN them inconsistent but 4-aligned: zero, lower than
/// the offset before it, or past the end of the value area (not past the datagram). Not a well-formed message.
pub fn padding_offset_mutant(rng: &mut Rng, p: Proto, size: usize, variant: u64) -> Vec<u8> {
    let nl = if p == Proto::Google { 64 } else { 32 };
    let mut fields: Vec<(u64, Vec<u8>)> = vec![(rc::NONC, rng.bytes(nl)), (rc::ZZZZ, vec![0u8; 400]), (rc::PAD, vec![])];
    if p == Proto::Ietf { fields.insert(0, (rc::VER, proto::VER_DRAFT13.to_le_bytes().to_vec())); }
    let nf = fields.len();
    let hdr = 8 * nf;
    let last = fields.len() - 1;
    fields[last].1 = vec![0u8; size - (if p == Proto::Ietf { 12 } else { 0 }) - hdr - fields[..last].iter().map(|f| f.1.len()).sum::<usize>()];
    let mut enc = rc::ref_encode(&fields);
    let area = enc.len() - hdr;
    let prev = if nf >= 3 { crate::util::rd32(&enc[4 + 4 * (nf - 3)..]) as usize } else { 0 };
    let bad = match variant { 0 => 0usize, 1 => prev.saturating_sub(4), 2 => area + 4, _ => area + hdr };
    enc[4 + 4 * (nf - 2)..8 + 4 * (nf - 2)].copy_from_slice(&(bad as u32).to_le_bytes());
    if p == Proto::Ietf { rc::ref_frame(&enc) } else { enc }
}

/// near-valid and invalid datagrams derived from valid requests (C07 / C08 material)
pub fn mutant(rng: &mut Rng, srv: &[u8]) -> Vec<u8> {
    let p = if rng.chance(1, 2) { Proto::Google } else { Proto::Ietf };
    let size = 1024 + 4 * rng.below(120) as usize;
    let with_srv = rng.chance(1, 3);
    let base = valid_request(rng, p, size, if with_srv { Some(srv) } else { None });
    let mut b = base.clone();
    match rng.below(25) {
        0 => { b.truncate(rng.below(b.len() as u64) as usize); }                       // truncated
        1 => { let extra = rng.below(600) as usize + 1; let e = rng.bytes(extra); b.extend(e); } // extended
        2 => { b.truncate(1020); }                                                      // just below the minimum
        3 => { let e = vec![0u8; 1504 - b.len().min(1504)]; b.extend(e); }             // just above the maximum
        4 if p == Proto::Ietf => { let v = match rng.below(5) { 0 => 0, 1 => (b.len() - 16) as u32, 2 => (b.len() - 8) as u32, 3 => 0xffff_ffff, _ => (b.len() - 12) as u32 ^ 4 }; b[8..12].copy_from_slice(&v.to_le_bytes()); } // frame length
        5 if p == Proto::Ietf => { let i = rng.below(8) as usize; b[i] ^= 1 << rng.below(8); }   // magic corrupted
        6 => {   // nonce of another aligned length (including empty and oversized)
            let nl = *rng.pick(&[0usize, 4, 28, 32, 36, 60, 64, 68, 128, 960, 1400]);
            let nonce = rng.bytes(nl);
            let size = (1024usize).max(nl + 64) & !3;
            b = proto::build_request(p, &nonce, size.min(1500), &[proto::VER_DRAFT13], None);
        }
        7 => { let i = rng.below(40.min(b.len() as u64)) as usize; b[i] = rng.below(256) as u8; }  // header byte
        8 => {   // tag count: small values, huge values, and values at the boundaries the message length defines
                 // (words in the message, half of them = header fills the message, +-1 of each)
            let off = if p == Proto::Ietf { 12 } else { 0 };
            let words = ((b.len() - off) / 4) as u32;
            let w = match rng.below(3) {
                0 => *rng.pick(&[0u32, 1, 3, 5, 0xffff_ffff, 1025, 1024, 1023]),
                1 => (words + rng.below(5) as u32).wrapping_sub(2),
                _ => (words / 2 + rng.below(5) as u32).wrapping_sub(2),
            };
            b[off..off + 4].copy_from_slice(&w.to_le_bytes());
        }
        9 => { let off = if p == Proto::Ietf { 16 } else { 4 }; let w = *rng.pick(&[1u32, 2, 0xffff_fffc, 2000, 7]); b[off..off + 4].copy_from_slice(&w.to_le_bytes()); } // first offset
        15 => { // an offset just inside / at the end of the whole message (beyond the value area)
            let off = if p == Proto::Ietf { 16 } else { 4 };
            let w = (b.len() - if p == Proto::Ietf { 12 } else { 0 }) as u32 - 4 * rng.below(6) as u32;
            b[off..off + 4].copy_from_slice(&w.to_le_bytes());
        }
        10 => { let n = rng.range(1, 3); for _ in 0..n { let i = rng.below(b.len() as u64) as usize; b[i] ^= 1 << rng.below(8); } }
        11 => { let l = *rng.pick(&[0usize, 1, 4, 8, 1023, 1024, 1028, 1500, 1501, 4096, 65_507]); b = rng.bytes(l); }
        12 => { let l = rng.range(1024, 1500) as usize; b = rng.bytes(l); }
        13 if p == Proto::Ietf => { // version list variants
            let vers: Vec<u32> = (0..rng.below(7)).map(|_| *rng.pick(&[proto::VER_DRAFT13, 0, 1, 0x8000_000b])).collect();
            let nonce = rng.bytes(32);
            b = proto::build_request(p, &nonce, size, &vers, None);
        }
        16 => {   // every offset from the k-th on shifted by a small amount: unaligned field boundaries while the
                  // lengths of the fields after the first shifted one (NONC in particular) stay what they were
            let off = if p == Proto::Ietf { 12 } else { 0 };
            let nt = crate::util::rd32(&b[off..]) as usize;
            if nt >= 2 && nt <= 8 {
                let k = rng.below((nt - 1) as u64) as usize;
                let delta = *rng.pick(&[1i64, 2, 3, 5, 6, 7, -1, -2, -3, 4, -4]);
                for j in k..nt - 1 {
                    let pos = off + 4 + 4 * j;
                    let w = (crate::util::rd32(&b[pos..]) as i64 + delta).max(0) as u32;
                    b[pos..pos + 4].copy_from_slice(&w.to_le_bytes());
                }
            }
        }
        17 => {   // a tag word replaced by a near miss of a known tag (one byte differs)
            let off = if p == Proto::Ietf { 12 } else { 0 };
            let nt = crate::util::rd32(&b[off..]) as usize;
            if nt >= 1 && nt <= 8 {
                let k = rng.below(nt as u64) as usize;
                let pos = off + 4 * (if nt < 2 { 1 } else { nt }) + 4 * k;
                let i = rng.below(4) as usize;
                b[pos + i] = match rng.below(5) { 0 => 0x00, 1 => 0xff, 2 => b[pos + i] ^ 0x20, 3 => b[pos + i].wrapping_add(1), _ => b[pos + i] ^ 0x80 };
            }
        }
        18 if p == Proto::Ietf => {   // SRV of a wrong length that agrees with this server's value as far as it goes
            let l = *rng.pick(&[0usize, 4, 16, 28, 31, 33, 36, 64]) & !3;
            let mut sv = srv.to_vec(); sv.resize(l, 0x5a);
            let nonce = rng.bytes(32);
            b = proto::build_request(p, &nonce, size, &[proto::VER_DRAFT13], Some(&sv));
        }
        19 if p == Proto::Ietf => {   // version lists whose neighbouring entries contain the draft-13 bytes across their boundary
            let d = proto::VER_DRAFT13.to_le_bytes();
            let sh = rng.range(1, 3) as usize;
            let mut two = [0x11u8; 8];
            two[sh..sh + 4].copy_from_slice(&d);
            let mut vers = vec![u32::from_le_bytes([two[0], two[1], two[2], two[3]]), u32::from_le_bytes([two[4], two[5], two[6], two[7]])];
            if rng.chance(1, 2) { vers.insert(0, 1); }
            let nonce = rng.bytes(32);
            b = proto::build_request(p, &nonce, size, &vers, None);
        }
        23 | 24 => { let variant = rng.below(4); b = padding_offset_mutant(rng, p, size, variant); }
        20 | 21 => {   // a field repeated (same tag twice in a row) or two neighbouring fields swapped, everything else well-formed
            let off = if p == Proto::Ietf { 12 } else { 0 };
            if let Some(mut fields) = rc::ref_decode(&base[off..]) {
                if !fields.is_empty() {
                    let k = rng.below(fields.len() as u64) as usize;
                    if rng.chance(2, 3) { let dup = fields[k].clone(); fields.insert(k, dup); }
                    else if fields.len() >= 2 { let j = k.min(fields.len() - 2); fields.swap(j, j + 1); }
                    // keep the datagram length: shorten the last (padding) field by what was added
                    let mut enc = rc::ref_encode(&fields);
                    let want = base.len() - off;
                    if enc.len() > want { let extra = enc.len() - want; let last = fields.len() - 1; let l = fields[last].1.len(); if l >= extra { fields[last].1.truncate(l - extra); enc = rc::ref_encode(&fields); } }
                    b = if p == Proto::Ietf { rc::ref_frame(&enc) } else { enc };
                }
            }
        }
        14 if p == Proto::Ietf => { let mut s = srv.to_vec(); let i = rng.below(32) as usize; s[i] ^= 1 << rng.below(8); let nonce = rng.bytes(32); b = proto::build_request(p, &nonce, size, &[proto::VER_DRAFT13], Some(&s)); }
        _ => {}
    }
    b
}

// ---------------------------------------------------------------------------- drivers

/// C07: lengths, framing, nonce lengths, random datagrams, full batches at maximum depth
pub fn drive_sizes(ctx: &mut Ctx, rng: &mut Rng, thorough: bool) {
    for (bi, batch) in [64u8, 1, 7].iter().enumerate() {
        let mut rig = match new_section(ctx, cfg(*batch, 0, 0, 70)) { Some(r) => r, None => continue };
        let srv = rig.srv.clone();
        if bi == 0 {
            // every request length 1016..=1508 in steps of 4, both protocols, and the unaligned neighbours of the bounds
            for len in (1016..=1508).step_by(4).chain([1023usize, 1025, 1499, 1501, 0, 4, 4096, 65_507]) {
                for p in [Proto::Google, Proto::Ietf] {
                    let nonce = rng.bytes(if p == Proto::Google { 64 } else { 32 });
                    let mut d = proto::build_request(p, &nonce, len & !3, &[proto::VER_DRAFT13], None);
                    if len % 4 != 0 { d.resize(len, 0); if p == Proto::Ietf && d.len() >= 12 { let l = (d.len() - 12) as u32; d[8..12].copy_from_slice(&l.to_le_bytes()); } }
                    let s = sentinel(rng, len as u64);
                    run_round(ctx, &mut rig, vec![(0, d), (1, s)], vec![], false);
                }
            }
            // padding fields whose delimiting offset is inconsistent (every variant, both protocols, two sizes)
            for variant in 0..4u64 { for p in [Proto::Google, Proto::Ietf] { for size in [1024usize, 1240] {
                let d = padding_offset_mutant(rng, p, size, variant);
                let s = sentinel(rng, variant);
                run_round(ctx, &mut rig, vec![(0, d), (1, s)], vec![], false);
            } } }
            // nonces of every aligned length that still fits
            for nl in (0..=1480usize).step_by(if thorough { 4 } else { 52 }) {
                for p in [Proto::Google, Proto::Ietf] {
                    let nonce = rng.bytes(nl);
                    let size = ((nl + 40).max(1024) + 3) & !3;
                    if size > 1500 { continue; }
                    let d = proto::build_request(p, &nonce, size, &[proto::VER_DRAFT13], None);
                    let s = sentinel(rng, nl as u64);
                    run_round(ctx, &mut rig, vec![(0, d), (1, s)], vec![], false);
                }
            }
            // two extra fields with known tags that a request does not need, inserted where the WIRE order of tags puts them
            // (well-formed: the request is still answered) and in the opposite order (malformed: dropped)
            for p in [Proto::Google, Proto::Ietf] {
                let base = valid_request(rng, p, 1200, None);
                let off = if p == Proto::Ietf { 12 } else { 0 };
                let fields = rc::ref_decode(&base[off..]).unwrap_or_default();
                let present: Vec<u64> = fields.iter().map(|f| f.0).collect();
                let extra: Vec<u64> = (1..=18u64).filter(|r| !present.contains(r) && *r != rc::PAD && *r != rc::ZZZZ).collect();
                for (ai, a) in extra.iter().enumerate() {
                    for b in extra.iter().skip(ai + 1) {
                        for swapped in [false, true] {
                            let mut f2 = fields.clone();
                            f2.push((*a, vec![0x11; 4])); f2.push((*b, vec![0x22; 4]));
                            f2.sort_by_key(|f| f.0);
                            if swapped { let (ia, ib) = (f2.iter().position(|f| f.0 == *a).unwrap(), f2.iter().position(|f| f.0 == *b).unwrap()); f2.swap(ia, ib); }
                            let last = f2.len() - 1;
                            let enc0 = rc::ref_encode(&f2);
                            let want = base.len() - off;
                            if enc0.len() > want { let extra_len = enc0.len() - want; let l = f2[last].1.len(); if l >= extra_len { f2[last].1.truncate(l - extra_len); } }
                            let enc = rc::ref_encode(&f2);
                            let d = if p == Proto::Ietf { rc::ref_frame(&enc) } else { enc };
                            let s = sentinel(rng, *a);
                            run_round(ctx, &mut rig, vec![(0, d), (1, s)], vec![], false);
                        }
                    }
                }
            }
            // every field of each request shape repeated once, and every neighbouring pair swapped
            for p in [Proto::Google, Proto::Ietf] {
                for with_srv in [false, true] {
                    if p == Proto::Google && with_srv { continue; }
                    let base = valid_request(rng, p, 1100, if with_srv { Some(&srv) } else { None });
                    let off = if p == Proto::Ietf { 12 } else { 0 };
                    let fields = rc::ref_decode(&base[off..]).unwrap_or_default();
                    for k in 0..fields.len() {
                        for swap in [false, true] {
                            let mut f2 = fields.clone();
                            if swap { if k + 1 >= f2.len() { continue; } f2.swap(k, k + 1); } else { let dup = f2[k].clone(); f2.insert(k, dup); }
                            let last = f2.len() - 1;
                            let enc0 = rc::ref_encode(&f2);
                            let want = base.len() - off;
                            if enc0.len() > want { let extra = enc0.len() - want; let l = f2[last].1.len(); if l >= extra { f2[last].1.truncate(l - extra); } }
                            let enc = rc::ref_encode(&f2);
                            let d = if p == Proto::Ietf { rc::ref_frame(&enc) } else { enc };
                            let s = sentinel(rng, k as u64);
                            run_round(ctx, &mut rig, vec![(0, d), (1, s)], vec![], false);
                        }
                    }
                }
            }
            // tag counts around every boundary the datagram length defines, for the smallest and the largest request
            for p in [Proto::Google, Proto::Ietf] {
                for size in [1024usize, 1500] {
                    let base = valid_request(rng, p, size, None);
                    let off = if p == Proto::Ietf { 12 } else { 0 };
                    let words = ((base.len() - off) / 4) as u32;
                    for c in [words - 2, words - 1, words, words + 1, words + 2, words / 2 - 1, words / 2, words / 2 + 1, (base.len() / 4) as u32, (base.len() / 4) as u32 + 1] {
                        let mut d = base.clone();
                        d[off..off + 4].copy_from_slice(&c.to_le_bytes());
                        let s = sentinel(rng, c as u64);
                        run_round(ctx, &mut rig, vec![(0, d), (1, s)], vec![], false);
                    }
                }
            }
            // every suffix of the offset table shifted by every small amount, for each request shape
            for p in [Proto::Google, Proto::Ietf] {
                for with_srv in [false, true] {
                    if p == Proto::Google && with_srv { continue; }
                    let base = valid_request(rng, p, 1024, if with_srv { Some(&srv) } else { None });
                    let off = if p == Proto::Ietf { 12 } else { 0 };
                    let nt = crate::util::rd32(&base[off..]) as usize;
                    for k in 0..nt - 1 {
                        for delta in [1i64, 2, 3, 4, 5, 6, 7, 8, -1, -2, -3, -4] {
                            let mut d = base.clone();
                            for j in k..nt - 1 {
                                let pos = off + 4 + 4 * j;
                                let w = (crate::util::rd32(&d[pos..]) as i64 + delta).max(0) as u32;
                                d[pos..pos + 4].copy_from_slice(&w.to_le_bytes());
                            }
                            let s = sentinel(rng, k as u64);
                            run_round(ctx, &mut rig, vec![(0, d), (1, s)], vec![], false);
                        }
                    }
                }
            }
            // full batches of 64 at maximum path depth, smallest requests
            for p in [Proto::Google, Proto::Ietf] {
                let sends: Vec<(usize, Vec<u8>)> = (0..64).map(|i| (i, valid_request(rng, p, 1024, None))).collect();
                run_round(ctx, &mut rig, sends, vec![], false);
            }
            // a backlog of many batches handled in one wake-up (smallest requests: the response must still fit)
            for p in [Proto::Google, Proto::Ietf] {
                let sends: Vec<(usize, Vec<u8>)> = (0..1000).map(|i| (i % 70, valid_request(rng, p, 1024, None))).collect();
                run_round(ctx, &mut rig, sends, vec![], false);
            }
        }
        let n = if thorough { 2500 } else { 500 };
        for k in 0..n {
            let d = mutant(rng, &srv);
            let s = sentinel(rng, k);
            run_round(ctx, &mut rig, vec![(0, d), (1, s)], vec![], false);
        }
        let st = rig.stats_event();
        ctx.emit(st);
    }
}

/// C12 (harness-generated part): SRV corruptions for the minimal version list
pub fn drive_srv(ctx: &mut Ctx, rng: &mut Rng) {
    let mut rig = match new_section(ctx, cfg(64, 0, 0, 4)) { Some(r) => r, None => return };
    let srv = rig.srv.clone();
    let mut cases: Vec<Option<Vec<u8>>> = vec![None, Some(srv.clone())];
    for bit in 0..256 { let mut s = srv.clone(); s[bit / 8] ^= 1 << (bit % 8); cases.push(Some(s)); }
    for l in [0usize, 4, 28, 36, 64] { let mut s = srv.clone(); s.resize(l, 0xaa); cases.push(Some(s)); }
    // two bytes changed so that their differences cancel under XOR (the same bit in two bytes), sum to zero, or swap
    for k in 0..120usize {
        let (i, j) = (k % 32, (k * 7 + 1 + k / 32) % 32);
        if i == j { continue; }
        let mut s = srv.clone();
        match k % 3 {
            0 => { let bit = 1u8 << (k % 8); s[i] ^= bit; s[j] ^= bit; }
            1 => { s[i] = s[i].wrapping_add(1 + (k % 5) as u8); s[j] = s[j].wrapping_sub(1 + (k % 5) as u8); }
            _ => { s.swap(i, j); }
        }
        if s != srv { cases.push(Some(s)); }
    }
    cases.push(Some(interp::srv_of_pk(&interp::pk_of_seed(&[7u8; 32]))));   // another server's value
    // long version lists (beyond the enumerated lengths): draft-13 first, second, fourth, fifth, last, absent, for list lengths
    // around the widths a narrowed counter wraps on
    for n in [7usize, 8, 9, 64, 127, 128, 255, 256, 257, 258, 259, 260, 300] {
        for pos in [Some(0usize), Some(1), Some(3), Some(4), Some(n - 1), None] {
            let mut vers: Vec<u32> = (0..n).map(|k| 0x4000_0000 + k as u32).collect();
            if let Some(pp) = pos { vers[pp] = proto::VER_DRAFT13; }
            let nonce = rng.bytes(32);
            let d = proto::build_request(Proto::Ietf, &nonce, 1024usize.max(4 * n + 120) & !3, &vers, None);
            if d.len() > 1500 { continue; }
            let s = sentinel(rng, n as u64);
            run_round(ctx, &mut rig, vec![(0, d), (1, s)], vec![], false);
        }
    }
    // well-formed requests whose LAST field (and whose first) is empty
    for p in [Proto::Google, Proto::Ietf] {
        let nonce = rng.bytes(if p == Proto::Google { 64 } else { 32 });
        let mut fields: Vec<(u64, Vec<u8>)> = vec![];
        if p == Proto::Ietf { fields.push((rc::VER, proto::VER_DRAFT13.to_le_bytes().to_vec())); }
        fields.push((rc::NONC, nonce));
        fields.push((rc::ZZZZ, vec![0u8; 960]));
        fields.push((rc::PAD, vec![]));                         // the highest tag carries nothing
        for with_empty_first in [false, true] {
            let mut f2 = fields.clone();
            if with_empty_first { f2.insert(0, (rc::SIG, vec![])); }
            let enc = rc::ref_encode(&f2);
            let d = if p == Proto::Ietf { rc::ref_frame(&enc) } else { enc };
            let s = sentinel(rng, 1);
            run_round(ctx, &mut rig, vec![(0, d), (1, s)], vec![], false);
        }
    }
    // an IETF request that carries ALL 18 known tags (the largest field count a message of known tags can have), draft-13 in
    // VER: with this server's SRV it must be answered, with another value it must not
    for good in [true, false, true] {
        let mut fields: Vec<(u64, Vec<u8>)> = vec![];
        let mut other = rig.srv.clone(); other[5] ^= 0x10;
        for rank in 1..=18u64 {
            fields.push((rank, match rank { x if x == rc::VER => proto::VER_DRAFT13.to_le_bytes().to_vec(), x if x == rc::SRV => if good { rig.srv.clone() } else { other.clone() },
                x if x == rc::NONC => rng.bytes(32), x if x == rc::ZZZZ => vec![0u8; 600], x if x == rc::PAD => vec![], _ => rng.bytes(if rank % 2 == 0 { 4 } else { 8 }) }));
        }
        let enc = rc::ref_encode(&fields);
        let fill = 1200 - 12 - enc.len();
        let zi = fields.iter().position(|f| f.0 == rc::ZZZZ).unwrap();
        fields[zi].1 = vec![0u8; 600 + fill];
        let d = rc::ref_frame(&rc::ref_encode(&fields));
        let s = sentinel(rng, 3);
        run_round(ctx, &mut rig, vec![(0, d), (1, s)], vec![], false);
    }
    for (k, c) in cases.iter().enumerate() {
        let nonce = rng.bytes(32);
        let d = proto::build_request(Proto::Ietf, &nonce, 1024, &[proto::VER_DRAFT13], c.as_deref());
        let s = sentinel(rng, k as u64);
        run_round(ctx, &mut rig, vec![(0, d), (1, s)], vec![], false);
    }
}

/// C12 (spec -> code): version lists / SRV classes enumerated by TLC (MC_Request)
pub fn replay_versions(ctx: &mut Ctx, rng: &mut Rng, path: &str) -> u64 {
    let f = std::fs::File::open(path).expect("open cases");
    let mut rig = match new_section(ctx, cfg(64, 0, 0, 4)) { Some(r) => r, None => return 0 };
    let srv = rig.srv.clone();
    let other = interp::srv_of_pk(&interp::pk_of_seed(&[9u8; 32]));
    let mut n = 0;
    for line in std::io::BufReader::new(f).lines() {
        let line = line.unwrap();
        let c: Value = match serde_json::from_str(&line) { Ok(v) => v, Err(_) => continue };
        let vers: Vec<u32> = c["ver"].as_array().map(|a| a.iter().map(|x| match x.as_u64().unwrap_or(0) { 13 => proto::VER_DRAFT13, 0 => 0, 1001 => 1, 1002 => 0x8000_000b,
            // adversarial unknown numbers (MC_Request.VerCodes): neighbours contain the draft-13 bytes 0c 00 00 80 across their boundary
            1003 => u32::from_le_bytes([0x11, 0x0c, 0x00, 0x00]), 1004 => u32::from_le_bytes([0x80, 0x11, 0x11, 0x11]),
            1005 => u32::from_le_bytes([0x11, 0x11, 0x0c, 0x00]), 1006 => u32::from_le_bytes([0x00, 0x80, 0x11, 0x11]),
            1007 => u32::from_le_bytes([0x11, 0x11, 0x11, 0x0c]), 1008 => u32::from_le_bytes([0x00, 0x00, 0x80, 0x11]),
            1009 => 0x0000_000c, 1010 => 0x0c00_0080, _ => 0x7fff_ffff }).collect()).unwrap_or_default();
        let srvv: Option<&[u8]> = match c["srv"].as_str().unwrap_or("absent") { "ok" => Some(&srv), "wrong" => Some(&other), _ => None };
        let nonce = rng.bytes(32);
        let d = proto::build_request(Proto::Ietf, &nonce, 1024, &vers, srvv);
        let s = sentinel(rng, n);
        run_round(ctx, &mut rig, vec![(0, d), (1, s)], vec![], false);
        n += 1;
    }
    n
}

/// C09 / C02: bursts from many sockets, mixed protocols, batch sizes, several requests per socket,
/// identical nonces from different sockets, invalid datagrams in between; consecutive rounds on one server
pub fn drive_bursts(ctx: &mut Ctx, rng: &mut Rng, thorough: bool) {
    let batches: Vec<u8> = if thorough { (1..=64).collect() } else { vec![1, 2, 3, 4, 7, 8, 16, 33, 63, 64] };
    for batch in batches {
        let mut rig = match new_section(ctx, cfg(batch, 0, 0, 48)) { Some(r) => r, None => continue };
        let srv = rig.srv.clone();
        let rounds = if thorough { 14 } else { 8 };
        for r in 0..rounds {
            let b = batch as u64;
            let n = match r % 7 { 0 => 1, 1 => b.max(1), 2 => b + 1, 3 => 2 * b + 1, 4 => (b / 2).max(1), 5 => rng.range(1, 64), _ => rng.range(1, 3 * b + 2) }.min(100) as usize;
            let mut sends: Vec<(usize, Vec<u8>)> = Vec::new();
            let shared_nonce_g = rng.bytes(64);
            let shared_nonce_i = rng.bytes(32);
            for i in 0..n {
                let sock = if rng.chance(1, 6) { rng.below(4) as usize } else { 4 + (i % 44) };   // several requests from a few sockets
                let forced = i == 1 && r % 2 == 1;      // (every second burst holds an extra-field request for certain)
                let kind = if forced { 16 } else { rng.below(20) };
                let size = 1024 + 4 * rng.below(120) as usize;
                let d = match kind {
                    0..=7 => valid_request(rng, Proto::Google, size, None),
                    8..=15 => {
                        let ws = rng.chance(1, 2);
                        if rng.chance(1, 6) {
                            // a valid IETF request that offers several versions, draft-13 among the first four (classic 0 and unknown
                            // numbers before or after it): it must be answered as draft-13
                            let lists: [&[u32]; 6] = [&[0, proto::VER_DRAFT13], &[proto::VER_DRAFT13, 0], &[1, 0, proto::VER_DRAFT13], &[0x8000_000b, proto::VER_DRAFT13, 0x8000_000d],
                                                      &[0, 0, 0, proto::VER_DRAFT13], &[proto::VER_DRAFT13, proto::VER_DRAFT13]];
                            let nonce = rng.bytes(32);
                            proto::build_request(Proto::Ietf, &nonce, size, lists[rng.below(6) as usize], if ws { Some(&srv) } else { None })
                        } else { valid_request(rng, Proto::Ietf, size, if ws { Some(&srv) } else { None }) }
                    }
                    16 if forced || rng.chance(1, 2) => {
                        // a valid request that carries extra fields with known tags (in wire order), one of them as long as a
                        // nonce and sorting before NONC: the server must still find and echo the NONC field
                        // (every fourth burst: an IETF request that carries ALL 18 known tags - the largest field count a
                        // message of known tags can have -, draft-13 in VER and this server's SRV)
                        let all18 = forced && r % 4 == 3;
                        let p = if all18 || rng.chance(1, 2) { Proto::Ietf } else { Proto::Google };
                        let nl = if p == Proto::Google { 64 } else { 32 };
                        let nonce = rng.bytes(nl);
                        let mut fields: Vec<(u64, Vec<u8>)> = vec![(rc::SIG, rng.bytes(nl)), (rc::NONC, nonce), (rc::MAXT, rng.bytes(8)), (rc::ZZZZ, vec![])];
                        if all18 {
                            for rank in 1..=18u64 {
                                if fields.iter().any(|f| f.0 == rank) || rank == rc::VER || rank == rc::PAD { continue; }
                                fields.push((rank, if rank == rc::SRV { srv.clone() } else { rng.bytes(if rank % 2 == 0 { 4 } else { 8 }) }));
                            }
                        }
                        if p == Proto::Ietf { fields.push((rc::VER, proto::VER_DRAFT13.to_le_bytes().to_vec())); }
                        // ... every second one ends in an EMPTY field (the highest tag carries nothing: its offset equals the
                        // length of the value area)
                        if forced || i % 2 == 0 { fields.push((rc::PAD, vec![])); }
                        fields.sort_by_key(|f| f.0);
                        let base = rc::ref_encode(&fields).len() + if p == Proto::Ietf { 12 } else { 0 };
                        let zi = fields.iter().position(|f| f.0 == rc::ZZZZ).unwrap();
                        fields[zi].1 = vec![0u8; size.saturating_sub(base)];
                        let enc = rc::ref_encode(&fields);
                        if p == Proto::Ietf { rc::ref_frame(&enc) } else { enc }
                    }
                    16 => proto::build_request(Proto::Google, &shared_nonce_g, size, &[], None),              // identical nonces
                    17 => {   // IETF requests that share a NONCE: byte-identical ones, and ones that differ elsewhere (size, SRV) -
                              // the IETF leaf is the whole request, so these are different leaves
                        let sz = if rng.chance(1, 2) { 1024 } else { 1024 + 4 * rng.below(60) as usize };
                        let ws = rng.chance(1, 2);
                        proto::build_request(Proto::Ietf, &shared_nonce_i, sz, &[proto::VER_DRAFT13], if ws { Some(&srv) } else { None })
                    }
                    _ => mutant(rng, &srv),
                };
                sends.push((sock, d));
                // a retransmission: the same datagram from the same socket, back to back (each copy is a request of its own)
                if rng.chance(1, 8) { let last = sends[sends.len() - 1].clone(); sends.push(last); }
                // ... or right behind it a request with the SAME nonce in a different packet (another size, with SRV), from the same
                // or another socket
                if rng.chance(1, 8) {
                    if let Some(nonce) = proto::request_nonce(&sends[sends.len() - 1].1) {
                        if nonce.len() == 32 || nonce.len() == 64 {
                            let p2 = if nonce.len() == 32 { Proto::Ietf } else { Proto::Google };
                            let sz = 1028 + 4 * rng.below(80) as usize;
                            let d2 = proto::build_request(p2, &nonce, sz, &[proto::VER_DRAFT13], Some(&srv));
                            let s2 = if rng.chance(1, 2) { sends[sends.len() - 1].0 } else { 4 + rng.below(44) as usize };
                            sends.push((s2, d2));
                        }
                    }
                }
                // a request whose response cannot be sent (source port 0): the others of its batch are unaffected
                if rig.can_spoof() && rng.chance(1, 16) { let pp = if rng.chance(1, 2) { Proto::Google } else { Proto::Ietf }; sends.push((rig::UNROUTABLE, valid_request(rng, pp, 1024, None))); }
            }
            // some of the burst arrives while the batch is being collected
            let mut injections = vec![];
            if r % 3 == 2 && sends.len() > 2 {
                let k = rng.range(1, (sends.len() / 2) as u64) as usize;
                let (late, keep): (Vec<(usize, Vec<u8>)>, Vec<(usize, Vec<u8>)>) = sends.split_off(sends.len() - k).into_iter().partition(|(s, _)| *s != rig::UNROUTABLE);
                sends.extend(keep);   // (the tracer injects through the ordinary client sockets only)
                for (j, (s, d)) in late.into_iter().enumerate() { injections.push((1 + (j % sends.len().max(1)), s, d)); }
            }
            run_round(ctx, &mut rig, sends, injections, false);
        }
        // a backlog of more batches than one wake-up handles (the drain loop is bounded): every request is still answered
        if batch <= 4 {
            for mult in [17usize, 35] {
                let n = mult * batch as usize + 1;
                let sends: Vec<(usize, Vec<u8>)> = (0..n).map(|i| (i % 48, valid_request(rng, if i % 3 == 0 { Proto::Ietf } else { Proto::Google }, 1024, None))).collect();
                run_round(ctx, &mut rig, sends, vec![], false);
            }
        }
        let st = rig.stats_event();
        ctx.emit(st);
    }
}

/// C09 (spec -> code): arrival interleavings enumerated by TLC from Server.tla.
/// A behaviour is {"B": batch size, "pre": [kinds], "inj": [[after_recv, kind], ...]} with kinds
/// "C" valid classic, "I" valid IETF, "X" invalid, "U" valid classic from an unroutable source (raw socket,
/// source port 0: the response cannot be sent); sources are taken round-robin from 3 sockets,
/// with every third request reusing socket 0.
pub fn replay_interleavings(ctx: &mut Ctx, rng: &mut Rng, path: &str) -> u64 {
    let f = std::fs::File::open(path).expect("open behaviours");
    let mut n = 0u64;
    let mut rigs: std::collections::HashMap<u64, Rig> = Default::default();
    let mut lines: Vec<Value> = vec![];
    for line in std::io::BufReader::new(f).lines() { if let Ok(v) = serde_json::from_str::<Value>(&line.unwrap()) { lines.push(v); } }
    lines.sort_by_key(|v| v["B"].as_u64().unwrap_or(0));
    let mut current: Option<(u64, Rig)> = None;
    let _ = &mut rigs;
    for c in lines {
        let b = c["B"].as_u64().unwrap_or(1);
        if current.as_ref().map(|(cb, _)| *cb) != Some(b) {
            if let Some((_, r)) = current.as_ref() { let st = r.stats_event(); ctx.emit(st); }
            current = None;
            if let Some(r) = new_section(ctx, cfg(b as u8, 0, 0, 4)) { current = Some((b, r)); }
        }
        let rig = match current.as_mut() { Some((_, r)) => r, None => continue };
        let srv = rig.srv.clone();
        let mut k = 0usize;
        let mut mk = |kind: &str, rng: &mut Rng| -> (usize, Vec<u8>) {
            k += 1;
            let sock = if kind == "U" { rig::UNROUTABLE } else if k % 3 == 0 { 0 } else { k % 3 };
            let d = match kind { "C" | "U" => valid_request(rng, Proto::Google, 1024, None), "I" => valid_request(rng, Proto::Ietf, 1024, Some(&srv)), _ => rng.bytes(1024) };
            (sock, d)
        };
        let sends: Vec<(usize, Vec<u8>)> = c["pre"].as_array().map(|a| a.iter().map(|x| mk(x.as_str().unwrap_or("X"), rng)).collect()).unwrap_or_default();
        let injections: Vec<(String, usize, usize, Vec<u8>)> = c["inj"].as_array().map(|a| a.iter().map(|x| {
            let (s, d) = mk(x[2].as_str().unwrap_or("X"), rng);
            let n = x[1].as_u64().unwrap_or(1) as usize;
            // ("recv", 0): after poll returned but before the first recv = at the first dispatched event
            match (x[0].as_str().unwrap_or("recv"), n) { ("recv", 0) => ("evt".to_string(), 1, s, d), ("recv", n) => ("recv".to_string(), n, s, d), (_, n) => ("recv_empty".to_string(), n.max(1), s, d) }
        }).collect()).unwrap_or_default();
        if sends.is_empty() { continue; }
        run_round_at(ctx, rig, sends, injections, false);
        n += 1;
    }
    if let Some((_, r)) = current.as_ref() { let st = r.stats_event(); ctx.emit(st); }
    n
}

/// C02: fault injection sections: p percent, >= min_replies replies, one request per socket per round
pub fn drive_grease(ctx: &mut Ctx, rng: &mut Rng, thorough: bool) {
    let ps: Vec<u8> = if thorough { vec![1, 10, 25, 50] } else { vec![10, 50] };
    for p in ps {
        let mut rig = match new_section(ctx, cfg(16, p, 0, 40)) { Some(r) => r, None => continue };
        let min_replies = 2000u64;
        let rounds = 52;
        for r in 0..rounds {
            let sends: Vec<(usize, Vec<u8>)> = (0..40).map(|i| (i, valid_request(rng, if (i + r) % 2 == 0 { Proto::Google } else { Proto::Ietf }, 1024, None))).collect();
            run_round(ctx, &mut rig, sends, vec![], false);
        }
        ctx.emit(json!({"ev": "grease_end", "min_replies": min_replies, "p": p}));
    }
}

/// C08: datagram sequences x log level x fault percentage x batch size; every round ends with valid requests
pub fn drive_hostile(ctx: &mut Ctx, rng: &mut Rng, thorough: bool) {
    let levels: Vec<usize> = vec![0, 1, 2, 3, 4, 5];
    let batches: Vec<u8> = if thorough { vec![1, 2, 3, 8, 64] } else { vec![1, 4, 64] };
    for level in levels {
        for batch in &batches {
            for fault in [0u8, 50] {
                if !thorough && fault == 50 && level % 2 == 1 { continue; }
                let mut rig = match new_section(ctx, cfg(*batch, fault, level, 8)) { Some(r) => r, None => continue };
                let srv = rig.srv.clone();
                let rounds = if thorough { 60 } else { 25 };
                for r in 0..rounds {
                    let n = rng.range(1, 2 * (*batch as u64).min(6) + 2) as usize;
                    let mut sends = vec![];
                    for i in 0..n {
                        let d = match rng.below(10) {
                            0 => proto::build_request(Proto::Google, &[], 1024, &[], None),               // empty nonce
                            1 => { let nl = 4 * rng.below(2) as usize; let nn = rng.bytes(nl); proto::build_request(Proto::Ietf, &nn, 1024, &[proto::VER_DRAFT13], None) }
                            2 => valid_request(rng, Proto::Google, 1024, None),
                            3 => valid_request(rng, Proto::Ietf, 1024, None),
                            _ => mutant(rng, &srv),
                        };
                        sends.push((2 + i % 6, d));
                    }
                    // once per section: tag counts at the boundaries the datagram length defines
                    if r == 0 {
                        for p in [Proto::Google, Proto::Ietf] {
                            let base = valid_request(rng, p, 1024, None);
                            let off = if p == Proto::Ietf { 12 } else { 0 };
                            let words = ((base.len() - off) / 4) as u32;
                            for cnt in [words - 1, words, words + 1, words / 2, words / 2 + 1, (base.len() / 4) as u32 + 1] {
                                let mut d = base.clone();
                                d[off..off + 4].copy_from_slice(&cnt.to_le_bytes());
                                sends.push((2 + sends.len() % 6, d));
                            }
                        }
                    }
                    // once per section: EVERY short length 0..=40 - prefixes of valid requests of both protocols (the magic alone,
                    // the magic with part of the length word, a header cut in the middle) and the same lengths of random bytes
                    if r == 1 {
                        let gi = [valid_request(rng, Proto::Google, 1024, None), valid_request(rng, Proto::Ietf, 1024, None)];
                        for len in 0..=40usize {
                            for b in &gi { sends.push((2 + sends.len() % 6, b[..len].to_vec())); }
                            if len % 4 == 0 { sends.push((2 + sends.len() % 6, rng.bytes(len))); }
                        }
                    }
                    // the full batch of invalid datagrams followed by a valid request exercises early exits of the drain loop
                    if r % 5 == 4 { sends = (0..*batch as usize).map(|i| (2 + i % 6, rng.bytes(1024))).collect(); }
                    sends.push((0, valid_request(rng, Proto::Google, 1024, None)));
                    sends.push((1, valid_request(rng, Proto::Ietf, 1024, None)));
                    run_round(ctx, &mut rig, sends, vec![], false);
                }
                // counters that only overflow after very many events: 70 000 invalid datagrams from ONE address (more than a
                // 16-bit counter holds), with the per-client recorder, then valid requests
                if level == 0 && fault == 0 && *batch == 64 {
                    for cs in [true, false] {
                        let mut c2 = cfg(64, 0, 0, 8);
                        c2.client_stats = cs;
                        if let Some(mut r2) = new_section(ctx, c2) {
                            bulk_junk(ctx, &mut r2, rng, 5, 70_000, 8);
                            let sends = vec![(0usize, valid_request(rng, Proto::Google, 1024, None)), (1usize, valid_request(rng, Proto::Ietf, 1024, None))];
                            run_round(ctx, &mut r2, sends, vec![], false);
                            let st = r2.stats_event();
                            ctx.emit(st);
                        }
                    }
                }
                // more queued batches than one wake-up handles, hostile datagrams among them
                if *batch <= 4 {
                    let n = 18 * *batch as usize + 2;
                    let mut sends: Vec<(usize, Vec<u8>)> = (0..n).map(|i| (i % 8, if i % 4 == 3 { mutant(rng, &srv) } else { valid_request(rng, if i % 2 == 0 { Proto::Google } else { Proto::Ietf }, 1024, None) })).collect();
                    sends.push((0, valid_request(rng, Proto::Google, 1024, None)));
                    run_round(ctx, &mut rig, sends, vec![], false);
                }
            }
        }
    }
}

/// many datagrams, one summarising event: `n` junk datagrams of `size` bytes from socket `sock`, in chunks, the worker pumped
/// after each chunk. Per-datagram events are not recorded (the datagrams are all invalid: no reply is expected for any).
pub fn bulk_junk(ctx: &mut Ctx, rig: &mut Rig, rng: &mut Rng, sock: usize, n: usize, size: usize) {
    let mut consumed_total = 0usize;
    let mut panic: Option<String> = None;
    let mut wedged = false;
    let mut left = n;
    let _ = rig.take_hooks();
    while left > 0 && panic.is_none() && !wedged {
        let k = left.min(64);
        let mut sent = 0;
        for _ in 0..k { let mut d = rng.bytes(size); if size >= 4 { d[0] = 0xff; d[3] = 0xff; } if rig.send(sock, &d) { sent += 1; } }
        let (p, w, c) = rig.pump(sent);
        consumed_total += c;
        panic = p;
        wedged = w && rig.server_rx_queue() > 0;
        left -= k;
        let _ = rig.take_hooks();
    }
    let replies = rig.drain().len();
    ctx.emit(json!({"ev": "bulk", "n": consumed_total, "sent": n - left, "replies": replies, "panic": panic.is_some(), "panic_msg": panic.unwrap_or_default(), "wedged": wedged}));
}

/// many CLIENT ADDRESSES, one summarising event: one valid request from each of `n` distinct loopback addresses (127.1.x.y),
/// in waves of 200 sockets; every request must be answered; the replies are counted and their sizes summed
pub fn bulk_addrs(ctx: &mut Ctx, rig: &mut Rig, rng: &mut Rng, n: usize) {
    let (mut next, mut consumed_total, mut replies, mut bytes) = (0usize, 0usize, 0u64, 0u64);
    let mut panic: Option<String> = None;
    let mut wedged = false;
    let _ = rig.take_hooks();
    let _ = rig.drain();
    while next < n && panic.is_none() && !wedged {
        let k = (n - next).min(200);
        let mut socks = vec![];
        for j in 0..k {
            let ip = std::net::Ipv4Addr::from(0x7f01_0000u32 + (next + j) as u32 + 1);
            let s = match std::net::UdpSocket::bind((ip, 0)) { Ok(s) => s, Err(_) => continue };
            let _ = s.set_read_timeout(Some(std::time::Duration::from_millis(200)));
            let d = valid_request(rng, if j % 2 == 0 { Proto::Google } else { Proto::Ietf }, 1024, None);
            if s.send_to(&d, rig.addr).is_ok() { socks.push(s); }
        }
        let (p, w, c) = rig.pump(socks.len());
        consumed_total += c;
        panic = p;
        wedged = w && rig.server_rx_queue() > 0;
        let mut buf = [0u8; 2048];
        for s in &socks { if let Ok((m, _)) = s.recv_from(&mut buf) { replies += 1; bytes += m as u64; } }
        next += k;
        let _ = rig.take_hooks();
    }
    ctx.emit(json!({"ev": "bulk_addrs", "n": consumed_total, "addrs": next, "replies": replies, "bytes": bytes, "panic": panic.is_some(), "panic_msg": panic.unwrap_or_default(), "wedged": wedged}));
}

/// C10: seeds x restarts: identity and certificates
pub fn drive_seeds(ctx: &mut Ctx, rng: &mut Rng, thorough: bool) {
    let mut seeds: Vec<Vec<u8>> = vec![vec![0u8; 32], vec![0xff; 32], unhex("9d61b19deffd5a60ba844af492ec2cc44449c5697b326919703bac031cae7f60"), unhex(DEFAULT_SEED)];
    for _ in 0..(if thorough { 40 } else { 8 }) { seeds.push(rng.bytes(32)); }
    // interleave starts with different seeds in one process, and repeat each seed
    let order: Vec<usize> = (0..seeds.len()).chain(0..seeds.len()).chain([0, 1, 0, 2, 0]).collect();
    for si in order {
        let mut c = cfg(8, 0, 0, 6);
        c.seed = seeds[si].clone();
        let mut rig = match new_section(ctx, c) { Some(r) => r, None => continue };
        for _ in 0..2 {
            let sends: Vec<(usize, Vec<u8>)> = (0..5).map(|i| (i, valid_request(rng, if i % 2 == 0 { Proto::Google } else { Proto::Ietf }, 1024, None))).collect();
            run_round(ctx, &mut rig, sends, vec![], false);
        }
    }
}

/// C20: every log level with valid / invalid / fault-injected traffic, logs captured and scanned
pub fn drive_leak(ctx: &mut Ctx, rng: &mut Rng, thorough: bool) {
    let mut seeds: Vec<Vec<u8>> = vec![unhex(DEFAULT_SEED)];
    for _ in 0..(if thorough { 6 } else { 2 }) { seeds.push(rng.bytes(32)); }
    for seed in seeds {
        for level in 0..=5usize {
            for fault in [0u8, 50] {
                let mut c = cfg(4, fault, level, 6);
                c.seed = seed.clone();
                let _ = rig::take_logs();
                let mut rig = match new_section(ctx, c) { Some(r) => r, None => continue };
                let srv = rig.srv.clone();
                for _ in 0..(if thorough { 12 } else { 5 }) {
                    let mut sends: Vec<(usize, Vec<u8>)> = (0..4).map(|i| (i, if rng.chance(1, 2) { mutant(rng, &srv) } else { valid_request(rng, if i % 2 == 0 { Proto::Google } else { Proto::Ietf }, 1024, None) })).collect();
                    sends.push((4, valid_request(rng, Proto::Google, 1024, None)));
                    run_round(ctx, &mut rig, sends, vec![], true);
                }
                if let Some(s) = rig.server_mut() { let _ = crate::util::guarded(|| s.verif_send_client_stats()); }
                for (lvl, site, text) in rig::take_logs() { let leak = rig.secrets.found_in(text.as_bytes()); ctx.emit(json!({"ev": "log", "level": lvl, "site": site, "leak": leak})); }
            }
        }
    }
}

/// C20: configuration loading and validation paths (accepted and refused configurations, both sources): every log
/// record, error value and panic message they produce is scanned for the seed
pub fn drive_cfgleak(ctx: &mut Ctx, rng: &mut Rng, workdir: &str) {
    use roughenough::config::{is_valid_config, make_config};
    // the last seed consists of decimal digits only (YAML reads such an unquoted scalar as a number, not a string)
    let seeds: Vec<Vec<u8>> = vec![unhex(DEFAULT_SEED), rng.bytes(32), rng.bytes(32), unhex("3141592653589793238462643383279502884197169399375105820974944592")];
    std::fs::create_dir_all(workdir).ok();
    for seed in seeds {
        let secrets = rig::Secrets::new(&seed);
        ctx.emit(json!({"ev": "new", "batch": 0, "fault": 0, "level": "Trace", "announced_ok": true, "client_stats": false, "what": "configuration loaders"}));
        rig::set_log_level(5);
        let _ = rig::take_logs();
        let sh = hex(&seed);
        // (key, value) overrides on top of a valid base; None removes the key
        let variants: Vec<Vec<(&str, Option<String>)>> = vec![
            vec![],
            vec![("kms_protection", Some("arn:aws:kms:us-east-2:111122223333:key/1234abcd-12ab-34cd-56ef-1234567890ab".into()))],
            vec![("kms_protection", Some("projects/p/locations/global/keyRings/r/cryptoKeys/k".into()))],
            vec![("kms_protection", Some("plaintext".into()))],
            vec![("seed", Some(sh[..62].to_string()))],
            vec![("seed", Some(format!("{}ab", sh)))],
            vec![("port", Some("0".into()))],
            vec![("batch_size", Some("65".into()))],
            vec![("fault_percentage", Some("51".into()))],
            vec![("num_workers", Some("0".into()))],
            vec![("client_stats", Some("on".into()))],
            vec![("client_stats", Some("on".into())), ("persistence_directory", Some("/nonexistent-dir".into()))],
            vec![("interface", None)],
            vec![("interface", Some("not-an-address".into()))],
            vec![("health_check_port", Some("8000".into())), ("status_interval", Some("1".into()))],
            vec![("frobnicate", Some("1".into()))],
        ];
        for (vi, var) in variants.iter().enumerate() {
            for src in ["file", "env"] {
                let mut kv: Vec<(String, String)> = vec![("interface".into(), "127.0.0.1".into()), ("port".into(), "8686".into()), ("seed".into(), sh.clone())];
                for (k, val) in var {
                    kv.retain(|(kk, _)| kk != k);
                    if let Some(x) = val { kv.push((k.to_string(), x.clone())); }
                }
                let all_env = ["PORT", "INTERFACE", "SEED", "BATCH_SIZE", "STATUS_INTERVAL", "KMS_PROTECTION", "HEALTH_CHECK_PORT", "CLIENT_STATS", "FAULT_PERCENTAGE", "NUM_WORKERS", "PERSISTENCE_DIRECTORY", "FROBNICATE"];
                for k in all_env { std::env::remove_var(format!("ROUGHENOUGH_{}", k)); }
                let arg = if src == "env" {
                    for (k, x) in &kv { std::env::set_var(format!("ROUGHENOUGH_{}", k.to_uppercase()), x); }
                    "ENV".to_string()
                } else {
                    let p = format!("{}/leak.yaml", workdir);
                    std::fs::write(&p, kv.iter().map(|(k, x)| format!("{}: {}\n", k, x)).collect::<String>()).unwrap();
                    p
                };
                let r = crate::util::guarded(|| match make_config(&arg) {
                    Ok(c) => { let ok = is_valid_config(c.as_ref()); format!("valid={}", ok) }
                    Err(e) => format!("{:?}", e),
                });
                for k in all_env { std::env::remove_var(format!("ROUGHENOUGH_{}", k)); }
                let text = match r { Ok(s) => s, Err(p) => p };
                ctx.emit(json!({"ev": "log", "level": 1, "site": format!("config result/panic text, variant {} via {}", vi, src), "leak": secrets.found_in(text.as_bytes())}));
                for (lvl, site, t) in rig::take_logs() {
                    ctx.emit(json!({"ev": "log", "level": lvl, "site": site, "leak": secrets.found_in(t.as_bytes()), "variant": vi}));
                }
            }
        }
        // YAML files written verbatim: key ORDER and empty / null / boolean / integer values for the text-valued settings that
        // follow the seed line. Scanned: loader and validator output, and the values the server prints in its start-up banner
        // and in its bind / directory errors (interface, persistence directory, key-protection id)
        let raw: Vec<String> = vec![
            format!("port: 8686\nseed: {}\ninterface:\n", sh),
            format!("port: 8686\nseed: {}\ninterface: ~\n", sh),
            format!("port: 8686\nseed: {}\nbatch_size: 7\ninterface: 12\n", sh),
            format!("interface: 127.0.0.1\nport: 8686\nclient_stats: on\nseed: {}\npersistence_directory:\n", sh),
            format!("interface: 127.0.0.1\nport: 8686\nclient_stats: on\nseed: {}\nstatus_interval: 5\npersistence_directory: true\n", sh),
            format!("interface: 127.0.0.1\nport: 8686\nseed: {}\nkms_protection:\n", sh),
            format!("seed: {}\nport: 8686\ninterface: 127.0.0.1\nclient_stats: on\npersistence_directory: {}\n", sh, workdir),
            format!("interface: 127.0.0.1\nseed: {}\nport:\n", sh),
            // a top level that is not a mapping: colons without a space fold the file into one scalar; settings written as a list
            format!("interface:127.0.0.1\nport:8686\nseed:{}\n", sh),
            format!("- interface: 127.0.0.1\n- port: 8686\n- seed: {}\n", sh),
            format!("{}\n", sh),
            // a seed written in upper / mixed case (accepted: hexadecimal is case-insensitive)
            format!("interface: 127.0.0.1\nport: 8686\nseed: {}\n", sh.to_uppercase()),
            format!("interface: 127.0.0.1\nport: 8686\nseed: {}\n", sh.chars().enumerate().map(|(i, c)| if i % 2 == 0 { c.to_ascii_uppercase() } else { c }).collect::<String>()),
            format!("seed: [{}]\nport: 8686\ninterface: 127.0.0.1\n", sh),
            format!("seed: {{value: {}}}\nport: 8686\ninterface: 127.0.0.1\n", sh),
        ];
        // the environment source with a seed that carries the key material but is not clean hex
        // (... or is not even text: a stray byte that is not valid UTF-8 behind or in front of the digits)
        use std::os::unix::ffi::OsStringExt;
        let mut decos: Vec<std::ffi::OsString> = [format!("0x{}", sh), format!("{} ", sh), format!("\"{}\"", sh), format!("{}0", sh), format!(" {}", sh), sh.to_uppercase()].iter().map(|x| x.into()).collect();
        decos.push(std::ffi::OsString::from_vec([sh.as_bytes(), &[0xA0u8][..]].concat()));
        decos.push(std::ffi::OsString::from_vec([&[0xFFu8][..], sh.as_bytes()].concat()));
        decos.push(std::ffi::OsString::from_vec([&sh.as_bytes()[..32], &[0xC3u8][..], &sh.as_bytes()[32..]].concat()));
        for (di, deco) in decos.iter().enumerate() {
            let all_env = ["PORT", "INTERFACE", "SEED", "BATCH_SIZE", "STATUS_INTERVAL", "KMS_PROTECTION", "HEALTH_CHECK_PORT", "CLIENT_STATS", "FAULT_PERCENTAGE", "NUM_WORKERS", "PERSISTENCE_DIRECTORY"];
            for k in all_env { std::env::remove_var(format!("ROUGHENOUGH_{}", k)); }
            std::env::set_var("ROUGHENOUGH_PORT", "8686"); std::env::set_var("ROUGHENOUGH_INTERFACE", "127.0.0.1"); std::env::set_var("ROUGHENOUGH_SEED", deco);
            let r = crate::util::guarded(|| match make_config("ENV") { Ok(c) => format!("valid={}", is_valid_config(c.as_ref())), Err(e) => format!("{:?}", e) });
            for k in all_env { std::env::remove_var(format!("ROUGHENOUGH_{}", k)); }
            let t = match r { Ok(s) => s, Err(p) => p };
            ctx.emit(json!({"ev": "log", "level": 1, "site": format!("config result / panic text, decorated environment seed {}", di), "leak": secrets.found_in(t.as_bytes())}));
            for (lvl, site, t) in rig::take_logs() { ctx.emit(json!({"ev": "log", "level": lvl, "site": site, "leak": secrets.found_in(t.as_bytes()), "variant": 200 + di})); }
        }
        for (ri, text) in raw.iter().enumerate() {
            let p = format!("{}/leak_raw.yaml", workdir);
            std::fs::write(&p, text).unwrap();
            let r = crate::util::guarded(|| match make_config(&p) {
                Ok(c) => {
                    let ok = is_valid_config(c.as_ref());
                    format!("valid={} interface={} persistence_directory={:?} kms_protection={}", ok, c.interface(), c.persistence_directory(), c.kms_protection())
                }
                Err(e) => format!("{:?}", e),
            });
            let t = match r { Ok(s) => s, Err(p) => p };
            ctx.emit(json!({"ev": "log", "level": 1, "site": format!("config result / banner values / panic text, verbatim file {}", ri), "leak": secrets.found_in(t.as_bytes())}));
            for (lvl, site, t) in rig::take_logs() {
                ctx.emit(json!({"ev": "log", "level": lvl, "site": site, "leak": secrets.found_in(t.as_bytes()), "variant": 100 + ri}));
            }
        }
    }
}

/// C15 (health check, in-process): connection schedules of Health.tla replayed through the hook tracer, then seeded bursts
pub fn drive_health(ctx: &mut Ctx, rng: &mut Rng, path: &str, thorough: bool) -> u64 {
    // a schedule: connections made before the worker polls, connections made after `acc` accepts of the running readiness
    // event, and the kind of every connection in the order they are made ("L" stays open, "A" is reset by the peer at once)
    let mut schedules: Vec<(usize, Vec<usize>, Vec<bool>)> = vec![];
    if !path.is_empty() {
        if let Ok(f) = std::fs::File::open(path) {
            for line in std::io::BufReader::new(f).lines() {
                if let Ok(c) = serde_json::from_str::<Value>(&line.unwrap()) {
                    schedules.push((c["pre"].as_u64().unwrap_or(1) as usize, c["during"].as_array().map(|a| a.iter().map(|x| x.as_u64().unwrap_or(0) as usize).collect()).unwrap_or_default(),
                                    c["kinds"].as_array().map(|a| a.iter().map(|x| x.as_str() == Some("A")).collect()).unwrap_or_default()));
                }
            }
        }
    }
    let replayed = schedules.len() as u64;
    for k in 0..(if thorough { 40 } else { 12 }) {
        let pre = rng.range(1, 70) as usize;
        let during: Vec<usize> = (0..rng.below(6)).map(|_| rng.below(pre as u64 + 1) as usize).collect();
        let kinds: Vec<bool> = (0..pre + during.len()).map(|_| k % 2 == 1 && rng.chance(1, 4)).collect();
        schedules.push((pre, during, kinds));
    }
    // a backlog of more datagrams than one wake-up handles (batch_size 1 and 2) TOGETHER with health-check connections: the
    // readiness events that arrive in the same poll as the datagrams must all be served
    for batch in [1u8, 2] {
        let mut c = cfg(batch, 0, 0, 40);
        c.hc = true;
        if let Some(mut rig) = new_section(ctx, c) {
            for round in 0..3usize {
                let n = 17 * batch as usize + 3 + round;
                let sends: Vec<(usize, Vec<u8>)> = (0..n).map(|i| (i % 40, valid_request(rng, if i % 2 == 0 { Proto::Google } else { Proto::Ietf }, 1024, None))).collect();
                let _ = rig.drain();
                let t0 = rig::now();
                for (s_, b) in &sends { rig.send(*s_, b); }
                rig.hc_connect(3 + round);
                let panic = rig.pump_until_idle();
                let t1 = rig::now();
                let (conns, ok200) = rig.hc_collect();
                let round_sent: Vec<Sent> = sends.into_iter().enumerate().map(|(i, (s_, b))| Sent { id: i + 1, sock: s_, features: proto::request_features(&b, &rig.srv), nonce: proto::request_nonce(&b), bytes: b, t_sent_ns: t0 }).collect();
                ctx.emit(json!({"ev": "round"}));
                for s_ in &round_sent { ctx.emit(json!({"ev": "arrive", "id": s_.id, "sock": s_.sock, "f": s_.features})); }
                ctx.emit(json!({"ev": "pumped", "panic": panic.is_some(), "panic_msg": panic.unwrap_or_default(), "wedged": false, "unconsumed": 0}));
                let _ = rig.take_hooks();
                for (sock, bytes) in rig.drain() { let e = rig.reply_event(sock, &bytes, &round_sent, t0, t1, false); ctx.emit(e); ctx.replies += 1; }
                ctx.emit(json!({"ev": "round_end"}));
                ctx.emit(json!({"ev": "hc_round", "conns": 3 + round, "connected": conns, "ok200": ok200}));
                ctx.rounds += 1;
            }
        }
    }
    let mut c = cfg(8, 0, 0, 4);
    c.hc = true;
    let mut rig = match new_section(ctx, c) { Some(r) => r, None => return 0 };
    for (pre, during, kinds) in schedules {
        let aborted = |i: usize| kinds.get(i).copied().unwrap_or(false);
        for i in 0..pre { rig.hc_connect_kind(aborted(i)); }
        let mut total = (0..pre).filter(|i| !aborted(*i)).count();     // connections that stay open: each must be answered
        for (j, acc) in during.into_iter().enumerate() {
            let a = aborted(pre + j);
            if !a { total += 1; }
            // the connection arrives after `acc` accepts of the current readiness event (acc = 0: right after poll returned)
            if acc == 0 { rig.plan_hc_connect_at("evt", 1, a); } else { rig.plan_hc_connect_at("hc_accept", acc, a); }
        }
        // time service continues: two requests ride along
        let s1 = valid_request(rng, Proto::Google, 1024, None);
        let s2 = valid_request(rng, Proto::Ietf, 1024, None);
        let _ = rig.drain();
        let t0 = rig::now();
        rig.send(0, &s1); rig.send(1, &s2);
        let panic = rig.pump_until_idle();
        let t1 = rig::now();
        let (conns, ok200) = rig.hc_collect();
        let round: Vec<Sent> = vec![(0usize, s1), (1usize, s2)].into_iter().enumerate().map(|(i, (s, b))| Sent { id: i + 1, sock: s, features: proto::request_features(&b, &rig.srv), nonce: proto::request_nonce(&b), bytes: b, t_sent_ns: t0 }).collect();
        ctx.emit(json!({"ev": "round"}));
        for s in &round { ctx.emit(json!({"ev": "arrive", "id": s.id, "sock": s.sock, "f": s.features})); }
        ctx.emit(json!({"ev": "pumped", "panic": panic.is_some(), "panic_msg": panic.unwrap_or_default(), "wedged": false, "unconsumed": 0}));
        let _ = rig.take_hooks();
        for (sock, bytes) in rig.drain() { let e = rig.reply_event(sock, &bytes, &round, t0, t1, false); ctx.emit(e); ctx.replies += 1; }
        ctx.emit(json!({"ev": "round_end"}));
        ctx.emit(json!({"ev": "hc_round", "conns": total, "connected": conns, "ok200": ok200}));
        ctx.rounds += 1;
    }
    replayed
}

/// C16 (effective batch size): servers configured with batch sizes that are not powers of two receive bursts larger than
/// the batch; no signed root may cover more requests than the configured batch size
pub fn drive_batchcfg(ctx: &mut Ctx, rng: &mut Rng, thorough: bool) {
    let sizes: Vec<u8> = if thorough { vec![1, 2, 3, 5, 6, 7, 9, 12, 24, 33, 48, 63, 64] } else { vec![1, 3, 5, 12, 48, 63] };
    for b in sizes {
        let mut rig = match new_section(ctx, cfg(b, 0, 0, 70)) { Some(r) => r, None => continue };
        for p in [Proto::Google, Proto::Ietf] {
            let n = (2 * b as usize + 1).min(140);
            let sends: Vec<(usize, Vec<u8>)> = (0..n).map(|i| (i % 70, valid_request(rng, p, 1024, None))).collect();
            run_round(ctx, &mut rig, sends, vec![], false);
        }
    }
}

/// C17 wiring: traffic mixes with both recorder kinds
pub fn drive_stats(ctx: &mut Ctx, rng: &mut Rng, thorough: bool) {
    for (k, client_stats) in [false, true, false, true].iter().enumerate() {
        let mut c = cfg(if k < 2 { 8 } else { 1 }, 0, [0usize, 5, 4, 0][k], 12);      // (diagnostics of the publication step run at Debug / Trace)
        c.client_stats = *client_stats;
        let mut rig = match new_section(ctx, c) { Some(r) => r, None => continue };
        let srv = rig.srv.clone();
        for r in 0..(if thorough { 60 } else { 24 }) {
            let n = rng.range(1, 20) as usize;
            let mut sends: Vec<(usize, Vec<u8>)> = (0..n).map(|i| (i % 12, match rng.below(3) { 0 => mutant(rng, &srv), 1 => valid_request(rng, Proto::Google, 1024, None), _ => valid_request(rng, Proto::Ietf, 1028, None) })).collect();
            // failed sends: valid requests from a source the operating system refuses to send to, anywhere in the burst
            if rig.can_spoof() {
                for _ in 0..rng.below(3) {
                    let at = rng.below(sends.len() as u64 + 1) as usize;
                    let pp = if rng.chance(1, 2) { Proto::Google } else { Proto::Ietf };
                    sends.insert(at, (rig::UNROUTABLE, valid_request(rng, pp, 1024, None)));
                }
            }
            run_round(ctx, &mut rig, sends, vec![], false);
            // the status timer's step, now and then (twice in a row too: the second publishes nothing)
            if r % 6 == 5 { let e = rig.publish_event(); ctx.emit(e); if r % 12 == 11 { let e = rig.publish_event(); ctx.emit(e); } }
        }
        // a period in which exactly ONE client address is seen, then publication; then an empty period
        run_round(ctx, &mut rig, vec![(3, valid_request(rng, Proto::Google, 1024, None)), (3, valid_request(rng, Proto::Ietf, 1024, None))], vec![], false);
        let e = rig.publish_event(); ctx.emit(e);
        let e = rig.publish_event(); ctx.emit(e);
        run_round(ctx, &mut rig, vec![(5, rng.bytes(40))], vec![], false);
        let e = rig.publish_event(); ctx.emit(e);
        // a reporter that does not keep up: six publications, each after some traffic, before anything is popped; the queue
        // holds four snapshots (force_push drops the oldest), the recorder starts over every time
        for k in 0..6usize {
            let sends: Vec<(usize, Vec<u8>)> = (0..(2 + k)).map(|i| (i % 12, if i % 3 == 2 { rng.bytes(30) } else { let pp = if i % 2 == 0 { Proto::Google } else { Proto::Ietf }; valid_request(rng, pp, 1024, None) })).collect();
            run_round(ctx, &mut rig, sends, vec![], false);
            let e = rig.publish_step(k == 5); ctx.emit(e);
        }
        let st = rig.stats_event();
        ctx.emit(st);
        // SCALE: more client addresses in one publication period than any chunk size, queue capacity x chunk size or 16-bit
        // count a publication step might go by (17 000 > 4 x 4 096 > 2^14; thorough: 70 000 > 2^16): one snapshot, every address
        if k == 1 {
            let e = rig.publish_step(true); ctx.emit(e);
            bulk_addrs(ctx, &mut rig, rng, if thorough { 70_000 } else { 17_000 });
            let e = rig.publish_step(true); ctx.emit(e);
            let st = rig.stats_event();
            ctx.emit(st);
        }
    }
}

/// C11: a drain loop kept busy for longer than the radius: one datagram is injected (and the worker delayed) at every
/// recv, so a single process_events call signs batches over several seconds
pub fn drive_slowdrain(ctx: &mut Ctx, rng: &mut Rng, thorough: bool) {
    // batch sizes for which the whole run fits into ONE wake-up (at most 16 batches are handled per wake-up)
    for batch in [8u8, 64] {
        let mut rig = match new_section(ctx, cfg(batch, 0, 0, 8)) { Some(r) => r, None => continue };
        let n = if thorough { 120 } else { 100 };
        let sends = vec![(0usize, valid_request(rng, Proto::Google, 1024, None))];
        let inj: Vec<(String, usize, usize, Vec<u8>)> = (1..n).map(|k| ("recv".to_string(), k, k % 8, valid_request(rng, if k % 2 == 0 { Proto::Google } else { Proto::Ietf }, 1024, None))).collect();
        rig.recv_sleep_ms.set(60);
        run_round_at(ctx, &mut rig, sends, inj, false);
        rig.recv_sleep_ms.set(0);
        if !thorough { break; }
    }
    // the same request sent again more than a radius later (a retransmission): its response must state the clock of ITS batch
    // (this section runs in a zone with daylight-saving rules: the zone of the server process is not part of the signed time)
    std::env::set_var("TZ", "EST5EDT,M3.2.0,M11.1.0");
    if let Some(mut rig) = new_section(ctx, cfg(8, 0, 0, 4)) {
        let rg = valid_request(rng, Proto::Google, 1024, None);
        let ri = valid_request(rng, Proto::Ietf, 1024, None);
        run_round(ctx, &mut rig, vec![(0, rg.clone()), (1, ri.clone())], vec![], false);
        // a batch that holds nothing to answer, then an idle period longer than the radius: whatever the worker noted for that
        // batch (a clock reading, a signed result) must not reach the next one
        run_round(ctx, &mut rig, vec![(2, rng.bytes(1024)), (3, vec![0u8; 1024])], vec![], false);
        std::thread::sleep(std::time::Duration::from_millis(5600));
        run_round(ctx, &mut rig, vec![(0, rg.clone())], vec![], false);
        run_round(ctx, &mut rig, vec![(1, ri.clone())], vec![], false);
        // the system clock is STEPPED between batches (backwards: a clock that ran ahead is corrected, a VM is restored from a
        // snapshot; forwards: a long suspension). Every batch states the reading taken when IT is signed - the harness's
        // bracketing readings and the server read the same (stepped) clock.
        for step in [-600i64, -3, 86_400, -86_400 - 7, 604] {
            crate::util::step_clock(step);
            ctx.emit(json!({"ev": "clock_step", "secs": step}));
            let a = valid_request(rng, Proto::Google, 1024, None);
            let b = valid_request(rng, Proto::Ietf, 1024, None);
            run_round(ctx, &mut rig, vec![(0, a), (1, b), (2, rg.clone())], vec![], false);
            run_round(ctx, &mut rig, vec![(1, ri.clone())], vec![], false);
        }
        crate::util::unstep_clock();
        ctx.emit(json!({"ev": "clock_step", "secs": 0}));
    }
    std::env::remove_var("TZ");
}

/// a small mixed driver run by every server-based check
pub fn drive_mixed(ctx: &mut Ctx, rng: &mut Rng) {
    for batch in [1u8, 5, 64] {
        let mut rig = match new_section(ctx, cfg(batch, 0, 3, 12)) { Some(r) => r, None => continue };
        let srv = rig.srv.clone();
        for r in 0..12 {
            let n = rng.range(1, 2 * batch as u64 + 3).min(40) as usize;
            let sends: Vec<(usize, Vec<u8>)> = (0..n).map(|i| (i % 12, match rng.below(5) { 0 => mutant(rng, &srv), 1 | 2 => { let sz = 1024 + 4 * rng.below(100) as usize; valid_request(rng, Proto::Google, sz, None) }, _ => { let sz = 1024 + 4 * rng.below(100) as usize; valid_request(rng, Proto::Ietf, sz, if r % 2 == 0 { Some(&srv) } else { None }) } })).collect();
            run_round(ctx, &mut rig, sends, vec![], false);
        }
        let st = rig.stats_event();
        ctx.emit(st);
    }
}

pub fn record(driver: &str, seed: u64, tier: &str, out_path: &str, inp: &str) {
    rig::install_logger();
    let mut rng = Rng::new(seed ^ 0x5E21);
    let mut ctx = Ctx::new(out_path);
    rig::start_watchdog(out_path);
    let thorough = tier == "thorough";
    let mut replayed = 0u64;
    for d in driver.split(',') {
        match d {
            "sizes" => drive_sizes(&mut ctx, &mut rng, thorough),
            "srv" => drive_srv(&mut ctx, &mut rng),
            "versions" => replayed += replay_versions(&mut ctx, &mut rng, inp),
            "bursts" => drive_bursts(&mut ctx, &mut rng, thorough),
            "interleavings" => replayed += replay_interleavings(&mut ctx, &mut rng, inp),
            "grease" => drive_grease(&mut ctx, &mut rng, thorough),
            "hostile" => drive_hostile(&mut ctx, &mut rng, thorough),
            "seeds" => drive_seeds(&mut ctx, &mut rng, thorough),
            "leak" => drive_leak(&mut ctx, &mut rng, thorough),
            "stats" => drive_stats(&mut ctx, &mut rng, thorough),
            "mixed" => drive_mixed(&mut ctx, &mut rng),
            "slowdrain" => drive_slowdrain(&mut ctx, &mut rng, thorough),
            "batchcfg" => drive_batchcfg(&mut ctx, &mut rng, thorough),
            "health" => replayed += drive_health(&mut ctx, &mut rng, inp, thorough),
            "cfgleak" => drive_cfgleak(&mut ctx, &mut rng, &format!("{}.cfgleak", out_path)),
            other => { eprintln!("unknown driver {}", other); std::process::exit(2); }
        }
    }
    ctx.out.flush().unwrap();
    println!("{}", json!({"rec": "summary", "events": ctx.events, "rounds": ctx.rounds, "replies": ctx.replies, "replayed": replayed, "dropped_rounds": ctx.dropped_rounds}));
}
