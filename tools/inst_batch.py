#!/usr/bin/env python3
"""usage: tools/inst_batch.py <K> <patch>:<ID>[,<ID>...] ...   -- evaluates patches in K parallel instances (tools/inst.sh)"""
import subprocess, sys, threading, queue
K = int(sys.argv[1])
q = queue.Queue()
for a in sys.argv[2:]:
    p, ids = a.rsplit(":", 1)
    for cid in ids.split(","):
        q.put((p, cid))
lock = threading.Lock()
def worker(k):
    while True:
        try:
            p, cid = q.get_nowait()
        except queue.Empty:
            return
        r = subprocess.run(["/verif/tools/inst.sh", "b%d" % k, p, cid], stdout=subprocess.PIPE, stderr=subprocess.STDOUT, text=True)
        lines = [l for l in r.stdout.splitlines() if "conda" not in l]
        with lock:
            print("=== %s -> %s" % (p, cid))
            for l in lines[:5]:
                print("   ", l[:260])
            sys.stdout.flush()
ts = [threading.Thread(target=worker, args=(k,)) for k in range(K)]
[t.start() for t in ts]
[t.join() for t in ts]
