#!/bin/sh
# usage: tools/confirm_seed.sh <outdir> <prefix A|B> <seed-id>
# Confirms a seeded change in a scratch worktree: compiles, 47 tests pass, demo fails with it and passes without.
# On success stores it under /verif/seeded/<seed-id>/.
OUT="$1"; PFX="$2"; SID="$3"
WT=/tmp/wt/confirm
export CARGO_NET_OFFLINE=true RUST_BACKTRACE=0
[ -d "$WT" ] || git -C /repo worktree add -q --detach "$WT" HEAD
cd "$WT" && git checkout -q --detach $(git -C /repo rev-parse HEAD) && git reset -q --hard && rm -f tests/seed_demo.rs tests/seed_demo.sh
mkdir -p tests
DEMO="$OUT/$PFX.demo.rs"
SH=0
if [ ! -f "$DEMO" ]; then DEMO="$OUT/$PFX.demo.sh"; SH=1; fi
[ -f "$DEMO" ] || { echo "RESULT $SID no-demo"; exit 1; }
rundemo() {
  if [ "$SH" = 1 ]; then cargo build --offline >/dev/null 2>&1; cp "$DEMO" tests/seed_demo.sh; timeout 600 sh tests/seed_demo.sh; else cp "$DEMO" tests/seed_demo.rs; timeout 1200 cargo test --offline --test seed_demo; fi
}
echo "--- pristine demo"
rundemo >/tmp/wt/confirm.$SID.pristine.log 2>&1; P=$?
git apply --3way "$OUT/$PFX.patch.diff" 2>/dev/null || git apply "$OUT/$PFX.patch.diff" || { echo "RESULT $SID patch-does-not-apply"; exit 1; }
echo "--- mutated demo"
rundemo >/tmp/wt/confirm.$SID.mutated.log 2>&1; M=$?
rm -f tests/seed_demo.rs tests/seed_demo.sh
echo "--- mutated baseline"
timeout 1200 cargo test --workspace --no-fail-fast --offline >/tmp/wt/confirm.$SID.base.log 2>&1; B=$?
NPASS=$(grep -E "^test result: ok. 47 passed" /tmp/wt/confirm.$SID.base.log | wc -l)
git diff HEAD -- src > /tmp/wt/confirm.$SID.patch
git reset -q --hard
echo "RESULT $SID pristine_demo_rc=$P mutated_demo_rc=$M baseline_rc=$B baseline47=$NPASS"
if [ "$P" = 0 ] && [ "$M" != 0 ] && [ "$B" = 0 ] && [ "$NPASS" = 1 ]; then
  D=/verif/seeded/$SID; mkdir -p "$D"
  cp /tmp/wt/confirm.$SID.patch "$D/patch.diff"; if [ "$SH" = 1 ]; then cp "$DEMO" "$D/demo.sh"; else cp "$DEMO" "$D/demo.rs"; fi
  python3 - "$OUT/$PFX.meta.json" "$D/meta.json" "$SID" <<'PY'
import json,sys
m=json.load(open(sys.argv[1]))
m["seed_id"]=sys.argv[3]
m["confirmed"]={"how":"tools/confirm_seed.sh in scratch worktree /tmp/wt/confirm (removed afterwards): demo placed at tests/seed_demo.rs; `cargo test --offline --test seed_demo` passes on pristine HEAD and fails with patch.diff applied; `cargo test --workspace --no-fail-fast --offline` = 47 passed with patch applied","pristine_demo":"pass","mutated_demo":"fail","baseline_with_patch":"47 passed"}
json.dump(m,open(sys.argv[2],"w"),indent=1)
PY
  echo "STORED $D"
fi
