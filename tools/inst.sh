#!/bin/sh
# usage: tools/inst.sh <instance> <patch.diff|-> <ID> [tier]
# Instance mode: checks a scratch worktree /tmp/wt/inst_<instance> of /repo's HEAD (with the patch applied) side by side
# with other instances; nothing under /repo, /verif/evidence or /verif/replays is touched (build output and work files:
# /tmp/verif_inst/<instance>; remove them and the worktree when done).
I="$1"; P="$2"; ID="$3"; TIER="${4:-quick}"
WT=/tmp/wt/inst_$I
cd /verif
if [ ! -d "$WT" ]; then git -C /repo worktree add -q --detach "$WT" HEAD || exit 3; fi
git -C "$WT" checkout -q --detach "$(git -C /repo rev-parse HEAD)" && git -C "$WT" reset -q --hard
R=${VERIF_INSTANCE_ROOT:-/tmp/verif_inst}
if [ ! -d $R/$I/build ]; then mkdir -p $R/$I/build; cp -a .build/harness $R/$I/build/harness 2>/dev/null; cp -a .build/repo $R/$I/build/repo 2>/dev/null; fi
[ -f "$WT/Cargo.lock" ] || cp /repo/Cargo.lock "$WT/Cargo.lock"
if [ "$P" != "-" ]; then git -C "$WT" apply --3way "$P" 2>/dev/null || git -C "$WT" apply "$P" || { echo "PATCH-DOES-NOT-APPLY"; exit 3; }; fi
VERIF_INSTANCE=$I VERIF_REPO=$WT ./check "$ID" "$TIER" 2>&1 | grep -E "VIOLATION|KNOWN-FINDING|TOOL-ERROR|Traceback|rc=|violation:"
git -C "$WT" reset -q --hard
