#!/usr/bin/env python3
"""Apply every stored seeded change (seeded/<id>/patch.diff) to /repo, run the check of the property it breaks
(quick tier, optionally more checks), undo it, and write seeded/RESULTS.json + RESULTS.md."""
import json, os, subprocess, sys, time
V = "/verif"
only = set(sys.argv[1:])
res = {}
if os.path.exists(V + "/seeded/RESULTS.json"):
    res = json.load(open(V + "/seeded/RESULTS.json"))
for sid in sorted(os.listdir(V + "/seeded")):
    d = os.path.join(V, "seeded", sid)
    if not os.path.isdir(d) or not os.path.exists(d + "/meta.json") or (only and sid not in only):
        continue
    meta = json.load(open(d + "/meta.json"))
    pid = meta.get("judged_under", meta["property"])
    subprocess.run(["git", "-C", "/repo", "reset", "-q"]); subprocess.run(["git", "-C", "/repo", "checkout", "--", "."])
    chk = subprocess.run(["git", "-C", "/repo", "apply", "--check", d + "/patch.diff"], capture_output=True, text=True)
    a = subprocess.run(["git", "-C", "/repo", "apply", "--3way", d + "/patch.diff"], capture_output=True, text=True)
    if a.returncode != 0:
        a = subprocess.run(["git", "-C", "/repo", "apply", d + "/patch.diff"], capture_output=True, text=True)
    if a.returncode != 0:
        subprocess.run(["git", "-C", "/repo", "reset", "-q"]); subprocess.run(["git", "-C", "/repo", "checkout", "--", "."])
        res[sid] = {"property": pid, "applies": False, "note": a.stderr[-300:]}
        continue
    t0 = time.time()
    p = subprocess.run([V + "/check", pid, "quick"], capture_output=True, text=True, cwd=V)
    viol = [l for l in (p.stdout + p.stderr).splitlines() if "violation:" in l]
    res[sid] = {"property": pid, "target": meta["property"], "applies": True, "exit": p.returncode, "detected": p.returncode == 1, "wall_s": round(time.time() - t0, 1),
                "violations": [v.split("violation:")[1].strip()[:160] for v in viol[:4]], "summary": meta.get("summary", "")[:300], "needs": meta.get("needs", "")[:300]}
    subprocess.run(["git", "-C", "/repo", "reset", "-q"]); subprocess.run(["git", "-C", "/repo", "checkout", "--", "."])
    print(sid, res[sid].get("detected"), res[sid].get("exit"), flush=True)
    json.dump(res, open(V + "/seeded/RESULTS.json", "w"), indent=1)
json.dump(res, open(V + "/seeded/RESULTS.json", "w"), indent=1)
with open(V + "/seeded/RESULTS.md", "w") as f:
    f.write("# Seeded changes and the checks that catch them\n\n| seed | property | detected by `./check <property> quick` | first violation reported | what it needs to manifest |\n|---|---|---|---|---|\n")
    for sid, r in sorted(res.items()):
        f.write("| %s | %s | %s | %s | %s |\n" % (sid, r["property"], "yes" if r.get("detected") else ("patch no longer applies" if not r.get("applies") else "NO (exit %s)" % r.get("exit")),
                                            (r.get("violations") or [""])[0].replace("|", "/"), r.get("needs", "").replace("|", "/").replace("\n", " ")))
