#!/bin/sh
# usage: tools/try_revert.sh <fix-commit> <ID> [tier]  -- re-introduce a fixed defect (reverse patch), run a check, undo
C="$1"; ID="$2"; TIER="${3:-quick}"
git -C /repo diff "$C" "$C^" > /tmp/wt/revert.$C.diff
git -C /repo apply --3way /tmp/wt/revert.$C.diff 2>/dev/null || git -C /repo apply /tmp/wt/revert.$C.diff || { echo "REVERT-DOES-NOT-APPLY"; exit 3; }
cd /verif && ./check "$ID" "$TIER" 2>&1 | grep -E "VIOLATION|KNOWN-FINDING|TOOL-ERROR|rc=|violation:" | head -8
git -C /repo reset -q; git -C /repo checkout -- . ; git -C /repo status --short | head -3
