#!/bin/sh
# usage: tools/try_seed.sh <patch.diff> <ID> [tier]   -- apply a seeded change to /repo, run one check, undo
P="$1"; ID="$2"; TIER="${3:-quick}"
cd /verif
git -C /repo apply --3way "$P" 2>/dev/null || git -C /repo apply "$P" || { echo "PATCH-DOES-NOT-APPLY"; exit 3; }
./check "$ID" "$TIER" 2>&1 | grep -E "VIOLATION|KNOWN-FINDING|TOOL-ERROR|rc=|violation:" 
echo "exit=$?"
git -C /repo reset -q; git -C /repo checkout -- . ; git -C /repo status --short | head -3
