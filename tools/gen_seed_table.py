#!/usr/bin/env python3
"""Regenerates the seed table of DESIGN.md (section 12.1) from seeded/RESULTS.json."""
import json, re
V = "/verif"
NOTES = {
 "k01B": "caught by the unusable-key runs added in wave 5 (a malformed key silently becomes 'no key')",
 "k02A": "caught (leaf skipped for a repeated nonce): retransmissions and same-nonce neighbours in the burst driver",
 "k03A": "missed first (upper-case hex key decoded as base64): hex keys in upper and mixed case",
 "k07A": "missed first under C07 (enum order of VERS/MINT differs from wire order; C05 caught it): pairs of extra known tags in wire order and swapped",
 "k08B": "missed first (division by zero in a Debug-level diagnostic of the publication step after an interval without responses): publication step run at Debug/Trace after invalid-only traffic; stats driver added to C08",
 "k15B": "missed first; judged under C16 (health_check_port equal to port refused): 8686 in the grid, hc = port in the seeded stream",
 "k17B": "missed first (recorder not cleared when the queue was full): publications without draining, queue modelled in Trace_Server (force_push drops the oldest)",
 "h06A": "caught (thread-local offset scratch left dirty by a rejected decode): the replay decodes rejected and accepted inputs on one thread",
 "h06B": "missed first (log argument evaluated only at Trace level slices 8 bytes of a 4-byte input): library suites now run with a Trace-level logger",
 "h12B": "judged under C09 (a failed send ends the batch)",
 "h13B": "missed first (all verifier objects share one thread-local buffer): interleaved verifier objects",
 "h15A": "missed first under C15 (EINTR after suspend/resume kills the workers; C18's stalled bursts caught it): suspend/resume added to C15 scenarios",
 "h16B": "missed first (several YAML documents: everything after --- dropped): multidoc files in Config.tla (may refuse, never other values)",
 "h01B": "missed first (non-point pinned key falls back to a default key under which a neutral-point signature verifies): unusable-key runs (malformed and non-point keys) with the honest response and with the neutral forgery",
 "h02A": "missed first (IETF requests sharing a nonce in different packets, back to back): same-nonce / different-packet neighbours in the burst driver",
 "h02B": "missed first (one fault coin per batch: share unchanged, decisions correlated): per-batch grease events from the hooks, rule fault_not_per_response",
 "h03B": "missed first (today's UTC offset used for every midpoint): local wall-clock output in a daylight-saving zone, expected text from date(1)",
 "h04A": "missed first (path cache across batches, only visible when positions are not asked in ascending order): shuffled / descending / odd-first query orders and re-queries",
 "h05A": "caught by the accessor checks (encoded_size / get_field / num_fields) added just before",
 "h05B": "caught by the Clear action and the clear()-reuse of one builder object added just before",
 "h07A": "missed first (repeated tag accepted): every field of each request shape repeated / neighbouring fields swapped",
 "h08A": "missed first (16-bit counter overflows after 65 536 invalid datagrams from one address): bulk event, 70 000 junk datagrams with both recorder kinds",
 "h08B": "judged under C19 (accept error makes the health-check loop spin: the worker never looks at the flag again)",
 "h10B": "missed first; judged under C16 (ROUGHENOUGH_SEED overrides the file's seed): every other file-source probe runs with conflicting ROUGHENOUGH_* variables set",
 "g01A": "missed first (inverted delegation window signed by the genuine key): Client.tla lets the genuine key certify any window; inverted_lo / inverted_hi classes",
 "g03A": "missed first (local-time output in a non-UTC zone): client runs rotate UTC / TZ=EST5 / a DST zone without -z",
 "g03B": "missed first (reply from another address than the request's destination): server addressed as 127.0.0.2, wildcard-bound responder",
 "g06A": "missed first (count 19..1024 with well-formed offsets): many-field family in the wire recorder",
 "g06B": "missed first (nesting >= 9 levels): nested CERT/DELE/SREP 1..40 levels in the wire recorder",
 "g10B": "judged under C16 (the file loader turns an integer-typed seed into another seed); caught after the integer-typed seed kinds were added",
 "g13A": "missed first (capacity > 4096 then 24 small messages): history signers",
 "g13B": "missed first (verify_strict): small-order key / R edge cases compared with a direct verification",
 "g14A": "missed first (over-long key with the right prefix): longkey / shortkey provider faults in Envelope.tla",
 "g16B": "missed first (short digit-only seed zero-padded): integer-typed seed kinds in Config.tla",
 "g18B": "missed first (>= 33 requests of one protocol in one batch of the real binary): stalled bursts (SIGSTOP / SIGCONT)",
 "g20B": "missed first (stale buffer, key order): verbatim YAML files with key orders and empty values, banner values scanned",
 "f12B": "missed first (draft-13 bytes across two neighbouring unknown version numbers): adversarial version numbers in MC_Request (second configuration) and in the mutants",
 "f17A": "missed first (send failure in the middle of a batch): requests from an unroutable source (raw socket, source port 0), ServerAbs accounts failed sends",
 "f17B": "missed first (IPv4-mapped IPv6 keys): the abstract addresses of Stats.tla are concretised as IPv4 / mapped / IPv6 in turn",
 "f05A": "missed first (PAD\\x00 accepted as PAD): near-miss tag words (one byte off) for all 18 tags; NearPad in the header generator of MC_Wire",
 "f04B": "missed first; judged under C09 (change is in the responder, not the Merkle object): retransmissions (same datagram, same socket, back to back) in the burst driver",
 "f09A": "missed first (edge-triggered + bounded drain strands a backlog > 16 batches): backlog rounds of 17x and 35x batch_size for small batches",
 "f07B": "missed first (unaligned offsets with NONC length intact): every suffix of the offset table shifted by every small amount",
 "f08A": "missed first (tag count = words in message + 1): tag counts at every boundary the datagram length defines",
 "f19A": "missed first (reporter pass longer than its cadence panics the thread): reporter thread traced (r_* hooks, Process.tla reporter refined), delay injection at hook events",
 "f15A": "missed first (reset connection ends the accept loop): aborted connections in Health.tla (AbortEndsLoop self-test) and in the replayed schedules",
 "f15B": "judged under C16 (a valid configuration is refused depending on key order)",
 "c05B": "missed first (needs >= 3 tags): header-shaped generator and near-valid mutants added",
 "c10A": "first reported for a wrong reason (check demanded window [0, 2^64-1]); check corrected to what the property states",
 "c11B": "missed first (drain busy > 5 s): per-request clock bracket + slow-drain scenario; re-tuned after the D11 repair",
 "c13B": "missed first: verifier now checked on every signed message (every length 0..4096)",
 "c15A": "missed first (> 16 pending connections on one listener): 48/90-connection scenarios, Health.tla replay",
 "c19B": "missed first (signal while a worker is blocked on the full statistics queue): quiet-triggered signal scenarios",
 "c20B": "missed first (leak in configuration validation): loader / validation paths added to the scan",
 "c04D": "missed first (partial path element): non-aligned binding attempts added",
 "c07C": "missed first (amplification only under a backlog of many batches): 1000-request rounds; amplification judged for duplicates too",
 "c01C": "missed first (certificate substitution after a genuine response in a -n run): directed multi-request scenario",
 "c11C": "missed first (SREP reused for an identical later request): retransmission after > radius scenario",
 "c16D": "missed first (effective batch size differs, getters unchanged): running-server stage checks batch <= batch_size",
 "c20C": "missed first (seed in a loader error for digit-only seeds): digit-only seed added; led to defect D13",
 "c03C": "missed first (midpoint equal to MAXT): honest responder now uses tight delegation windows too",
 "c08C": "missed first (offset in the window between value area and message end): offset-window mutants",
 "c14C": "missed first (state remembered across decrypt calls): multi-call sequences with changing provider behaviour",
 "c19C": "missed first (accept error loop under fd exhaustion): RLIMIT_NOFILE scenario",
 "c09A": "re-based by hand after the D11 repair",
 "c10B": "re-based by hand after the D4 repair",
}
res = json.load(open(V + "/seeded/RESULTS.json"))
rows = ["| seed | property | caught by its quick check | first violation reported | note |", "|---|---|---|---|---|"]
for sid, r in sorted(res.items()):
    det = "yes" if r.get("detected") else ("patch no longer applies" if not r.get("applies") else "NO")
    v = (r.get("violations") or [""])[0].replace("|", "/")[:110]
    rows.append("| %s | %s | %s | %s | %s |" % (sid, r["property"], det, v, NOTES.get(sid, "")))
d = open(V + "/DESIGN.md").read()
d = re.sub(r"<!-- SEED-TABLE-BEGIN -->.*<!-- SEED-TABLE-END -->", "<!-- SEED-TABLE-BEGIN -->\n" + "\n".join(rows).replace("\\", "\\\\") + "\n<!-- SEED-TABLE-END -->", d, flags=re.S)
open(V + "/DESIGN.md", "w").write(d)
print(len(rows) - 2, "seeds;", sum(1 for r in res.values() if r.get("detected")), "detected")
