#!/usr/bin/env python3
"""Regenerates the seed table of DESIGN.md (section 12.1) from seeded/RESULTS.json."""
import json, re
V = "/verif"
NOTES = {
 "c05B": "missed first (needs >= 3 tags): header-shaped generator and near-valid mutants added",
 "c10A": "first reported for a wrong reason (check demanded window [0, 2^64-1]); check corrected to what the property states",
 "c11B": "missed first (drain busy > 5 s): per-request clock bracket + slow-drain scenario; re-tuned after the D11 repair",
 "c13B": "missed first: verifier now checked on every signed message (every length 0..4096)",
 "c15A": "missed first (> 16 pending connections on one listener): 48/90-connection scenarios, Health.tla replay",
 "c19B": "missed first (signal while a worker is blocked on the full statistics queue): quiet-triggered signal scenarios",
 "c20B": "missed first (leak in configuration validation): loader / validation paths added to the scan",
 "c04D": "missed first (partial path element): non-aligned binding attempts added",
 "c07C": "missed first (amplification only under a backlog of many batches): 1000-request rounds; amplification judged for duplicates too",
 "c01C": "missed first (certificate substitution after a genuine response in a -n run): directed multi-request scenario",
 "c11C": "missed first (SREP reused for an identical later request): retransmission after > radius scenario",
 "c16D": "missed first (effective batch size differs, getters unchanged): running-server stage checks batch <= batch_size",
 "c20C": "missed first (seed in a loader error for digit-only seeds): digit-only seed added; led to defect D13",
 "c03C": "missed first (midpoint equal to MAXT): honest responder now uses tight delegation windows too",
 "c08C": "missed first (offset in the window between value area and message end): offset-window mutants",
 "c14C": "missed first (state remembered across decrypt calls): multi-call sequences with changing provider behaviour",
 "c19C": "missed first (accept error loop under fd exhaustion): RLIMIT_NOFILE scenario",
 "c09A": "re-based by hand after the D11 repair",
 "c10B": "re-based by hand after the D4 repair",
}
res = json.load(open(V + "/seeded/RESULTS.json"))
rows = ["| seed | property | caught by its quick check | first violation reported | note |", "|---|---|---|---|---|"]
for sid, r in sorted(res.items()):
    det = "yes" if r.get("detected") else ("patch no longer applies" if not r.get("applies") else "NO")
    v = (r.get("violations") or [""])[0].replace("|", "/")[:110]
    rows.append("| %s | %s | %s | %s | %s |" % (sid, r["property"], det, v, NOTES.get(sid, "")))
d = open(V + "/DESIGN.md").read()
d = re.sub(r"<!-- SEED-TABLE-BEGIN -->.*<!-- SEED-TABLE-END -->", "<!-- SEED-TABLE-BEGIN -->\n" + "\n".join(rows).replace("\\", "\\\\") + "\n<!-- SEED-TABLE-END -->", d, flags=re.S)
open(V + "/DESIGN.md", "w").write(d)
print(len(rows) - 2, "seeds;", sum(1 for r in res.values() if r.get("detected")), "detected")
