#!/usr/bin/env python3
"""As run_seeds.py, but side by side in K scratch instances (tools/inst.sh); /repo is not touched.
usage: tools/run_seeds_inst.py K [seed ids...]   (no ids: every stored seed)"""
import json, os, subprocess, sys, threading, queue, time
V = "/verif"
K = int(sys.argv[1])
only = set(sys.argv[2:])
RES = os.environ.get("SEEDS_RESULTS", V + "/seeded/RESULTS.json")
res = json.load(open(RES)) if os.path.exists(RES) else {}
q = queue.Queue()
for sid in sorted(os.listdir(V + "/seeded")):
    d = os.path.join(V, "seeded", sid)
    if os.path.isdir(d) and os.path.exists(d + "/meta.json") and (not only or sid in only):
        q.put(sid)
lock = threading.Lock()
def worker(k):
    while True:
        try:
            sid = q.get_nowait()
        except queue.Empty:
            return
        d = os.path.join(V, "seeded", sid)
        meta = json.load(open(d + "/meta.json"))
        pid = meta.get("judged_under", meta["property"])
        t0 = time.time()
        p = subprocess.run([V + "/tools/inst.sh", "s%d" % k, d + "/patch.diff", pid], stdout=subprocess.PIPE, stderr=subprocess.STDOUT, text=True)
        out = p.stdout
        if "PATCH-DOES-NOT-APPLY" in out:
            r = {"property": pid, "target": meta["property"], "applies": False, "note": out[-300:]}
        else:
            rc = [l for l in out.splitlines() if " rc=" in l]
            code = int(rc[-1].split(" rc=")[1].split()[0]) if rc else 2
            viol = [l.split("violation:")[1].strip()[:160] for l in out.splitlines() if "violation:" in l][:4]
            r = {"property": pid, "target": meta["property"], "applies": True, "exit": code, "detected": code == 1, "wall_s": round(time.time() - t0, 1),
                 "violations": viol, "summary": meta.get("summary", "")[:300], "needs": meta.get("needs", "")[:300]}
        with lock:
            res[sid] = r
            print(sid, r.get("detected"), r.get("exit"), flush=True)
            json.dump(res, open(RES, "w"), indent=1)
ts = [threading.Thread(target=worker, args=(k,)) for k in range(K)]
[t.start() for t in ts]
[t.join() for t in ts]
with open((V + "/seeded/RESULTS.md") if RES.startswith(V) else (RES + ".md"), "w") as f:
    f.write("# Seeded changes and the checks that catch them\n\n| seed | property | detected by `./check <property> quick` | first violation reported | what it needs to manifest |\n|---|---|---|---|---|\n")
    for sid, r in sorted(res.items()):
        f.write("| %s | %s | %s | %s | %s |\n" % (sid, r["property"], "yes" if r.get("detected") else ("patch no longer applies" if not r.get("applies") else "NO (exit %s)" % r.get("exit")),
                                            (r.get("violations") or [""])[0].replace("|", "/"), r.get("needs", "").replace("|", "/").replace("\n", " ")))
