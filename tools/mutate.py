#!/usr/bin/env python3
"""Automated operator mutants of int08h/roughenough, to look for gaps in the checks.

phase 1 (scratch worktree, never /repo):   tools/mutate.py gen <worktree> <out.json> [max_per_file]
    enumerates single-token mutations of non-test code under src/, keeps those that still COMPILE and still pass the
    repository's own 47 tests (the changes "a test suite cannot see").
phase 2 (patches /repo, run nothing else meanwhile):   tools/mutate.py run <out.json> <results.json> [ids...]
        or, side by side in K scratch instances:            tools/mutate.py runinst <out.json> <results.json> K [ids...]
    applies each survivor to /repo, runs the quick checks mapped to the file, undoes it.
Survivors of phase 2 are triaged by hand: equivalent mutants (no behaviour change a property talks about) are noted,
the others are gaps to close."""
import json, os, re, subprocess, sys, random, time

CHECKS = [
    ("src/merkle.rs", ["C04", "C09"]),
    ("src/message.rs", ["C05", "C06", "C07", "C08"]),
    ("src/tag.rs", ["C05", "C07"]),
    ("src/request.rs", ["C07", "C12", "C08"]),
    ("src/responder.rs", ["C09", "C02", "C17"]),
    ("src/server.rs", ["C09", "C08", "C15", "C17"]),
    ("src/grease.rs", ["C02", "C08"]),
    ("src/sign.rs", ["C13", "C10"]),
    ("src/key/", ["C10", "C11", "C02"]),
    ("src/config/", ["C16", "C15"]),
    ("src/stats/", ["C17"]),
    ("src/kms/envelope.rs", ["C14"]),
    ("src/bin/roughenough-client.rs", ["C01", "C03"]),
    ("src/bin/roughenough-server.rs", ["C15", "C19"]),
    ("src/version.rs", ["C12", "C02"]),
    ("src/lib.rs", ["C07", "C11", "C16"]),
]
SKIP = ("src/verif.rs", "src/kms/awskms.rs", "src/kms/gcpkms.rs", "src/bin/roughenough-kms.rs", "src/error.rs")

OPS = [
    (r"<=", "<"), (r">=", ">"), (r"(?<= )<(?= )", "<="), (r"(?<= )>(?= )", ">="),
    (r"==", "!="), (r"!=", "=="), (r"&&", "||"), (r"\|\|", "&&"),
    (r"\+ 1\b", "+ 2"), (r"- 1\b", "- 0"), (r"\+ 1\b", "+ 0"),
    (r"\.min\(", ".max("), (r"\.max\(", ".min("),
    (r"\btrue\b", "false"), (r"\bfalse\b", "true"),
    (r"\b0\.\.", "1.."), (r"\.\.=", ".."),
    (r"\b(\d+)\b", None),    # numeric literal +1
    (r"% 2 == 0", "% 2 == 1"), (r"\* 2\b", "* 1"), (r"/ 2\b", "/ 1"),
    (r"\bbreak;", "continue;"), (r"\bcontinue;", "break;"),
]


def code_lines(path):
    """(index, line) of mutable lines: outside #[cfg(test)] modules, comments, attributes, hooks, log strings"""
    out = []
    lines = open(path).read().split("\n")
    in_test = False
    skip_next = 0
    for i, l in enumerate(lines):
        st = l.strip()
        if st.startswith("#[cfg(test)]"):
            in_test = True
        if in_test:
            continue
        if "roughenough_verif" in l:
            skip_next = 12 if st.startswith("#[cfg(roughenough_verif)]") else 0
            continue
        if skip_next > 0:
            skip_next -= 1
            if "verif::" in l or st.startswith("vec![") or st.startswith("(\"") or st in (");", "],", ")", "{", "}"):
                continue
            skip_next = 0
        if not st or st.startswith("//") or st.startswith("#[") or st.startswith("use ") or st.startswith("///"):
            continue
        if re.match(r"\s*(info|debug|warn|error|trace|panic|println|eprintln|write|writeln|format)!\(", l):
            continue
        out.append((i, l))
    return lines, out


def sites(root, max_per_file, rnd):
    res = []
    for dp, _, fs in os.walk(os.path.join(root, "src")):
        for f in fs:
            p = os.path.join(dp, f)
            rel = os.path.relpath(p, root)
            if not rel.endswith(".rs") or rel.startswith(SKIP) or rel in SKIP:
                continue
            lines, cl = code_lines(p)
            cand = []
            for i, l in cl:
                code = l.split("//")[0]
                # do not touch string literals
                masked = re.sub(r'"(\\.|[^"\\])*"', lambda m: "\x00" * len(m.group(0)), code)
                for pat, repl in OPS:
                    for m in re.finditer(pat, masked):
                        if repl is None:
                            v = int(m.group(1))
                            if v > 70000 or (m.start() > 0 and masked[m.start() - 1] in "._x"):
                                continue
                            new = str(v + 1)
                        else:
                            new = repl
                        mutated = l[:m.start()] + new + l[m.end():]
                        if mutated != l:
                            cand.append({"file": rel, "line": i + 1, "old": l, "new": mutated, "op": "%s->%s" % (m.group(0), new)})
            rnd.shuffle(cand)
            res += cand[:max_per_file]
    return res


def sh(cmd, cwd, timeout=1800):
    env = dict(os.environ)
    env["CARGO_NET_OFFLINE"] = "true"
    env["RUST_BACKTRACE"] = "0"
    p = subprocess.run(cmd, cwd=cwd, env=env, stdout=subprocess.PIPE, stderr=subprocess.STDOUT, text=True, timeout=timeout)
    return p.returncode, p.stdout


def apply(root, m):
    p = os.path.join(root, m["file"])
    lines = open(p).read().split("\n")
    assert lines[m["line"] - 1] == m["old"], "source moved"
    lines[m["line"] - 1] = m["new"]
    open(p, "w").write("\n".join(lines))


def gen(root, out, max_per_file, seed=1):
    rnd = random.Random(seed)
    cands = sites(root, max_per_file, rnd)
    # stable ids over the full candidate list; optional sharding (MUT_SHARD=i/n) and exclusion of an earlier sweep (MUT_SKIP=file.json)
    for k, m in enumerate(cands):
        m["id"] = "%s%04d" % (os.environ.get("MUT_PREFIX", "m"), k)
    if os.environ.get("MUT_SKIP"):
        seen = {(x["file"], x["line"], x["new"]) for x in json.load(open(os.environ["MUT_SKIP"]))["mutants"]} if os.environ["MUT_SKIP"].endswith("sweep.json") else set()
        cands = [m for m in cands if (m["file"], m["line"], m["new"].strip()[:120]) not in {(a, b, c.strip()[:120]) for (a, b, c) in seen}]
    if os.environ.get("MUT_SHARD"):
        i, n = [int(x) for x in os.environ["MUT_SHARD"].split("/")]
        cands = [m for k, m in enumerate(cands) if k % n == i]
    print(len(cands), "candidate mutants", flush=True)
    survivors = []
    if os.path.exists(out):
        survivors = json.load(open(out))
    done = {(s["file"], s["line"], s["new"]) for s in survivors}
    for k, m in enumerate(cands):
        if (m["file"], m["line"], m["new"]) in done:
            continue
        subprocess.run(["git", "checkout", "-q", "--", "."], cwd=root)
        try:
            apply(root, m)
        except AssertionError:
            continue
        rc, o = sh(["cargo", "build", "--offline", "--quiet"], root)
        status = "nocompile"
        if rc == 0:
            try:
                rc, o = sh(["cargo", "test", "--workspace", "--no-fail-fast", "--offline", "--quiet"], root, timeout=900)
                status = "survives_tests" if rc == 0 else "killed_by_tests"
            except subprocess.TimeoutExpired:
                status = "killed_by_tests(timeout)"
        m["status"] = status
        print(m["id"], m["file"], m["line"], m["op"], status, flush=True)
        if status == "survives_tests":
            survivors.append(m)
            json.dump(survivors, open(out, "w"), indent=1)
    subprocess.run(["git", "checkout", "-q", "--", "."], cwd=root)
    json.dump(survivors, open(out, "w"), indent=1)
    print(len(survivors), "survive the repository's tests")


def checks_for(f):
    if os.environ.get("MUT_CHECKS"):
        return os.environ["MUT_CHECKS"].split(",")
    for pre, cs in CHECKS:
        if f.startswith(pre):
            return cs
    return []


def run(inp, out, only):
    muts = json.load(open(inp))
    res = json.load(open(out)) if os.path.exists(out) else {}
    for m in muts:
        if only and m["id"] not in only:
            continue
        if m["id"] in res and not only:
            continue
        subprocess.run(["git", "-C", "/repo", "checkout", "-q", "--", "."])
        try:
            apply("/repo", m)
        except AssertionError:
            res[m["id"]] = dict(m, result="source moved")
            continue
        caught_by = None
        t0 = time.time()
        tried = []
        for cid in checks_for(m["file"]):
            p = subprocess.run(["/verif/check", cid, "quick"], cwd="/verif", stdout=subprocess.PIPE, stderr=subprocess.STDOUT, text=True)
            tried.append("%s=%d" % (cid, p.returncode))
            if p.returncode == 1:
                caught_by = cid
                viol = [l.split("violation:")[1].strip()[:140] for l in p.stdout.splitlines() if "violation:" in l][:2]
                break
        subprocess.run(["git", "-C", "/repo", "checkout", "-q", "--", "."])
        res[m["id"]] = dict(m, caught_by=caught_by, tried=tried, wall=round(time.time() - t0), violations=(viol if caught_by else []))
        print(m["id"], m["file"], m["line"], m["op"], "CAUGHT by " + caught_by if caught_by else "SURVIVES " + ",".join(tried), flush=True)
        json.dump(res, open(out, "w"), indent=1)
    subprocess.run(["git", "-C", "/repo", "checkout", "-q", "--", "."])


def run_inst(inp, out, K, only):
    """phase 2 in K parallel instances (scratch worktrees /tmp/wt/inst_m<k>; /repo is not touched)"""
    import threading, queue
    muts = json.load(open(inp))
    res = json.load(open(out)) if os.path.exists(out) else {}
    q = queue.Queue()
    for m in muts:
        if (only and m["id"] not in only) or (not only and m["id"] in res):
            continue
        q.put(m)
    lock = threading.Lock()
    head = subprocess.run(["git", "-C", "/repo", "rev-parse", "HEAD"], capture_output=True, text=True).stdout.strip()

    def worker(k):
        inst = "m%d" % k
        wt = "/tmp/wt/inst_" + inst
        if not os.path.isdir(wt):
            subprocess.run(["git", "-C", "/repo", "worktree", "add", "-q", "--detach", wt, "HEAD"])
        root = os.environ.get("VERIF_INSTANCE_ROOT", "/tmp/verif_inst")
        if not os.path.isdir("%s/%s/build" % (root, inst)):
            os.makedirs("%s/%s/build" % (root, inst))
            subprocess.run(["cp", "-a", "/verif/.build/harness", "%s/%s/build/harness" % (root, inst)])
            subprocess.run(["cp", "-a", "/verif/.build/repo", "%s/%s/build/repo" % (root, inst)])
        if not os.path.exists(wt + "/Cargo.lock"):
            subprocess.run(["cp", "/repo/Cargo.lock", wt + "/Cargo.lock"])
        env = dict(os.environ, VERIF_INSTANCE=inst, VERIF_REPO=wt)
        while True:
            try:
                m = q.get_nowait()
            except queue.Empty:
                return
            subprocess.run(["git", "-C", wt, "checkout", "-q", "--detach", head])
            subprocess.run(["git", "-C", wt, "reset", "-q", "--hard"])
            try:
                apply(wt, m)
            except AssertionError:
                with lock:
                    res[m["id"]] = dict(m, result="source moved")
                continue
            caught_by, viol, tried, t0 = None, [], [], time.time()
            for cid in checks_for(m["file"]):
                p = subprocess.run(["/verif/check", cid, "quick"], cwd="/verif", env=env, stdout=subprocess.PIPE, stderr=subprocess.STDOUT, text=True)
                tried.append("%s=%d" % (cid, p.returncode))
                if p.returncode == 1:
                    caught_by = cid
                    viol = [l.split("violation:")[1].strip()[:140] for l in p.stdout.splitlines() if "violation:" in l][:2]
                    break
            subprocess.run(["git", "-C", wt, "reset", "-q", "--hard"])
            with lock:
                res[m["id"]] = dict(m, caught_by=caught_by, tried=tried, wall=round(time.time() - t0), violations=viol)
                print(m["id"], m["file"], m["line"], m["op"], ("CAUGHT by " + caught_by) if caught_by else ("SURVIVES " + ",".join(tried)), flush=True)
                json.dump(res, open(out, "w"), indent=1)
    ts = [threading.Thread(target=worker, args=(k,)) for k in range(K)]
    [t.start() for t in ts]
    [t.join() for t in ts]


if __name__ == "__main__":
    if sys.argv[1] == "gen":
        gen(sys.argv[2], sys.argv[3], int(sys.argv[4]) if len(sys.argv) > 4 else 12)
    elif sys.argv[1] == "runinst":
        run_inst(sys.argv[2], sys.argv[3], int(sys.argv[4]), set(sys.argv[5:]))
    else:
        run(sys.argv[2], sys.argv[3], set(sys.argv[4:]))
