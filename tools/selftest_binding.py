#!/usr/bin/env python3
"""Demonstrates that the trace specifications bind the code: takes real traces recorded by the checks (under
/verif/.work), corrupts one recorded field or deletes one recorded event, and requires TLC to REJECT the result.
Run after `./check C17 quick; ./check C09 quick; ./check C15 quick` (it is also part of their thorough tier)."""
import copy, json, os, sys
sys.path.insert(0, os.path.dirname(os.path.dirname(os.path.abspath(__file__))))
from lib import vlib
from checks import selftests

if __name__ == "__main__":
    for pid in ("C17", "C09", "C15"):
        c = vlib.Check(pid, "selftest")
        selftests.run_for(c)
        for n in c.notes:
            print(n)
    print("binding self-tests passed")
