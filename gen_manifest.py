#!/usr/bin/env python3
"""Regenerates MANIFEST.json from the table below (single source of truth for the interface)."""
import json, subprocess

CLAIMED = {
 "C04": dict(level="model_checking", ref="6 C04",
   text="TLC exhaustively checks the MerkleTree object spec (Merkle.tla: push/compute_root/get_paths/reset with retained levels) against the tree definition (Complete, MatchesDefinition, Binding, ResetClean) for bounded batches on a reused object; every batch-completing behaviour is replayed on the real MerkleTree (root and every path compared with the interpreted specification terms), and the real object driven for all n=1..255, size pairs and sequences is trace-validated by TLC (Trace_Merkle.tla).",
   note="Symbolic hashing (SHA-512 collisions out of model); interpretation I uses the sha2 crate; node/root widths per profile are calibrated from the implementation because C04 does not fix them (C02 does).",
   technique="TLA+ object spec + TLC; behaviours replayed into MerkleTree; recorded batches validated against Trace_Merkle.tla"),
 "C05": dict(level="model_checking", ref="6 C05",
   text="Wire.tla states the reference decoder/encoder on abstracted words and the builder object; TLC enumerates every word sequence up to 4 (quick) / 5 (thorough) words over a 17-word alphabet of interesting values plus builder messages with single/double mutations, checks RoundTrip/Canonical/Exact on the model and emits one test per state; each is replayed into RtMessage::from_bytes/encode/encode_framed/add_field; recorded decodes of seeded API messages (<=64 KiB), header-targeted mutants and random strings are re-decided by TLC (Trace_Wire.tla).",
   note="TLA+ used as an executable reference for a pure function (DESIGN.md section 2); word abstraction clamps values >= 2^30; the zero-tag message with trailing words counts as accepted.",
   technique="TLA+ reference codec + TLC small-scope enumeration; one implementation test per state; trace validation of recorded decodes"),
 "C06": dict(level="model_checking", ref="6 C06",
   text="Same specification and state space as C05; decides totality (no panic in from_bytes or Display for any enumerated or recorded input, including nested CERT/DELE/SREP values that do not decode) and exactness (values concatenated equal the input after the header).",
   note="Panics are observed under catch_unwind; stack exhaustion by pathological nesting depth is not explored (quadratic Display cost).",
   technique="TLA+ reference codec + TLC small-scope enumeration; replay under catch_unwind; trace validation"),
 "C13": dict(level="model_checking", ref="6 C13",
   text="Signer.tla models MsgSigner (buffer, sign clears it) and MsgVerifier (buffer kept); TLC explores every op sequence up to 6 (quick) / 8 (thorough) ops over 3 chunk ids incl. the empty chunk and checks NoCarryOver; every sign/verify-completing behaviour is replayed on real objects with 4 chunk-size maps and several seeds (signature bytes compared with one-shot ed25519-dalek over exactly the chunks the spec says are covered); recorded runs (every message length 0..4096, random chunkings, >=32 messages per signer, verifier on valid triples and all single-bit flips of signature/key and message) are validated against Trace_Signer.tla, where the interpretation determines which chunk range each real signature covers.",
   note="RFC 8032 equality is decided by ed25519-dalek (trusted oracle, vector-checked at start), not by TLC; a panic in MsgVerifier counts as reject.",
   technique="TLA+ object spec + TLC; behaviours replayed into MsgSigner/MsgVerifier; recorded runs validated against Trace_Signer.tla"),
 "C14": dict(level="model_checking", ref="6 C14",
   text="Envelope.tla models the blob as byte cells and decrypt_seed's parsing arithmetic with symbolic key wrap and AEAD; TLC checks RoundTrip, TamperDetected, NoOtherPlaintext over wrapped lengths x plaintext lengths x provider kind x {every header bit and value, byte positions (boundaries in quick, every position in thorough), every truncation, extensions, provider faults on either call}; every decrypt transition is replayed on EnvelopeEncryption with harness KmsProviders; seeded random rounds (wrapped 16..1024, 1-2 tamper ops) are re-decided by TLC (Trace_Envelope.tla) together with byte-scan leak facts.",
   note="AES-GCM and key wrapping are symbolic in the model; the harness providers are injective on wrapped bytes; leak detection is a raw byte scan for seed and DEK.",
   technique="TLA+ byte-cell model + TLC; decrypt transitions replayed into EnvelopeEncryption; recorded rounds validated against Trace_Envelope.tla"),
 "C16": dict(level="model_checking", ref="6 C16",
   text="Config.tla states the relation Allowed(written, outcome): must refuse (range-documented key out of range, missing required, unknown key, bad seed), must run with exactly the written values (everything in range), or may refuse but never run with other values. TLC enumerates a valid base plus 1 (quick) / 2 (thorough) edits over an 18-value boundary grid for the six integer keys and the seed/interface/client_stats/persistence/unknown-key variants for both sources; the harness probes every case through make_config + is_valid_config + getters (documented variable names) and TLC decides each probe and a seeded stream of multi-key configurations (Trace_Config.tla).",
   note="The probe does not start the server; refused = Err, panic or is_valid_config false; TLC ints are 32-bit so observed values above 2e9 are clamped.",
   technique="TLA+ relation + TLC enumeration of written configurations; probes of the real loaders decided by trace validation"),
 "C17": dict(level="model_checking", ref="6 C17",
   text="Stats.tla models per-worker per-client and aggregated recorders, the snapshot queue and the reporter; TLC checks Conservation, Bounded, UntrackedZero, MergePreserves, Equivalent and the action property Exclusive on every sequence of the 8 recording ops x 3 addresses (+ snapshot/merge/report) up to 3 (quick) / 4 with 2 workers (thorough) ops, and emits one behaviour per transition; each is executed on real PerClientStats(limit)/AggregatedStats/StatsQueue/Reporter objects logging the projection after every op, and TLC validates every step of those logs and of seeded sequences up to 10,000 ops (Trace_Stats.tla: logged post-state must be an allowed outcome; invariants evaluated in every state).",
   note="Property level allows either counting or overflowing an event for an already-tracked address when the table is full (code overflows). Snapshot replicates Server::send_client_stats on library objects; the running server's wiring is checked by the server suite stage when present.",
   technique="TLA+ state machine + TLC; behaviours replayed into the real recorders; step-wise trace validation against Stats.tla"),
}
PENDING_REASON = "check not built yet in this session (see DESIGN.md section 6 for the planned TLA+ treatment)"

props = [json.loads(l) for l in open("/verif/properties.jsonl")]
hook_commits = subprocess.run(["git", "-C", "/repo", "log", "--format=%H", "--grep=^verif hooks"], capture_output=True, text=True).stdout.split()
m = {
 "version": 1,
 "setup_cmd": "./setup.sh",
 "hooks": {
   "guard": "roughenough_verif",
   "enable": "RUSTFLAGS='--cfg roughenough_verif' (harness/.cargo/config.toml for the in-process harness; CARGO_TARGET_DIR=/verif/.build/repo cargo build --bins for the binaries)",
   "baseline_off_cmd": "cd /repo && cargo test --workspace --no-fail-fast --offline",
   "source_commits": hook_commits,
   "add_only": True,
 },
 "engines": [
   {"name": "tlc", "path": "/opt/veriftools/tla/tla2tools.jar", "serves_properties": sorted(CLAIMED), "kind_free_text": "explicit-state model checker for the TLA+ specifications in spec/ (model checking, behaviour generation, trace validation)"},
   {"name": "rvh", "path": "harness/", "serves_properties": sorted(CLAIMED), "kind_free_text": "Rust conformance harness: replays TLC behaviours into the real code and records abstracted traces of the real code for TLC"},
 ],
 "checks": [],
 "not_applicable": [],
 "notes": "All checks: ./check <ID> quick|thorough. Exit 0 held / 1 VIOLATION / 2 tool error. Known findings: known_findings.json.",
}
for p in props:
    pid = p["id"]
    if pid in CLAIMED:
        c = CLAIMED[pid]
        m["checks"].append({
          "property_id": pid,
          "quick_cmd": "./check %s quick" % pid,
          "thorough_cmd": "./check %s thorough" % pid,
          "evidence_file": "evidence/%s.json" % pid,
          "replay_cmd_template": "./check %s --replay {path}" % pid,
          "engine": "tlc+rvh",
          "level_claimed": {"category": c["level"], "text": c["text"], "design_ref": "DESIGN.md section " + c["ref"]},
          "level_note": c["note"],
          "technique": c["technique"],
        })
    else:
        m["not_applicable"].append({"property_id": pid, "reason": PENDING_REASON})
json.dump(m, open("/verif/MANIFEST.json", "w"), indent=1)
print("claimed", sorted(CLAIMED), "pending", len(m["not_applicable"]))
