#!/usr/bin/env python3
"""Regenerates MANIFEST.json from the table below (single source of truth for the interface)."""
import json, subprocess

CLAIMED = {
 "C04": dict(level="model_checking", ref="6 C04",
   text="TLC exhaustively checks the MerkleTree object spec (Merkle.tla: push/compute_root/get_paths/reset with retained levels) against the tree definition (Complete, MatchesDefinition, Binding, ResetClean) for bounded batches on a reused object; every batch-completing behaviour is replayed on the real MerkleTree (root and every path compared with the interpreted specification terms), and the real object driven for all n=1..255, size pairs and sequences is trace-validated by TLC (Trace_Merkle.tla). Binding attempts include partial (non-aligned) path elements.",
   note="Symbolic hashing (SHA-512 collisions out of model); interpretation I uses the sha2 crate; node/root widths per profile are calibrated from the implementation because C04 does not fix them (C02 does).",
   technique="TLA+ object spec + TLC; behaviours replayed into MerkleTree; recorded batches validated against Trace_Merkle.tla"),
 "C05": dict(level="model_checking", ref="6 C05",
   text="Wire.tla states the reference decoder/encoder on abstracted words and the builder object; TLC enumerates every word sequence up to 4 (quick) / 5 (thorough) words over a 17-word alphabet of interesting values plus builder messages with single/double mutations, checks RoundTrip/Canonical/Exact on the model and emits one test per state; each is replayed into RtMessage::from_bytes/encode/encode_framed/add_field; recorded decodes of seeded API messages (<=64 KiB), header-targeted mutants and random strings are re-decided by TLC (Trace_Wire.tla).",
   note="TLA+ used as an executable reference for a pure function (DESIGN.md section 2); word abstraction clamps values >= 2^30; the zero-tag message with trailing words counts as accepted.",
   technique="TLA+ reference codec + TLC small-scope enumeration; one implementation test per state; trace validation of recorded decodes"),
 "C06": dict(level="model_checking", ref="6 C06",
   text="Same specification and state space as C05; decides totality (no panic in from_bytes or Display for any enumerated or recorded input, including nested CERT/DELE/SREP values that do not decode) and exactness (values concatenated equal the input after the header).",
   note="Panics are observed under catch_unwind; stack exhaustion by pathological nesting depth is not explored (quadratic Display cost).",
   technique="TLA+ reference codec + TLC small-scope enumeration; replay under catch_unwind; trace validation"),
 "C13": dict(level="model_checking", ref="6 C13",
   text="Signer.tla models MsgSigner (buffer, sign clears it) and MsgVerifier (buffer kept); TLC explores every op sequence up to 6 (quick) / 8 (thorough) ops over 3 chunk ids incl. the empty chunk and checks NoCarryOver; every sign/verify-completing behaviour is replayed on real objects with 4 chunk-size maps and several seeds (signature bytes compared with one-shot ed25519-dalek over exactly the chunks the spec says are covered); recorded runs (every message length 0..4096, random chunkings, >=32 messages per signer, verifier on valid triples and all single-bit flips of signature/key and message) are validated against Trace_Signer.tla, where the interpretation determines which chunk range each real signature covers.",
   note="RFC 8032 equality is decided by ed25519-dalek (trusted oracle, vector-checked at start), not by TLC; a panic in MsgVerifier counts as reject.",
   technique="TLA+ object spec + TLC; behaviours replayed into MsgSigner/MsgVerifier; recorded runs validated against Trace_Signer.tla"),
 "C14": dict(level="model_checking", ref="6 C14",
   text="Envelope.tla models the blob as byte cells and decrypt_seed's parsing arithmetic with symbolic key wrap and AEAD; TLC checks RoundTrip, TamperDetected, NoOtherPlaintext over wrapped lengths x plaintext lengths x provider kind x {every header bit and value, byte positions (boundaries in quick, every position in thorough), every truncation, extensions, provider faults on either call}; every decrypt transition is replayed on EnvelopeEncryption with harness KmsProviders; seeded random rounds (wrapped 16..1024, 1-2 tamper ops) are re-decided by TLC (Trace_Envelope.tla) together with byte-scan leak facts. Sequences of decrypt calls on one blob with the provider's behaviour changing between calls are recorded too (no decision may carry over).",
   note="AES-GCM and key wrapping are symbolic in the model; the harness providers are injective on wrapped bytes; leak detection is a raw byte scan for seed and DEK.",
   technique="TLA+ byte-cell model + TLC; decrypt transitions replayed into EnvelopeEncryption; recorded rounds validated against Trace_Envelope.tla"),
 "C16": dict(level="model_checking", ref="6 C16",
   text="Config.tla states the relation Allowed(written, outcome): must refuse (range-documented key out of range, missing required, unknown key, bad seed), must run with exactly the written values (everything in range), or may refuse but never run with other values. TLC enumerates a valid base plus 1 (quick) / 2 (thorough) edits over an 18-value boundary grid for the six integer keys and the seed/interface/client_stats/persistence/unknown-key variants for both sources; the harness probes every case through make_config + is_valid_config + getters (documented variable names) and TLC decides each probe and a seeded stream of multi-key configurations (Trace_Config.tla). A running in-process Server per non-power-of-two batch_size is also checked to never sign more requests under one root than the configured batch_size (the value the server runs with).",
   note="The probe does not start the server; refused = Err, panic or is_valid_config false; TLC ints are 32-bit so observed values above 2e9 are clamped.",
   technique="TLA+ relation + TLC enumeration of written configurations; probes of the real loaders decided by trace validation"),
 "C17": dict(level="model_checking", ref="6 C17",
   text="Stats.tla models per-worker per-client and aggregated recorders, the snapshot queue and the reporter; TLC checks Conservation, Bounded, UntrackedZero, MergePreserves, Equivalent and the action property Exclusive on every sequence of the 8 recording ops x 3 addresses (+ snapshot/merge/report) up to 3 (quick) / 4 with 2 workers (thorough) ops, and emits one behaviour per transition; each is executed on real PerClientStats(limit)/AggregatedStats/StatsQueue/Reporter objects logging the projection after every op, and TLC validates every step of those logs and of seeded sequences up to 10,000 ops (Trace_Stats.tla: logged post-state must be an allowed outcome; invariants evaluated in every state). Apalache proves Conservation/Bounded/UntrackedZero as an inductive invariant of the recorder (StatsInd.tla: any number of events); the file written by Reporter::report() is decoded (zstd+csv) and compared with the merged sums. The abstract addresses are concretised in turn as IPv4, IPv4-mapped IPv6 (including a mapped address embedding another key's IPv4) and IPv6 addresses. In the running in-process server, valid requests from a source the operating system refuses to send to (raw socket, source port 0) exercise failed sends anywhere in a batch: ServerAbs.tla requires valid = replies + failed, one failed-send count per such request, responses/bytes = what was received.",
   note="Property level allows either counting or overflowing an event for an already-tracked address when the table is full (code overflows). Snapshot replicates Server::send_client_stats on library objects; the running server's wiring is checked by the server suite stage when present.",
   technique="TLA+ state machine + TLC; behaviours replayed into the real recorders; step-wise trace validation against Stats.tla"),

 "C02": dict(level="model_checking", ref="6 C02",
   text="ServerAbs.tla states what every non-fault-injected response must satisfy for the request it answers (signature chain under the long-term key with the protocol's contexts, delegation window, VER/VERS, inclusion proof binding that request under the protocol's hash width at every node, nonce echo, framing); an in-process Server with batch_size 1..64 is driven over consecutive rounds of mixed bursts; every emitted datagram is turned into atomic facts by an independent verifier (own codec, sha2, ed25519-dalek) and TLC validates the whole trace (Trace_Server.tla), including the 6-sigma fault-injection rate over >= 2000 replies per p and the dichotomy for injected replies. Thorough also validates replies of the real server binary.",
   note="Cryptographic equalities are decided by sha2 / ed25519-dalek inside the interpretation; the relation over the execution is decided by TLC. Statistical acceptance region for the fault rate (6 sigma).",
   technique="trace validation of a real in-process Server against the property-level TLA+ spec ServerAbs.tla; independent verifier supplies facts"),
 "C07": dict(level="model_checking", ref="6 C07",
   text="Request.tla classifies every datagram (must / must not / may be answered) from features computed by the interpretation; TLC proves the classification theorems over the enumerated feature space; an in-process Server receives every request length 1016..1508 step 4 for both protocols, unaligned neighbours, nonces of every aligned length, full batches of 64 at maximum path depth, and seeded truncated/extended/field-mutated/random datagrams up to 65507 bytes, each followed by a sentinel; TLC validates the trace: no response to a must-not datagram and no response longer than its request. A backlog of 1000 minimal-size requests handled in one wake-up is included; amplification is judged for every response including duplicates.",
   note="A non-standard nonce length is 'may'. Loopback UDP assumed synchronous; rounds in which the kernel dropped datagrams are discarded (counted).",
   technique="TLA+ classification (Request.tla) + trace validation of a real in-process Server against ServerAbs.tla"),
 "C08": dict(level="model_checking", ref="6 C08",
   text="Server.tla (edge-triggered poll/drain loop, one action per code section) is model-checked for NoStranded and the liveness property Responsive with datagrams arriving at any step; an in-process Server is driven with hostile datagram sequences at every log level Off..Trace (capturing logger that formats every record), fault_percentage 0/50 and several batch sizes, each process_events call under catch_unwind; TLC rejects any round with a panic, a wedge (worker idle while the kernel still queues datagrams for it) or an unanswered valid request.",
   note="Wedge detection reads the socket's rx_queue from /proc/net/udp; a panic is caught per call and the same Server object keeps being used.",
   technique="TLC safety+liveness on Server.tla; trace validation of a real in-process Server against ServerAbs.tla"),
 "C09": dict(level="model_checking", ref="6 C09",
   text="Server.tla is model-checked (AtMostOnce, OwnSlot, ExactlyOnce at quiescence, OwnProtocol, NoReplyToInvalid, NoStranded, BatchBound, Responsive) for batch sizes 1..3 and 4 (thorough 5) datagrams of kinds {classic, IETF, invalid} arriving at any step; every arrival schedule that runs to quiescence is replayed into the real Server through the synchronous hook tracer (arrivals before poll, after the k-th recv, after a WouldBlock); bursts from 48 sockets with several requests per socket, identical nonces, retransmissions (the same datagram from the same socket back to back), requests whose response cannot be sent, late arrivals, backlogs of more batches than one wake-up handles, and batch sizes 1..64 are recorded; TLC validates all traces against ServerAbs.tla (exactly one response, to its sender, own nonce, own proof, own protocol). The spec's stranding variant is used as a self-test.",
   note="Arrival points are reproduced at hook events inside collect_requests; facts about replies come from the interpretation.",
   technique="TLC on Server.tla (refines ServerAbs.tla); arrival schedules replayed through hooks; trace validation"),
 "C10": dict(level="model_checking", ref="6 C10",
   text="Identity.tla models (re)starts creating online keys and certificates through the incremental long-term signer (SignedByLTK, CtxSeparated, StableIdentity; the non-clearing signer variant violates SignedByLTK); in-process servers are started with RFC 8032 vector seeds, degenerate and random seeds, repeatedly and interleaved in one process, and TLC validates that every certificate on the wire verifies under PK(seed) with the protocol's context only and that the announced key is PK(seed); LongTermKey/OnlineKey are probed directly for every seed (public key, SRV value, several certificates per object, delegation window containing midpoints for clocks from the epoch to year 9999).",
   note="PK(seed) and SHA-512 are computed by ed25519-dalek / sha2 (oracle).",
   technique="TLC on Identity.tla; trace validation of real servers per seed; direct probes of LongTermKey"),
 "C11": dict(level="model_checking", ref="6 C11",
   text="Clock.tla defines the midpoint digits (base-10^6 tuples) for both protocols and the 5 s radius; TLC enumerates 13 boundary second values x 10 nanosecond values x 2 protocols and the cases are replayed through OnlineKey::make_srep; 12,000 (thorough 100,000) seeded clocks from the epoch to year 9999 are recorded and re-decided by TLC (Trace_Clock.tla); live in-process servers are bracketed by harness clock readings per request, including a drain loop kept busy for longer than the radius. A retransmitted (byte-identical) request after more than the radius must carry the clock of its own batch.",
   note="64-bit values are converted to digit tuples by the harness (TLC ints are 32-bit); harness and server read the same system clock.",
   technique="TLA+ arithmetic spec + TLC enumeration replayed into make_srep; trace validation of recorded clocks and live replies"),
 "C12": dict(level="model_checking", ref="6 C12",
   text="TLC enumerates all 5461 VER lists of length 0..6 over {draft-13, classic 0, two unknown numbers} x SRV {absent, this server, another server} (16383 cases) from Request.tla and checks the classification theorems; each case is sent to an in-process Server followed by a sentinel, plus the 256 single-bit SRV corruptions, wrong SRV lengths and another server's value; a second configuration enumerates all lists of length 0..3 (thorough 0..4) over draft-13 and eight adversarial unknown numbers (neighbouring entries that contain the draft-13 bytes across their boundary at byte offsets 1/2/3, the number without its top bit, the byte-swapped number); TLC validates reply presence per class and the signed VER/VERS fields.",
   note="draft-13 beyond the fourth VER entry is 'may'.",
   technique="TLC enumeration from Request.tla replayed into a real in-process Server; trace validation against ServerAbs.tla"),
 "C20": dict(level="model_checking", ref="6 C20",
   text="For several seeds x every log level Off..Trace x fault_percentage 0/50 an in-process Server handles valid, invalid and fault-injected traffic with a capturing logger; every emitted datagram and every formatted log record is scanned for the seed, SHA-512(seed)[0..32] and the clamped private scalar in raw, hex (both cases) and base64 (standard, url-safe) forms; the scan results are facts in the trace and TLC rejects any event carrying one (Trace_Server.tla). Thorough adds stdout/stderr and datagrams of the real server binary for file and environment configuration sources. The configuration loaders and validation (accepted and refused configurations, digit-only seeds, KMS ids with a plaintext seed) and, in both tiers, the real binary's stdout/stderr are scanned as well.",
   note="The decisive observation is a byte scan; low-variety seeds are not searched in raw form.",
   technique="trace validation against ServerAbs.tla with leak facts from a byte scan"),

 "C01": dict(level="model_checking", ref="6 C01",
   text="Client.tla models the client's checks (unframe, Merkle, delegation window, DELE signature, SREP signature, print) against responses a network adversary can assemble component-wise (honest, replayed from earlier requests, other protocol, re-signed with own keys, junk; signatures over the attached or another payload); TLC checks Sound, NoTimeOnFailure, VerifiedOnlyWithKey, BindsEvenWithoutKey, Complete (quick 4e5, thorough 5e6+ states) and the two historical client defects are kept as violating constants (self-test). Every recipe within one substitution of the honest response and a seeded sample of farther ones is concretised on the request the REAL client process sent and served to it; single-byte forgeries in every listed byte region, replays within and across runs, truncations, extensions, mutations, re-signing and splices are recorded; TLC decides each run from the facts the independent verifier computed on the served datagram (Trace_Client.tla). Freshness: no duplicate among all observed nonces. Directed multi-request runs include certificate substitution after a genuine response.",
   note="Symbolic cryptography in the model (no forgery/collision); ed25519-dalek/sha2 in the interpretation; authenticity judged on the content a client extracts.",
   technique="TLC on Client.tla; recipes replayed into the real client binary; runs validated against Trace_Client.tla"),
 "C03": dict(level="model_checking", ref="6 C03",
   text="Same specification as C01 (invariant Complete); the real client is run against the harness's honest reference responder (own keys, protocol-width Merkle tree) for version x key option x batch shapes (n,i) up to 64 x 9 midpoint classes from the epoch to year 9999, and against the REAL server binary through a recording relay with 1/8/64 simultaneous requests (all 64 Merkle indices observed); TLC requires exit 0, a time printed for every request, verified exactly when a key was given, and the printed time equal to the signed midpoint converted from the protocol's unit. The honest responder also uses tight delegation windows ([midp, max], [0, midp], [midp, midp]); the real server is also run with batch_size 8 against 12/33 simultaneous requests.",
   note="Printed time is read back with -j -z -f '%s.%f'; the relay sees every datagram so the facts are computed on the real server's responses.",
   technique="TLC on Client.tla; real client vs reference responder and real server; runs validated against Trace_Client.tla"),
 "C15": dict(level="model_checking", ref="6 C15",
   text="Process.tla models main, workers, the configuration mutex (poisoning), the health-check bind, the reporter and the signal handler; TLC checks FullyServing and NeverKeepsRunningDegraded under fairness for N<=3 (the plain-bind variant violates both: self-test) and Server.tla for the worker loop; Health.tla models the edge-triggered health-check listener (accept until WouldBlock; one / bounded accepts per event strand connections: self-tests) and its connection schedules, including connections the peer resets while they wait in the accept queue (a loop ended by the failed write strands the rest: self-test), are replayed into an in-process Server through the hooks. The real binary is started for example.cfg, a default-worker-count configuration and a sample of the documented option space; per run the per-thread hook logs are validated against Process.tla with one cursor per thread (TLC finds the interleaving; worker lock acquisitions are numbered under the mutex), and the observations (N workers serving, bursts answered, every simultaneous TCP health connection answered while time requests are served, no panic output, alive) are decided by the trace specification.",
   note="Schedules of the real process are sampled; exhaustive only in the model. Ports picked by binding port 0 first.",
   technique="TLC liveness/safety on Process.tla; multi-cursor trace validation of the real binary's hook logs and observations"),
 "C18": dict(level="model_checking", ref="6 C18",
   text="Server.tla and Process.tla are model-checked; the real binary with 1..16 workers serves 4..64 concurrent closed-loop reference clients and bursts; every request is validated as a round of ServerAbs.tla (exactly one reply, verified under the single long-term key, own nonce and proof) by Trace_Server.tla, hook logs by Trace_Process.tla; no worker dies. Cluster.tla (kernel hands each datagram to any worker; every valid request answered exactly once under one identity; the dying-worker variant violates liveness) is model-checked for N=3.",
   note="OS scheduling and SO_REUSEPORT distribution are sampled over seeded rounds.",
   technique="trace validation of the real multi-worker binary against ServerAbs.tla and Process.tla"),
 "C19": dict(level="model_checking", ref="6 C19",
   text="Process.tla: liveness Stops (signal leads to exit 0) under weak fairness of every thread and NO fairness or bound on arriving datagrams, CleanExit; the unbounded-drain variant violates Stops with the drain/Arrive lasso (self-test). The real binary is signalled (INT/TERM) at seeded delays while idle, under closed-loop load and under an open-loop flood, with 1/4(/16) workers and the reporter on/off: exit status 0 within 5 s, no panic output, hook logs consistent with Process.tla, every reply received before exit still valid. The statistics reporter thread is traced too (r_pass / r_received / r_reported / r_exit) and Process.tla models its loop; schedules in which a reporter pass outlasts its one-second cadence, or workers are slow at the start-up lock, are produced by delay injection at hook events (the variant in which a long pass kills the reporter violates CleanExit: self-test). Further scenarios: the statistics hand-off under load with a 1 s status interval and the signal sent the moment the server stops answering; file descriptors exhausted when health-check connections arrive, then the signal.",
   note="'a few seconds' = 5 s.",
   technique="TLC liveness on Process.tla; signal scenarios on the real binary validated by Trace_Process.tla / Trace_Server.tla"),
}
PENDING_REASON = "check not built yet in this session (see DESIGN.md section 6 for the planned TLA+ treatment)"

props = [json.loads(l) for l in open("/verif/properties.jsonl")]
hook_commits = subprocess.run(["git", "-C", "/repo", "log", "--format=%H", "--grep=^verif hooks"], capture_output=True, text=True).stdout.split()
m = {
 "version": 1,
 "setup_cmd": "./setup.sh",
 "hooks": {
   "guard": "roughenough_verif",
   "enable": "RUSTFLAGS='--cfg roughenough_verif' (harness/.cargo/config.toml for the in-process harness; CARGO_TARGET_DIR=/verif/.build/repo cargo build --bins for the binaries)",
   "baseline_off_cmd": "cd /repo && cargo test --workspace --no-fail-fast --offline",
   "source_commits": hook_commits,
   "add_only": True,
 },
 "engines": [
   {"name": "tlc", "path": "/opt/veriftools/tla/tla2tools.jar", "serves_properties": sorted(CLAIMED), "kind_free_text": "explicit-state model checker for the TLA+ specifications in spec/ (model checking, behaviour generation, trace validation)"},
   {"name": "rvh", "path": "harness/", "serves_properties": sorted(CLAIMED), "kind_free_text": "Rust conformance harness: replays TLC behaviours into the real code and records abstracted traces of the real code for TLC"},
 ],
 "checks": [],
 "not_applicable": [],
 "notes": "All checks: ./check <ID> quick|thorough. Exit 0 held / 1 VIOLATION / 2 tool error. Known findings: known_findings.json.",
}
for p in props:
    pid = p["id"]
    if pid in CLAIMED:
        c = CLAIMED[pid]
        m["checks"].append({
          "property_id": pid,
          "quick_cmd": "./check %s quick" % pid,
          "thorough_cmd": "./check %s thorough" % pid,
          "evidence_file": "evidence/%s.json" % pid,
          "replay_cmd_template": "./check %s --replay {path}" % pid,
          "engine": "tlc+rvh",
          "level_claimed": {"category": c["level"], "text": c["text"], "design_ref": "DESIGN.md section " + c["ref"]},
          "level_note": c["note"],
          "technique": c["technique"],
        })
    else:
        m["not_applicable"].append({"property_id": pid, "reason": PENDING_REASON})
json.dump(m, open("/verif/MANIFEST.json", "w"), indent=1)
print("claimed", sorted(CLAIMED), "pending", len(m["not_applicable"]))
