#!/usr/bin/env python3
"""Regenerates MANIFEST.json from the table below (single source of truth for the interface)."""
import json, subprocess

CLAIMED = {
 "C04": dict(level="model_checking", ref="6 C04",
   text="TLC exhaustively checks the MerkleTree object spec (Merkle.tla: push/compute_root/get_paths/reset with retained levels) against the tree definition (Complete, MatchesDefinition, Binding, ResetClean) for bounded batches on a reused object; every batch-completing behaviour is replayed on the real MerkleTree (root and every path compared with the interpreted specification terms), and the real object driven for all n=1..255, size pairs and sequences is trace-validated by TLC (Trace_Merkle.tla).",
   note="Symbolic hashing (SHA-512 collisions out of model); interpretation I uses the sha2 crate; node/root widths per profile are calibrated from the implementation because C04 does not fix them (C02 does).",
   technique="TLA+ object spec + TLC; behaviours replayed into MerkleTree; recorded batches validated against Trace_Merkle.tla"),
}
PENDING_REASON = "check not built yet in this session (see DESIGN.md section 6 for the planned TLA+ treatment)"

props = [json.loads(l) for l in open("/verif/properties.jsonl")]
hook_commits = subprocess.run(["git", "-C", "/repo", "log", "--format=%H", "--grep=^verif hooks"], capture_output=True, text=True).stdout.split()
m = {
 "version": 1,
 "setup_cmd": "./setup.sh",
 "hooks": {
   "guard": "roughenough_verif",
   "enable": "RUSTFLAGS='--cfg roughenough_verif' (harness/.cargo/config.toml for the in-process harness; CARGO_TARGET_DIR=/verif/.build/repo cargo build --bins for the binaries)",
   "baseline_off_cmd": "cd /repo && cargo test --workspace --no-fail-fast --offline",
   "source_commits": hook_commits,
   "add_only": True,
 },
 "engines": [
   {"name": "tlc", "path": "/opt/veriftools/tla/tla2tools.jar", "serves_properties": sorted(CLAIMED), "kind_free_text": "explicit-state model checker for the TLA+ specifications in spec/ (model checking, behaviour generation, trace validation)"},
   {"name": "rvh", "path": "harness/", "serves_properties": sorted(CLAIMED), "kind_free_text": "Rust conformance harness: replays TLC behaviours into the real code and records abstracted traces of the real code for TLC"},
 ],
 "checks": [],
 "not_applicable": [],
 "notes": "All checks: ./check <ID> quick|thorough. Exit 0 held / 1 VIOLATION / 2 tool error. Known findings: known_findings.json.",
}
for p in props:
    pid = p["id"]
    if pid in CLAIMED:
        c = CLAIMED[pid]
        m["checks"].append({
          "property_id": pid,
          "quick_cmd": "./check %s quick" % pid,
          "thorough_cmd": "./check %s thorough" % pid,
          "evidence_file": "evidence/%s.json" % pid,
          "replay_cmd_template": "./check %s --replay {path}" % pid,
          "engine": "tlc+rvh",
          "level_claimed": {"category": c["level"], "text": c["text"], "design_ref": "DESIGN.md section " + c["ref"]},
          "level_note": c["note"],
          "technique": c["technique"],
        })
    else:
        m["not_applicable"].append({"property_id": pid, "reason": PENDING_REASON})
json.dump(m, open("/verif/MANIFEST.json", "w"), indent=1)
print("claimed", sorted(CLAIMED), "pending", len(m["not_applicable"]))
