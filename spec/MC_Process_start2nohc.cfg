SPECIFICATION Spec
CONSTANTS
  N = 2
  Hc = FALSE
  HcReusePort = TRUE
  ClientStats = FALSE
  DrainBounded = TRUE
  MaxDrain = 2
  Q = 2
  AllowSignal = FALSE
  ReporterFragile = FALSE
INVARIANTS LockOwnerConsistent NoPanic CleanExit
PROPERTIES FullyServing NeverKeepsRunningDegraded
CHECK_DEADLOCK FALSE
