SPECIFICATION Spec
CONSTANTS
  N = 2
  Hc = TRUE
  HcReusePort = TRUE
  ClientStats = TRUE
  DrainBounded = TRUE
  MaxDrain = 2
  Q = 2
  AllowSignal = TRUE
  ReporterFragile = FALSE
INVARIANTS LockOwnerConsistent NoPanic CleanExit
PROPERTIES Stops NeverKeepsRunningDegraded
CHECK_DEADLOCK FALSE
