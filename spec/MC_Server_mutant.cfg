SPECIFICATION MSpec
CONSTANTS
  B = 2
  MaxArr = 4
  Srcs = {1}
  LevelTriggered = FALSE
  MaxBatches = 1000
  DrainExitsOnEmptyBatch = TRUE
VIEW mview
ACTION_CONSTRAINT Emit
INVARIANTS AtMostOnce OwnSlot Faithful NoStranded BatchBound ExactlyOnce OwnProtocol NoReplyToInvalid
PROPERTY Responsive
CHECK_DEADLOCK FALSE
