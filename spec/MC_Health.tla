---- MODULE MC_Health ----
EXTENDS Health, Json
Emit == (pc' = "poll" /\ ~hcEdge' /\ hcq' = <<>> /\ conns' = MaxConns /\ pc # "poll") =>
            PrintT(ToJson([suite |-> "health", pre |-> sched'.pre, during |-> sched'.during, kinds |-> kinds']))
====
