---------------------------- MODULE Trace_Config ----------------------------
(* Trace validation for C16 (code -> spec): each event is one real make_config +
   is_valid_config probe: what was written (w), through which source, and the outcome o read
   back through the ServerConfig getters (running = loader returned a config and the validator
   accepted it; a panic or Err is "not running"). TLC re-decides Allowed(w, o). *)
EXTENDS Config, Json, IOUtils, TLCExt

Rec == ndJsonDeserialize(IOEnv.TRACE)
VARIABLE l

EventOk(e) == Allowed(e.w, e.o) /\ e.class = Class(e.w)

TInit == l = 1 /\ TLCSet(2, <<>>)
TNext == /\ l <= Len(Rec)
         /\ IF EventOk(Rec[l]) THEN TRUE ELSE TLCSet(2, TLCGet(2) \o <<l>>)
         /\ l' = l + 1
TSpec == TInit /\ [][TNext]_l

Accepted ==
    LET bad == TLCGet(2)
        consumed == TLCGet("stats").diameter - 1
    IN IF consumed = Len(Rec) /\ bad = <<>>
       THEN PrintT(ToJson([trace |-> "accepted", events |-> Len(Rec)]))
       ELSE PrintT(ToJson([trace |-> "rejected", matched |-> consumed, events |-> Len(Rec),
                           bad |-> SubSeq(bad, 1, IF Len(bad) < 200 THEN Len(bad) ELSE 200), nbad |-> Len(bad)])) /\ FALSE
=============================================================================
