SPECIFICATION Spec
CONSTANTS
  N = 3
  B = 2
  MaxArr = 4
  WorkersMayDie = TRUE
INVARIANTS AtMostOnce NoReplyToInvalid SingleIdentity OwnProtocolKey
PROPERTY EveryoneAnswered
CHECK_DEADLOCK FALSE
