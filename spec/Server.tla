-------------------------------- MODULE Server --------------------------------
(***************************************************************************)
(* Implementation-level specification of one serving worker                 *)
(* (src/server.rs process_events / collect_requests, src/responder.rs):     *)
(* a poll loop (level-triggered since the bounded-drain fix; the           *)
(* edge-triggered original is kept as a constant)                           *)
(*     Poll ; for each event: loop { Reset ; Collect <= B datagrams ;        *)
(*            SendIetf ; SendClassic ; break if the socket was found empty } *)
(* with datagrams arriving at any moment. One action per code section.      *)
(* Datagram kinds: "C" valid classic, "I" valid IETF, "X" invalid,          *)
(* "U" valid classic from a source the OS refuses to send to.              *)
(* The statistics recorder is part of the loop (C17 wiring).                *)
(* Refines ServerAbs: exactly one response per valid request, to its        *)
(* sender, from a batch of its own protocol, proving its own slot.          *)
(***************************************************************************)
EXTENDS Naturals, Sequences, FiniteSets, TLC

CONSTANTS B,            \* batch_size
          MaxArr,       \* bound on datagrams
          Srcs,         \* source sockets
          LevelTriggered,         \* TRUE = as coded: the UDP socket is registered level-triggered (poll reports it while
                                  \* datagrams are queued); FALSE = edge-triggered (reported once per arrival burst)
          MaxBatches,             \* batches handled per wake-up (MAX_BATCHES_PER_WAKEUP); with an edge-triggered socket
                                  \* only an unbounded drain is safe
          Kinds,                  \* kinds of datagrams: "C" valid classic, "I" valid IETF, "X" invalid, and "U" = a valid classic
                                  \* request whose source address the operating system refuses to send to (send_to fails)
          StaleFailFlag,          \* FALSE = as coded: the success flag is per response. TRUE = a (wrong) variant in which one failed send
                                  \* makes the recorder count the rest of the batch as failed too (kept as a self-test of StatsResponses)
          DrainExitsOnEmptyBatch  \* FALSE = as coded. TRUE = a (wrong) variant that leaves the drain loop when a
                                  \* batch contained no valid request; kept to show the spec detects stranding

VARIABLES sockq,        \* kernel receive queue: sequence of [id, k, src]
          edge,         \* edge-triggered readiness: set by an arrival, cleared when poll reports it
          pc,           \* "poll" | "dispatch" | "reset" | "collect" | "sendI" | "sendC"
          polled,       \* the polled event is being handled
          i,            \* datagrams read in the current batch (counts invalid ones too)
          reqI, reqC,   \* the two responders' request vectors (leaves are pushed in the same order)
          empty,        \* collect_requests saw WouldBlock
          out,          \* responses sent
          arrived,      \* ids handed out
          nb,           \* batches handled in the current wake-up
          nrecv, nempty,\* hook ordinals within this run: recv events, recv_empty events
          stats,        \* the statistics recorder as wired into the loop: [valid, invalid, responses, failed]
          hist          \* arrival schedule as the harness can reproduce it

vars == <<sockq, edge, pc, polled, i, reqI, reqC, empty, out, arrived, nb, nrecv, nempty, stats, hist>>
view == <<sockq, edge, pc, polled, i, reqI, reqC, empty, out, arrived, nb, stats>>


Init == /\ sockq = <<>> /\ edge = FALSE /\ pc = "poll" /\ polled = FALSE /\ i = 0
        /\ reqI = <<>> /\ reqC = <<>> /\ empty = FALSE /\ out = {} /\ arrived = 0
        /\ nb = 0 /\ nrecv = 0 /\ nempty = 0 /\ stats = [valid |-> 0, invalid |-> 0, responses |-> 0, failed |-> 0] /\ hist = [pre |-> <<>>, inj |-> <<>>]

\* where, in terms of the hooks, an arrival happens
ArrivalPoint == IF nrecv = 0 /\ pc = "poll" /\ nempty = 0 THEN "pre"
                ELSE IF pc = "collect" \/ (pc \in {"sendI", "sendC", "reset"} /\ ~empty) THEN "recv"
                ELSE "empty"

Arrive(k, s) ==
    /\ arrived < MaxArr
    /\ arrived' = arrived + 1
    /\ sockq' = Append(sockq, [id |-> arrived + 1, k |-> k, src |-> s])
    /\ edge' = TRUE
    /\ hist' = IF ArrivalPoint = "pre" THEN [hist EXCEPT !.pre = Append(@, k)]
               ELSE [hist EXCEPT !.inj = Append(@, <<ArrivalPoint, IF ArrivalPoint = "recv" THEN nrecv ELSE nempty, k>>)]
    /\ UNCHANGED <<pc, polled, i, reqI, reqC, empty, out, nb, nrecv, nempty, stats>>

Ready == IF LevelTriggered THEN sockq # <<>> ELSE edge
Poll == /\ pc = "poll" /\ Ready              \* (a poll with nothing ready just times out and polls again)
        /\ edge' = FALSE /\ polled' = TRUE /\ pc' = "reset" /\ nb' = 0
        /\ UNCHANGED <<sockq, i, reqI, reqC, empty, out, arrived, nrecv, nempty, stats, hist>>

Reset == /\ pc = "reset"
         /\ reqI' = <<>> /\ reqC' = <<>> /\ i' = 0 /\ empty' = FALSE /\ pc' = "collect"
         /\ UNCHANGED <<sockq, edge, polled, out, arrived, nb, nrecv, nempty, stats, hist>>

Collect ==
    /\ pc = "collect"
    /\ IF i = B THEN /\ pc' = "sendI" /\ UNCHANGED <<sockq, i, reqI, reqC, empty, nrecv, nempty, stats>>
       ELSE IF sockq = <<>> THEN /\ empty' = TRUE /\ nempty' = nempty + 1 /\ pc' = "sendI"       \* WouldBlock
                                 /\ UNCHANGED <<sockq, i, reqI, reqC, nrecv, stats>>
       ELSE LET d == Head(sockq) IN
            /\ sockq' = Tail(sockq) /\ i' = i + 1 /\ nrecv' = nrecv + 1
            /\ reqI' = IF d.k = "I" THEN Append(reqI, d) ELSE reqI
            /\ reqC' = IF d.k \in {"C", "U"} THEN Append(reqC, d) ELSE reqC
            \* the recorder counts every datagram once, here: as a valid request of its protocol or as invalid
            /\ stats' = IF d.k = "X" THEN [stats EXCEPT !.invalid = @ + 1] ELSE [stats EXCEPT !.valid = @ + 1]
            /\ UNCHANGED <<pc, empty, nempty>>
    /\ UNCHANGED <<edge, polled, out, arrived, nb, hist>>

\* every queued request gets its own index and path; the send to an unroutable source fails: nothing leaves,
\* the recorder counts one failed send for it and a response (with its bytes) for each of the others
Resp(v, rs) == {[req |-> rs[j].id, dst |-> rs[j].src, v |-> v, idx |-> j - 1, n |-> Len(rs),
                 batch |-> [m \in 1..Len(rs) |-> rs[m].id]] : j \in {x \in 1..Len(rs) : rs[x].k # "U"}}
NFailed(rs) == Cardinality({x \in 1..Len(rs) : rs[x].k = "U"})
FirstFail(rs) == IF NFailed(rs) = 0 THEN Len(rs) + 1 ELSE CHOOSE x \in 1..Len(rs) : rs[x].k = "U" /\ \A y \in 1..(x - 1) : rs[y].k # "U"
Counted(rs) == IF StaleFailFlag
               THEN [stats EXCEPT !.responses = @ + FirstFail(rs) - 1, !.failed = @ + Len(rs) - (FirstFail(rs) - 1)]
               ELSE [stats EXCEPT !.responses = @ + Len(rs) - NFailed(rs), !.failed = @ + NFailed(rs)]

SendI == /\ pc = "sendI" /\ out' = out \cup Resp("I", reqI) /\ pc' = "sendC" /\ stats' = Counted(reqI)
         /\ UNCHANGED <<sockq, edge, polled, i, reqI, reqC, empty, arrived, nb, nrecv, nempty, hist>>

SendC == /\ pc = "sendC" /\ out' = out \cup Resp("C", reqC) /\ stats' = Counted(reqC)
         /\ LET leave == empty \/ nb + 1 >= MaxBatches \/ (DrainExitsOnEmptyBatch /\ reqI = <<>> /\ reqC = <<>>) IN
            IF leave THEN pc' = "poll" /\ polled' = FALSE ELSE pc' = "reset" /\ UNCHANGED polled
         /\ nb' = nb + 1
         /\ UNCHANGED <<sockq, edge, i, reqI, reqC, empty, arrived, nrecv, nempty, hist>>

Worker == Poll \/ Reset \/ Collect \/ SendI \/ SendC
Next == Worker \/ \E k \in Kinds, s \in Srcs : Arrive(k, s)

Spec == Init /\ [][Next]_vars /\ WF_vars(Worker)

\* ------------------------------------------------------------------ properties
Valid(d) == d.k # "X"
AtMostOnce == \A r1, r2 \in out : r1.req = r2.req => r1 = r2
OwnSlot == \A r \in out : r.idx < r.n /\ r.batch[r.idx + 1] = r.req
\* every response belongs to a valid request of the same protocol and goes to its source
Faithful == \A r \in out : r.req <= arrived
\* nothing is stranded: when the worker is back in poll with no readiness pending, the queue is empty
NoStranded == (pc = "poll" /\ sockq # <<>>) => Ready
\* batch size respected: a signed batch never holds more than B requests
BatchBound == Len(reqI) + Len(reqC) <= B /\ i <= B
\* at quiescence every valid request received has its response
Quiescent == pc = "poll" /\ sockq = <<>> /\ (LevelTriggered \/ ~edge)
ValidIds == {r.req : r \in out}
\* C17 wiring: every consumed datagram is counted exactly once; responses counted are the responses sent; once the
\* worker is back in poll every valid request has been either answered or counted as a failed send
StatsConserve == stats.valid + stats.invalid = nrecv
StatsResponses == stats.responses = Cardinality(out)
StatsSettled == pc = "poll" => stats.valid = stats.responses + stats.failed
\* liveness: the worker always gets back to poll, and every arrived datagram is eventually consumed
Responsive == []<>(pc = "poll") /\ \A n \in 1..MaxArr : [](arrived >= n => <>(nrecv >= n))
=============================================================================
