SPECIFICATION Spec
CONSTANTS
  SigFailureIsFatal = TRUE
  IetfLeafIsRequest = TRUE
  MaxResponses = 2
  MaxDist = 3
  FullProduct = TRUE
ACTION_CONSTRAINT Emit
INVARIANTS Sound NoTimeOnFailure VerifiedOnlyWithKey BindsEvenWithoutKey Complete
CHECK_DEADLOCK FALSE
