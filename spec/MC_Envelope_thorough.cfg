SPECIFICATION Spec
CONSTANTS
  WrappedLens = {16, 20, 32, 48, 255, 256, 1024}
  PlainLens = {32, 33, 48, 64}
  MaxTamper = 1
  EveryPos = TRUE
ACTION_CONSTRAINT Emit
INVARIANTS RoundTrip TamperDetected NoOtherPlaintext NoLeak
CHECK_DEADLOCK FALSE
