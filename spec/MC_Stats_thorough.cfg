SPECIFICATION Spec
CONSTANTS
  Workers = {1, 2}
  Addrs = {1, 2, 3}
  Limit = 2
  QueueCap = 2
  FullMeansOverflow = FALSE
  MaxOps = 4
VIEW view
ACTION_CONSTRAINT Emit
INVARIANTS Conservation Bounded UntrackedZero MergePreserves Equivalent
PROPERTY Exclusive
CHECK_DEADLOCK FALSE
