------------------------------- MODULE Request -------------------------------
(***************************************************************************)
(* C07 / C12: which datagrams the server must, must not, or may answer,     *)
(* as a function of features the interpretation computes on the bytes:      *)
(*   len         datagram length in bytes                                   *)
(*   magic       starts with "ROUGHTIM" (RFC framing => IETF request)       *)
(*   framelen_ok (magic) the frame length field equals len - 12             *)
(*   dec         "ok" iff the reference decoder accepts the payload         *)
(*   has_nonc, noncelen                                                     *)
(*   has_ver, ver  VER list as codes: 13 = draft-13, 0 = classic, >= 1001 unknown *)
(*   srv         "absent" | "ok" (this server's value) | "wrong" | "badlen" *)
(***************************************************************************)
EXTENDS Naturals, Sequences, TLC

MinLen == 1024
MaxLen == 1500
Draft13 == 13

InFirst(n, ver) == \E i \in 1..(IF Len(ver) < n THEN Len(ver) ELSE n) : ver[i] = Draft13
Anywhere(ver) == \E i \in 1..Len(ver) : ver[i] = Draft13

\* "must" = has to be answered, "mustnot" = has to be dropped silently, "may" = either
Classify(f) ==
    IF f.len < MinLen \/ f.len > MaxLen THEN "mustnot"
    ELSE IF f.magic THEN
        IF ~f.framelen_ok \/ f.dec # "ok" THEN "mustnot"
        ELSE IF ~f.has_ver \/ ~Anywhere(f.ver) THEN "mustnot"       \* names no supported version
        ELSE IF f.srv \in {"wrong", "badlen"} THEN "mustnot"        \* addressed to another server
        ELSE IF ~f.has_nonc THEN "mustnot"
        ELSE IF InFirst(4, f.ver) /\ f.noncelen = 32 THEN "must"
        ELSE "may"                                                  \* draft-13 only beyond the 4th entry; odd nonce size
    ELSE
        IF f.dec # "ok" \/ ~f.has_nonc THEN "mustnot"
        ELSE IF f.noncelen = 64 THEN "must"
        ELSE "may"

ProtoOf(f) == IF f.magic THEN "I" ELSE "G"
=============================================================================
