SPECIFICATION Spec
CONSTANTS
  MaxEdits = 2
ACTION_CONSTRAINT Emit
INVARIANTS Trichotomy IdealAllowed
CHECK_DEADLOCK FALSE
