-------------------------------- MODULE Stats --------------------------------
(***************************************************************************)
(* C17: request statistics in src/stats.                                       *)
(*                                                                         *)
(* Per worker w: a per-client recorder (tracked addresses, 9 counters each, *)
(* overflow count, client limit) and an aggregated recorder (9 totals).     *)
(* Recording ops (kind k in 1..8, address a, bytes b):                      *)
(*   1 ietf request   2 classic request   3 invalid request  4 failed send  *)
(*   5 retried send   6 health check      7 rfc response(b)  8 classic response(b) *)
(* Counter tuple: positions 1..8 = the eight kinds, position 9 = bytes sent.*)
(* Snapshot(w): send_client_stats - push the per-client entries to the      *)
(* queue and clear the recorder (only when there is at least one entry).    *)
(* Merge: the reporter pops every queued snapshot and adds per address.     *)
(***************************************************************************)
EXTENDS Naturals, Sequences, FiniteSets, TLC

CONSTANTS Workers, Addrs,
          FullMeansOverflow      \* TRUE: as coded (an event for an already-tracked address is ALSO
                                 \* counted as overflow once the table is full); FALSE: the property
                                 \* allows either outcome for that case

Zero == <<0, 0, 0, 0, 0, 0, 0, 0, 0>>
Bump(c, k, b) == [c EXCEPT ![k] = @ + 1, ![9] = @ + (IF k \in {7, 8} THEN b ELSE 0)]
Add(c, d) == [i \in 1..9 |-> c[i] + d[i]]

VARIABLES limit,     \* client limit of every per-client recorder (MAX_CLIENTS; small in verification builds)
          qcap,      \* capacity of the snapshot queue (2 x workers in the server)
          tracked,   \* [Workers -> SUBSET Addrs]
          cnt,       \* [Workers -> [Addrs -> counters]]   (Zero for untracked)
          ovf,       \* [Workers -> Nat]
          agg,       \* [Workers -> counters]              aggregated recorder fed with the same events
          queue,     \* sequence of snapshots; a snapshot is [Addrs -> counters] with the tracked set
          rep,       \* reporter: [Addrs -> counters]
          popped,    \* ghost: sum of every snapshot the reporter has popped since its last report
          nev        \* ghost: [Workers -> Nat] events recorded since the last clear of that worker

svars == <<limit, qcap, tracked, cnt, ovf, agg, queue, rep, popped, nev>>

AllZero == [a \in Addrs |-> Zero]

SInit(lim, qc) ==
         /\ limit = lim /\ qcap = qc
         /\ tracked = [w \in Workers |-> {}]
         /\ cnt = [w \in Workers |-> AllZero]
         /\ ovf = [w \in Workers |-> 0]
         /\ agg = [w \in Workers |-> Zero]
         /\ queue = <<>> /\ rep = AllZero /\ popped = AllZero
         /\ nev = [w \in Workers |-> 0]

\* the two ways an event may be reflected in worker w's per-client recorder: [t, c, o] = new
\* tracked set, new counters, new overflow count
CountedOutcome(w, k, a, b) == [t |-> tracked[w] \cup {a}, c |-> [cnt[w] EXCEPT ![a] = Bump(@, k, b)], o |-> ovf[w]]
OverflowOutcome(w) == [t |-> tracked[w], c |-> cnt[w], o |-> ovf[w] + 1]
RecOutcomes(w, k, a, b) ==
    IF Cardinality(tracked[w]) >= limit
    THEN {OverflowOutcome(w)} \cup (IF ~FullMeansOverflow /\ a \in tracked[w] THEN {CountedOutcome(w, k, a, b)} ELSE {})
    ELSE {CountedOutcome(w, k, a, b)}

Rec(w, k, a, b) ==
    /\ agg' = [agg EXCEPT ![w] = Bump(@, k, b)]
    /\ nev' = [nev EXCEPT ![w] = @ + 1]
    /\ \E out \in RecOutcomes(w, k, a, b) :
          /\ tracked' = [tracked EXCEPT ![w] = out.t]
          /\ cnt' = [cnt EXCEPT ![w] = out.c]
          /\ ovf' = [ovf EXCEPT ![w] = out.o]
    /\ UNCHANGED <<limit, qcap, queue, rep, popped>>

Snapshot(w) ==
    /\ IF tracked[w] # {}
       THEN /\ queue' = (IF Len(queue) >= qcap THEN Tail(queue) ELSE queue) \o <<[t |-> tracked[w], c |-> cnt[w]]>>  \* force_push
            /\ tracked' = [tracked EXCEPT ![w] = {}]
            /\ cnt' = [cnt EXCEPT ![w] = AllZero]
            /\ ovf' = [ovf EXCEPT ![w] = 0]
            /\ nev' = [nev EXCEPT ![w] = 0]
       ELSE UNCHANGED <<queue, tracked, cnt, ovf, nev>>
    /\ UNCHANGED <<limit, qcap, agg, rep, popped>>

\* ServerStats::clear() on both recorders of worker w: every counter, the tracked set and the overflow count start over
ClearAll(w) ==
    /\ tracked' = [tracked EXCEPT ![w] = {}] /\ cnt' = [cnt EXCEPT ![w] = AllZero] /\ ovf' = [ovf EXCEPT ![w] = 0]
    /\ agg' = [agg EXCEPT ![w] = Zero] /\ nev' = [nev EXCEPT ![w] = 0]
    /\ UNCHANGED <<limit, qcap, queue, rep, popped>>

Merge ==
    /\ queue # <<>>
    /\ LET s == Head(queue) IN
       /\ rep' = [a \in Addrs |-> IF a \in s.t THEN Add(rep[a], s.c[a]) ELSE rep[a]]
       /\ popped' = [a \in Addrs |-> IF a \in s.t THEN Add(popped[a], s.c[a]) ELSE popped[a]]
    /\ queue' = Tail(queue)
    /\ UNCHANGED <<limit, qcap, tracked, cnt, ovf, agg, nev>>

Report == /\ rep' = AllZero /\ popped' = AllZero
          /\ UNCHANGED <<limit, qcap, tracked, cnt, ovf, agg, queue, nev>>

\* ------------------------------------------------------------------ properties
RECURSIVE SumOver(_, _)
SumOver(S, f) == IF S = {} THEN Zero ELSE LET a == CHOOSE x \in S : TRUE IN Add(f[a], SumOver(S \ {a}, f))
Totals(w) == SumOver(tracked[w], cnt[w])
RECURSIVE SumKinds(_, _)
SumKinds(c, k) == IF k = 0 THEN 0 ELSE c[k] + SumKinds(c, k - 1)

\* every event since the last clear is in exactly one place
Conservation == \A w \in Workers : SumKinds(Totals(w), 8) + ovf[w] = nev[w]
Bounded == \A w \in Workers : Cardinality(tracked[w]) <= limit
UntrackedZero == \A w \in Workers, a \in Addrs : a \notin tracked[w] => cnt[w][a] = Zero
\* an event changes exactly one of {its own counter (+ bytes), overflow}
Exclusive == [][\A w \in Workers, k \in 1..8, a \in Addrs, b \in {0, 360, 436} :
                  Rec(w, k, a, b) =>
                    \/ (ovf'[w] = ovf[w] + 1 /\ cnt' = cnt)
                    \/ (ovf' = ovf /\ cnt' = [cnt EXCEPT ![w][a] = Bump(cnt[w][a], k, b)])]_svars
\* merging preserves every per-address sum
MergePreserves == rep = popped
=============================================================================
