SPECIFICATION Spec
CONSTANTS
  N = 3
  B = 2
  MaxArr = 4
  WorkersMayDie = FALSE
INVARIANTS AtMostOnce NoReplyToInvalid SingleIdentity OwnProtocolKey NoWorkerDies
PROPERTY EveryoneAnswered
CHECK_DEADLOCK FALSE
