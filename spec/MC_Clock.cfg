SPECIFICATION Spec
ACTION_CONSTRAINT Emit
INVARIANT WithinRadius
CHECK_DEADLOCK FALSE
