-------------------------------- MODULE Clock --------------------------------
(***************************************************************************)
(* C11: the signed midpoint is the clock reading taken when the batch was   *)
(* signed, in the protocol's unit (src/key/online.rs make_srep).            *)
(* TLC integers are 32-bit, so 64-bit quantities are digit tuples in base   *)
(* 10^6:  seconds = <<hi, lo>> = hi * 10^6 + lo;  microseconds = <<hi, lo,  *)
(* us>>. The conversion between u64 and digits is done by the harness.      *)
(***************************************************************************)
EXTENDS Naturals, Sequences, TLC

M == 1000000
\* classic: microseconds since the epoch = seconds * 10^6 + nanoseconds / 1000 (truncated)
MidpG(s, ns) == <<s[1], s[2], ns \div 1000>>
\* IETF: whole seconds since the epoch
MidpI(s, ns) == s
Midp(v, s, ns) == IF v = "G" THEN MidpG(s, ns) ELSE MidpI(s, ns)
\* radius: five seconds in the same unit
Radi(v) == IF v = "G" THEN 5000000 ELSE 5

\* |now - midpoint| <= radius, in the protocol's unit (the true time of signing lies in the window)
Within(v, s, ns) ==
    IF v = "G" THEN MidpG(s, ns)[1] = s[1] /\ MidpG(s, ns)[2] = s[2] /\ MidpG(s, ns)[3] * 1000 <= ns /\ ns - MidpG(s, ns)[3] * 1000 < 1000
    ELSE MidpI(s, ns) = s
=============================================================================
