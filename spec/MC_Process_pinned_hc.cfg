SPECIFICATION Spec
CONSTANTS
  N = 3
  Hc = TRUE
  HcReusePort = FALSE
  ClientStats = FALSE
  DrainBounded = TRUE
  MaxDrain = 2
  Q = 2
  AllowSignal = FALSE
  ReporterFragile = FALSE
INVARIANTS LockOwnerConsistent 
PROPERTIES FullyServing
CHECK_DEADLOCK FALSE
