------------------------------ MODULE MC_Wire ------------------------------
(* Bounded-exhaustive exploration of the wire format (C05, C06) and behaviour generation.
   Two generators share one state space:
     gen = "raw"   : every word sequence up to MaxWords over Alphabet (+ unaligned tails)
     gen = "build" : the message-builder object (add_field with its ordering rule, encode)
                     followed by one or two structured mutations of the encoding
   Every state prints one test case: the input and what the reference decoder says. *)
EXTENDS Wire, Json

CONSTANTS MaxWords, MaxFields, MaxMut, BuildTags, BuildLens

Alphabet == { <<0, 0>>, <<1, 0>>, <<2, 0>>, <<3, 0>>, <<4, 0>>, <<5, 0>>, <<8, 0>>, <<12, 0>>, <<1024, 0>>,
              <<65536, 0>>, <<Big, 0>>, <<Big + 3, 0>>,
              StdTagW(1), StdTagW(4), StdTagW(10), StdTagW(14), StdTagW(18) }

ValWords == << <<0, 0>>, <<4, 0>>, StdTagW(1), <<8, 0>>, StdTagW(4), <<1, 0>> >>
ValueOf(k, len) == [j \in 1..len |-> ValWords[((k + j) % Len(ValWords)) + 1]]

VARIABLES gen, ws, tail, tags, lens, muts, last,
          cleared     \* the builder object was used before and clear()ed (at most once per behaviour)
vars == <<gen, ws, tail, tags, lens, muts, last, cleared>>

Vals == [k \in 1..Len(tags) |-> ValueOf(k, lens[k])]

\* a word that is NOT a tag but differs from one in a single byte: "PAD\x00" (4473168 = 0x00444150); PAD is "PAD\xff"
NearPad == <<4473168, 0>>
\* header-shaped generator: count word nt in {3, 4}, then nt-1 offsets, nt tags, up to 4 value words
OffAlphabet3 == { <<0, 0>>, <<1, 0>>, <<2, 0>>, <<3, 0>>, <<4, 0>>, <<5, 0>>, <<8, 0>>, <<12, 0>>, <<16, 0>>,
                  <<20, 0>>, <<Big, 0>>, <<Big + 3, 0>> }
OffAlphabet4 == { <<0, 0>>, <<2, 0>>, <<4, 0>>, <<8, 0>>, <<12, 0>>, <<Big, 0>> }
HdrAlphabet ==
    IF ws = <<>> THEN { <<3, 0>>, <<4, 0>> }
    ELSE LET nt == V(ws[1]) pos == Len(ws) + 1 IN
         IF pos <= nt THEN (IF nt = 3 THEN OffAlphabet3 ELSE OffAlphabet4)
         ELSE IF pos <= 2 * nt THEN (IF nt = 3 THEN { StdTagW(1), StdTagW(4), StdTagW(18), NearPad } ELSE { StdTagW(pos - nt) })
         ELSE IF pos <= 2 * nt + 4 THEN { <<0, 0>> } ELSE {}

Init == /\ gen \in {"raw", "build", "hdr"}
        /\ ws = <<>> /\ tail = 0 /\ tags = <<>> /\ lens = <<>> /\ muts = 0
        /\ last = [op |-> "init"] /\ cleared = FALSE

\* ---- raw generator
AppendWord(w) == /\ gen = "raw" /\ tail = 0 /\ Len(ws) < MaxWords
                 /\ ws' = Append(ws, w) /\ last' = [op |-> "word"]
                 /\ UNCHANGED <<gen, tail, tags, lens, muts, cleared>>
HdrWord(w) == /\ gen = "hdr" /\ ws' = Append(ws, w) /\ last' = [op |-> "hdr"]
              /\ UNCHANGED <<gen, tail, tags, lens, muts, cleared>>
SetTail(k) == /\ gen = "raw" /\ tail = 0 /\ Len(ws) <= 2
              /\ tail' = k /\ last' = [op |-> "tail"]
              /\ UNCHANGED <<gen, ws, tags, lens, muts, cleared>>

\* ---- builder object (RtMessage::add_field / encode)
AddField(r, n) ==
    /\ gen = "build" /\ ws = <<>> /\ Len(tags) < MaxFields
    /\ IF tags # <<>> /\ r <= tags[Len(tags)]
       THEN /\ last' = [op |-> "add_rejected", tag |-> r]      \* Err(TagNotStrictlyIncreasing), unchanged
            /\ UNCHANGED <<tags, lens>>
       ELSE /\ tags' = Append(tags, r) /\ lens' = Append(lens, n)
            /\ last' = [op |-> "add", tag |-> r]
    /\ UNCHANGED <<gen, ws, tail, muts, cleared>>
\* RtMessage::clear(): the object is empty again; what is built afterwards must not depend on what it held
Clear == /\ gen = "build" /\ ws = <<>> /\ tags # <<>> /\ ~cleared
         /\ tags' = <<>> /\ lens' = <<>> /\ cleared' = TRUE /\ last' = [op |-> "clear"]
         /\ UNCHANGED <<gen, ws, tail, muts>>
AddAll == /\ gen = "build" /\ ws = <<>> /\ tags = <<>>
          /\ tags' = [k \in 1..NumTags |-> k] /\ lens' = [k \in 1..NumTags |-> k % 3]
          /\ last' = [op |-> "addall"]
          /\ UNCHANGED <<gen, ws, tail, muts, cleared>>
DoEncode == /\ gen = "build" /\ ws = <<>>
            /\ ws' = Encode(tags, Vals, StdTagW)
            /\ last' = [op |-> "encode"]
            /\ UNCHANGED <<gen, tail, tags, lens, muts, cleared>>
\* ---- structured mutations of an encoding
Mutate == /\ gen = "build" /\ ws # <<>> /\ muts < MaxMut /\ Len(tags) <= MaxFields
          /\ muts' = muts + 1
          /\ \/ \E k \in 1..Len(ws), w \in Alphabet :
                  w # ws[k] /\ ws' = [ws EXCEPT ![k] = w] /\ last' = [op |-> "set", k |-> k]
             \/ \E k \in 1..Len(ws) :
                  ws' = SubSeq(ws, 1, k - 1) \o SubSeq(ws, k + 1, Len(ws)) /\ last' = [op |-> "del", k |-> k]
             \/ \E w \in Alphabet : ws' = Append(ws, w) /\ last' = [op |-> "app", k |-> 0]
             \/ \E k \in 0..(Len(ws) - 1) : ws' = SubSeq(ws, 1, k) /\ last' = [op |-> "trunc", k |-> k]
          /\ UNCHANGED <<gen, tail, tags, lens, cleared>>

Next == \/ \E w \in Alphabet : AppendWord(w)
        \/ (gen = "hdr" /\ \E w \in HdrAlphabet : HdrWord(w))
        \/ \E k \in 1..3 : SetTail(k)
        \/ \E r \in BuildTags, n \in BuildLens : AddField(r, n)
        \/ AddAll \/ Clear \/ DoEncode \/ Mutate

Spec == Init /\ [][Next]_vars

\* ------------------------------------------------------------------ theorems
D == Decode(ws, tail)

\* the values of an accepted non-empty message are exactly the words after the header
Exact == (D.ok /\ Len(D.tags) > 0) =>
            LET nt == Len(D.tags) IN
            /\ SumLens([k \in 1..nt |-> [j \in 1..D.lens[k] |-> 0]], nt) = Len(ws) - HeaderWords(nt)

\* re-encoding an accepted non-empty message gives the identical words
ReEncoded ==
    LET nt == Len(D.tags)
        hdr == HeaderWords(nt)
        startw(k) == hdr + SumLens([i \in 1..nt |-> [j \in 1..D.lens[i] |-> 0]], k - 1)
        vals == [k \in 1..nt |-> SubSeq(ws, startw(k) + 1, startw(k) + D.lens[k])]
    IN Encode(D.tags, vals, LAMBDA r : ws[(IF nt = 1 THEN 1 ELSE nt) + CHOOSE k \in 1..nt : D.tags[k] = r])
Canonical == (D.ok /\ Len(D.tags) > 0) => ReEncoded = ws

\* encoding what the builder holds and decoding it yields the same tags and values
RoundTrip == (gen = "build" /\ last.op = "encode") => D = Ok(tags, lens)

\* the builder never holds tags out of order
BuilderOrdered == \A k \in 1..(Len(tags) - 1) : tags[k] < tags[k + 1]

Emit == ((ws' # <<>> \/ tail' # 0 \/ gen' = "raw") /\ (gen' = "hdr" => Len(ws') >= 2 * V(ws'[1]))) =>
    PrintT(ToJson([suite |-> "wire", gen |-> gen', ws |-> ws', tail |-> tail',
                   tags |-> tags', lens |-> lens', op |-> last'.op, cleared |-> cleared',
                   exp |-> Decode(ws', tail')]))
=============================================================================
