SPECIFICATION Spec
CONSTANTS
  MaxConns = 3
  AcceptMode = "loop"
  MaxAccepts = 16
  AbortEndsLoop = TRUE
VIEW view
ACTION_CONSTRAINT Emit
INVARIANTS NoStrandedConn AnsweredWereMade
PROPERTY HcLive
CHECK_DEADLOCK FALSE
