------------------------------- MODULE Process -------------------------------
(***************************************************************************)
(* C15 / C19 / C18: life cycle of the server process                        *)
(* (src/bin/roughenough-server.rs, the worker loop of src/server.rs, the    *)
(* ctrlc handler, the statistics reporter thread).                          *)
(*                                                                         *)
(*  main:    for i in 0..N { lock cfg; bind UDP (SO_REUSEPORT); unlock;     *)
(*                           spawn worker-i }                               *)
(*           lock cfg x3 (client_stats, persistence dir, status interval)   *)
(*           [spawn reporter]; join every thread IN ORDER (.expect);        *)
(*           exit(0)                                                        *)
(*  worker:  lock cfg; Server::new WHILE HOLDING the lock (binds the TCP    *)
(*           health-check listener: may panic => mutex poisoned); unlock;   *)
(*           loop { process_events; if !KEEP_RUNNING { return } }           *)
(*  process_events: poll; on readiness drain the socket batch by batch      *)
(*  handler: KEEP_RUNNING := false                                          *)
(*                                                                         *)
(* A panicking thread poisons the mutex if it holds it; every later         *)
(* lock().unwrap() panics. main's join(..).expect panics on a panicked      *)
(* worker => exit status 101.                                               *)
(***************************************************************************)
EXTENDS Naturals, Sequences, FiniteSets, TLC

CONSTANTS N,              \* configured workers
          Hc,             \* health_check_port configured
          HcReusePort,    \* TRUE = every worker can bind its own listener on the port (required);
                          \* FALSE = plain bind: the second bind fails with AddrInUse
          ClientStats,    \* reporter thread present
          DrainBounded,   \* TRUE = a wake-up handles a bounded number of batches (required);
                          \* FALSE = the drain loop runs until the socket is empty
          MaxDrain,       \* bound on batches per wake-up when DrainBounded
          Q,              \* bound on datagrams queued per worker (keeps the state space finite)
          AllowSignal,
          ReporterFragile \* FALSE = as coded and required: a reporter pass may take any time. TRUE = a (wrong) variant in which a
                          \* pass that outlasts its cadence kills the reporter thread (kept to show the specification detects it)

Workers == 1..N

VARIABLES mpc,      \* main: "spawn" | "postlocks" | "join" | "done" | "panicked"
          mi,       \* main: next worker to spawn / next thread to join
          lock,     \* 0 = free, "m" = main, w = worker w
          poisoned,
          wpc,      \* [Workers -> "unborn" | "want_lock" | "new_server" | "unlock" | "poll" | "drain" | "check" | "exited" | "panicked"]
          hcOwner,  \* workers whose TCP listener is bound
          keep,     \* KEEP_RUNNING
          rpc,      \* reporter (Reporter::processing_loop): "unborn" | "check" (at the loop condition) | "pass" (merging the
                    \* queue, writing a report when one is due) | "sleep" (the fixed one-second sleep) | "exited" | "panicked"
          sockq,    \* [Workers -> 0..Q] datagrams waiting on each worker's socket
          drained,  \* [Workers -> Nat] batches handled in the current wake-up
          exit      \* "running" | "0" | "101"

vars == <<mpc, mi, lock, poisoned, wpc, hcOwner, keep, rpc, sockq, drained, exit>>

Init == /\ mpc = "spawn" /\ mi = 1 /\ lock = 0 /\ poisoned = FALSE
        /\ wpc = [w \in Workers |-> "unborn"] /\ hcOwner = {} /\ keep = TRUE /\ rpc = "unborn"
        /\ sockq = [w \in Workers |-> 0] /\ drained = [w \in Workers |-> 0] /\ exit = "running"

Running == exit = "running"

\* ---- main
MainPanics == mpc' = "panicked" /\ exit' = "101"

\* config.lock().unwrap() ... (guard dropped at the end of the statement): one atomic step
m_spawn == /\ Running /\ mpc = "spawn" /\ mi <= N /\ lock = 0
           /\ IF poisoned THEN MainPanics /\ UNCHANGED <<mi, wpc>>
              ELSE /\ wpc' = [wpc EXCEPT ![mi] = "want_lock"] /\ mi' = mi + 1 /\ UNCHANGED <<mpc, exit>>
           /\ UNCHANGED <<lock, poisoned, hcOwner, keep, rpc, sockq, drained>>

m_spawned_all == /\ Running /\ mpc = "spawn" /\ mi = N + 1
                 /\ mpc' = "postlocks"
                 /\ UNCHANGED <<mi, lock, poisoned, wpc, hcOwner, keep, rpc, sockq, drained, exit>>

m_postlocks == /\ Running /\ mpc = "postlocks" /\ lock = 0
               /\ IF poisoned THEN MainPanics /\ UNCHANGED <<mi, rpc>>
                  ELSE /\ mpc' = "join" /\ mi' = 1 /\ rpc' = (IF ClientStats THEN "check" ELSE "unborn") /\ UNCHANGED exit
               /\ UNCHANGED <<lock, poisoned, wpc, hcOwner, keep, sockq, drained>>

m_join == /\ Running /\ mpc = "join"
          /\ IF mi <= N
             THEN /\ wpc[mi] \in {"exited", "panicked"}
                  /\ IF wpc[mi] = "panicked" THEN MainPanics /\ UNCHANGED mi
                     ELSE mi' = mi + 1 /\ UNCHANGED <<mpc, exit>>
             ELSE /\ (ClientStats => rpc \in {"exited", "panicked"})
                  /\ IF rpc = "panicked" THEN MainPanics ELSE mpc' = "done" /\ exit' = "0"    \* join().expect on every thread
                  /\ UNCHANGED mi
          /\ UNCHANGED <<lock, poisoned, wpc, hcOwner, keep, rpc, sockq, drained>>

\* ---- worker w
w_lock(w) == /\ Running /\ wpc[w] = "want_lock" /\ lock = 0
             /\ IF poisoned THEN wpc' = [wpc EXCEPT ![w] = "panicked"] /\ UNCHANGED lock
                ELSE wpc' = [wpc EXCEPT ![w] = "new_server"] /\ lock' = w
             /\ UNCHANGED <<mpc, mi, poisoned, hcOwner, keep, rpc, sockq, drained, exit>>

\* Server::new while holding the lock: TcpListener::bind(..).expect(..)
w_new_server(w) ==
    /\ Running /\ wpc[w] = "new_server" /\ lock = w
    /\ IF Hc /\ ~HcReusePort /\ hcOwner # {}
       THEN /\ wpc' = [wpc EXCEPT ![w] = "panicked"] /\ poisoned' = TRUE /\ lock' = 0 /\ UNCHANGED hcOwner
       ELSE /\ wpc' = [wpc EXCEPT ![w] = "unlock"] /\ hcOwner' = (IF Hc THEN hcOwner \cup {w} ELSE hcOwner)
            /\ UNCHANGED <<poisoned, lock>>
    /\ UNCHANGED <<mpc, mi, keep, rpc, sockq, drained, exit>>

w_unlock(w) == /\ Running /\ wpc[w] = "unlock" /\ lock = w
               /\ lock' = 0 /\ wpc' = [wpc EXCEPT ![w] = "poll"]
               /\ UNCHANGED <<mpc, mi, poisoned, hcOwner, keep, rpc, sockq, drained, exit>>

\* process_events: poll returns (readiness or the 100 ms timeout)
w_poll(w) == /\ Running /\ wpc[w] = "poll"
             /\ wpc' = [wpc EXCEPT ![w] = IF sockq[w] > 0 THEN "drain" ELSE "check"]
             /\ drained' = [drained EXCEPT ![w] = 0]
             /\ UNCHANGED <<mpc, mi, lock, poisoned, hcOwner, keep, rpc, sockq, exit>>

\* one batch of the drain loop
w_drain(w) == /\ Running /\ wpc[w] = "drain"
              /\ IF sockq[w] = 0 \/ (DrainBounded /\ drained[w] >= MaxDrain)
                 THEN wpc' = [wpc EXCEPT ![w] = "check"] /\ UNCHANGED <<sockq, drained>>
                 ELSE /\ sockq' = [sockq EXCEPT ![w] = @ - 1] /\ drained' = [drained EXCEPT ![w] = IF @ < MaxDrain THEN @ + 1 ELSE @] /\ UNCHANGED wpc   \* (saturating: only `>= MaxDrain` is ever tested)
              /\ UNCHANGED <<mpc, mi, lock, poisoned, hcOwner, keep, rpc, exit>>

\* back in polling_loop: the flag is looked at only here
w_check(w) == /\ Running /\ wpc[w] = "check"
              /\ wpc' = [wpc EXCEPT ![w] = IF keep THEN "poll" ELSE "exited"]
              /\ UNCHANGED <<mpc, mi, lock, poisoned, hcOwner, keep, rpc, sockq, drained, exit>>

\* ---- reporter: while KEEP_RUNNING { merge the queue; report if due; sleep(1 s) }. However long a pass takes (a large
\* merge, a slow disk), the loop goes on: there is no step that ends the thread other than the flag
r_check == /\ Running /\ rpc = "check"
           /\ rpc' = IF keep THEN "pass" ELSE "exited"
           /\ UNCHANGED <<mpc, mi, lock, poisoned, wpc, hcOwner, keep, sockq, drained, exit>>
r_work == /\ Running /\ rpc = "pass" /\ (rpc' = "sleep" \/ (ReporterFragile /\ rpc' = "panicked"))
          /\ UNCHANGED <<mpc, mi, lock, poisoned, wpc, hcOwner, keep, sockq, drained, exit>>
r_wake == /\ Running /\ rpc = "sleep" /\ rpc' = "check"
          /\ UNCHANGED <<mpc, mi, lock, poisoned, wpc, hcOwner, keep, sockq, drained, exit>>
r_loop == r_check \/ r_work \/ r_wake

\* ---- environment
Sig == /\ AllowSignal /\ Running /\ keep /\ keep' = FALSE
       /\ UNCHANGED <<mpc, mi, lock, poisoned, wpc, hcOwner, rpc, sockq, drained, exit>>

Arrive(w) == /\ Running /\ wpc[w] \in {"poll", "drain", "check"} /\ sockq[w] < Q
             /\ sockq' = [sockq EXCEPT ![w] = @ + 1]
             /\ UNCHANGED <<mpc, mi, lock, poisoned, wpc, hcOwner, keep, rpc, drained, exit>>

MainStep == m_spawn \/ m_spawned_all \/ m_postlocks \/ m_join
WorkerStep(w) == w_lock(w) \/ w_new_server(w) \/ w_unlock(w) \/ w_poll(w) \/ w_drain(w) \/ w_check(w)
Next == MainStep \/ (\E w \in Workers : WorkerStep(w)) \/ r_loop \/ Sig \/ (\E w \in Workers : Arrive(w))

\* every thread is scheduled fairly; the environment (signals, datagrams) owes nothing
Fair == WF_vars(MainStep) /\ WF_vars(r_loop) /\ \A w \in Workers : WF_vars(WorkerStep(w))
Spec == Init /\ [][Next]_vars /\ Fair

\* ------------------------------------------------------------------ properties
Serving(w) == wpc[w] \in {"poll", "drain", "check"}
\* C15: every configured worker comes up and stays up (no signal)
FullyServing == (~AllowSignal) => <>[](exit = "running" /\ \A w \in Workers : Serving(w))
\* C15: the server never KEEPS running with fewer workers than configured
NeverKeepsRunningDegraded == (\E w \in Workers : wpc[w] = "panicked") ~> (exit # "running")
NoPanic == \A w \in Workers : wpc[w] # "panicked"
\* C19: a signal stops the process cleanly ...
Stops == (~keep) ~> (exit = "0")
\* ... never with a failure status
CleanExit == exit # "101"
\* mutual exclusion of the configuration mutex (sanity of the model)
LockOwnerConsistent == lock # 0 => wpc[lock] \in {"new_server", "unlock"}
=============================================================================
