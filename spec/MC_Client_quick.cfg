SPECIFICATION Spec
CONSTANTS
  SigFailureIsFatal = TRUE
  IetfLeafIsRequest = TRUE
  MaxResponses = 1
  MaxDist = 2
  FullProduct = FALSE
ACTION_CONSTRAINT Emit
INVARIANTS Sound NoTimeOnFailure VerifiedOnlyWithKey BindsEvenWithoutKey Complete
CHECK_DEADLOCK FALSE
