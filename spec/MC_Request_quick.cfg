SPECIFICATION Spec
CONSTANTS
  MaxVer = 6
ACTION_CONSTRAINT Emit
INVARIANTS OutOfRangeNeverAnswered NoSupportedVersionNeverAnswered OtherServerNeverAnswered MustImpliesSupported FirstFourAlwaysAnswered
CHECK_DEADLOCK FALSE
