SPECIFICATION Spec
CONSTANTS
  MaxVer = 6
  VerCodes = {13, 0, 1001, 1002}
ACTION_CONSTRAINT Emit
INVARIANTS OutOfRangeNeverAnswered NoSupportedVersionNeverAnswered OtherServerNeverAnswered MustImpliesSupported FirstFourAlwaysAnswered
CHECK_DEADLOCK FALSE
