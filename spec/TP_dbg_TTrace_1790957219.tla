---- MODULE TP_dbg_TTrace_1790957219 ----
EXTENDS Sequences, TLCExt, Toolbox, Naturals, TLC, TP_dbg

_expression ==
    LET TP_dbg_TEExpression == INSTANCE TP_dbg_TEExpression
    IN TP_dbg_TEExpression!expression
----

_trace ==
    LET TP_dbg_TETrace == INSTANCE TP_dbg_TETrace
    IN TP_dbg_TETrace!trace
----

_inv ==
    ~(
        TLCGet("level") = Len(_TETrace)
        /\
        nlocks = (1)
        /\
        cur = ((0 :> 6 @@ 1 :> 6 @@ 2 :> 1 @@ 3 :> 2))
        /\
        mpc = ("join")
        /\
        rpc = ("check")
        /\
        sockq = (<<0>>)
        /\
        drained = (<<0>>)
        /\
        poisoned = (FALSE)
        /\
        wpc = (<<"exited">>)
        /\
        hcOwner = ({})
        /\
        exit = ("running")
        /\
        keep = (FALSE)
        /\
        lock = (0)
        /\
        mi = (2)
    )
----

_init ==
    /\ exit = _TETrace[1].exit
    /\ mi = _TETrace[1].mi
    /\ cur = _TETrace[1].cur
    /\ rpc = _TETrace[1].rpc
    /\ lock = _TETrace[1].lock
    /\ nlocks = _TETrace[1].nlocks
    /\ poisoned = _TETrace[1].poisoned
    /\ keep = _TETrace[1].keep
    /\ sockq = _TETrace[1].sockq
    /\ hcOwner = _TETrace[1].hcOwner
    /\ mpc = _TETrace[1].mpc
    /\ drained = _TETrace[1].drained
    /\ wpc = _TETrace[1].wpc
----

_next ==
    /\ \E i,j \in DOMAIN _TETrace:
        /\ \/ /\ j = i + 1
              /\ i = TLCGet("level")
        /\ exit  = _TETrace[i].exit
        /\ exit' = _TETrace[j].exit
        /\ mi  = _TETrace[i].mi
        /\ mi' = _TETrace[j].mi
        /\ cur  = _TETrace[i].cur
        /\ cur' = _TETrace[j].cur
        /\ rpc  = _TETrace[i].rpc
        /\ rpc' = _TETrace[j].rpc
        /\ lock  = _TETrace[i].lock
        /\ lock' = _TETrace[j].lock
        /\ nlocks  = _TETrace[i].nlocks
        /\ nlocks' = _TETrace[j].nlocks
        /\ poisoned  = _TETrace[i].poisoned
        /\ poisoned' = _TETrace[j].poisoned
        /\ keep  = _TETrace[i].keep
        /\ keep' = _TETrace[j].keep
        /\ sockq  = _TETrace[i].sockq
        /\ sockq' = _TETrace[j].sockq
        /\ hcOwner  = _TETrace[i].hcOwner
        /\ hcOwner' = _TETrace[j].hcOwner
        /\ mpc  = _TETrace[i].mpc
        /\ mpc' = _TETrace[j].mpc
        /\ drained  = _TETrace[i].drained
        /\ drained' = _TETrace[j].drained
        /\ wpc  = _TETrace[i].wpc
        /\ wpc' = _TETrace[j].wpc

\* Uncomment the ASSUME below to write the states of the error trace
\* to the given file in Json format. Note that you can pass any tuple
\* to `JsonSerialize`. For example, a sub-sequence of _TETrace.
    \* ASSUME
    \*     LET J == INSTANCE Json
    \*         IN J!JsonSerialize("TP_dbg_TTrace_1790957219.json", _TETrace)

=============================================================================

 Note that you can extract this module `TP_dbg_TEExpression`
  to a dedicated file to reuse `expression` (the module in the 
  dedicated `TP_dbg_TEExpression.tla` file takes precedence 
  over the module `TP_dbg_TEExpression` below).

---- MODULE TP_dbg_TEExpression ----
EXTENDS Sequences, TLCExt, Toolbox, Naturals, TLC, TP_dbg

expression == 
    [
        \* To hide variables of the `TP_dbg` spec from the error trace,
        \* remove the variables below.  The trace will be written in the order
        \* of the fields of this record.
        exit |-> exit
        ,mi |-> mi
        ,cur |-> cur
        ,rpc |-> rpc
        ,lock |-> lock
        ,nlocks |-> nlocks
        ,poisoned |-> poisoned
        ,keep |-> keep
        ,sockq |-> sockq
        ,hcOwner |-> hcOwner
        ,mpc |-> mpc
        ,drained |-> drained
        ,wpc |-> wpc
        
        \* Put additional constant-, state-, and action-level expressions here:
        \* ,_stateNumber |-> _TEPosition
        \* ,_exitUnchanged |-> exit = exit'
        
        \* Format the `exit` variable as Json value.
        \* ,_exitJson |->
        \*     LET J == INSTANCE Json
        \*     IN J!ToJson(exit)
        
        \* Lastly, you may build expressions over arbitrary sets of states by
        \* leveraging the _TETrace operator.  For example, this is how to
        \* count the number of times a spec variable changed up to the current
        \* state in the trace.
        \* ,_exitModCount |->
        \*     LET F[s \in DOMAIN _TETrace] ==
        \*         IF s = 1 THEN 0
        \*         ELSE IF _TETrace[s].exit # _TETrace[s-1].exit
        \*             THEN 1 + F[s-1] ELSE F[s-1]
        \*     IN F[_TEPosition - 1]
    ]

=============================================================================



Parsing and semantic processing can take forever if the trace below is long.
 In this case, it is advised to uncomment the module below to deserialize the
 trace from a generated binary file.

\*
\*---- MODULE TP_dbg_TETrace ----
\*EXTENDS IOUtils, TLC, TP_dbg
\*
\*trace == IODeserialize("TP_dbg_TTrace_1790957219.bin", TRUE)
\*
\*=============================================================================
\*

---- MODULE TP_dbg_TETrace ----
EXTENDS TLC, TP_dbg

trace == 
    <<
    ([nlocks |-> 0,cur |-> (0 :> 1 @@ 1 :> 1 @@ 2 :> 1 @@ 3 :> 1),mpc |-> "spawn",rpc |-> "unborn",sockq |-> <<0>>,drained |-> <<0>>,poisoned |-> FALSE,wpc |-> <<"unborn">>,hcOwner |-> {},exit |-> "running",keep |-> TRUE,lock |-> 0,mi |-> 1]),
    ([nlocks |-> 0,cur |-> (0 :> 2 @@ 1 :> 1 @@ 2 :> 1 @@ 3 :> 1),mpc |-> "spawn",rpc |-> "unborn",sockq |-> <<0>>,drained |-> <<0>>,poisoned |-> FALSE,wpc |-> <<"unborn">>,hcOwner |-> {},exit |-> "running",keep |-> TRUE,lock |-> 0,mi |-> 1]),
    ([nlocks |-> 0,cur |-> (0 :> 2 @@ 1 :> 1 @@ 2 :> 1 @@ 3 :> 2),mpc |-> "spawn",rpc |-> "unborn",sockq |-> <<0>>,drained |-> <<0>>,poisoned |-> FALSE,wpc |-> <<"unborn">>,hcOwner |-> {},exit |-> "running",keep |-> FALSE,lock |-> 0,mi |-> 1]),
    ([nlocks |-> 0,cur |-> (0 :> 3 @@ 1 :> 1 @@ 2 :> 1 @@ 3 :> 2),mpc |-> "spawn",rpc |-> "unborn",sockq |-> <<0>>,drained |-> <<0>>,poisoned |-> FALSE,wpc |-> <<"want_lock">>,hcOwner |-> {},exit |-> "running",keep |-> FALSE,lock |-> 0,mi |-> 2]),
    ([nlocks |-> 0,cur |-> (0 :> 4 @@ 1 :> 1 @@ 2 :> 1 @@ 3 :> 2),mpc |-> "postlocks",rpc |-> "unborn",sockq |-> <<0>>,drained |-> <<0>>,poisoned |-> FALSE,wpc |-> <<"want_lock">>,hcOwner |-> {},exit |-> "running",keep |-> FALSE,lock |-> 0,mi |-> 2]),
    ([nlocks |-> 0,cur |-> (0 :> 4 @@ 1 :> 2 @@ 2 :> 1 @@ 3 :> 2),mpc |-> "postlocks",rpc |-> "unborn",sockq |-> <<0>>,drained |-> <<0>>,poisoned |-> FALSE,wpc |-> <<"want_lock">>,hcOwner |-> {},exit |-> "running",keep |-> FALSE,lock |-> 0,mi |-> 2]),
    ([nlocks |-> 0,cur |-> (0 :> 5 @@ 1 :> 2 @@ 2 :> 1 @@ 3 :> 2),mpc |-> "join",rpc |-> "check",sockq |-> <<0>>,drained |-> <<0>>,poisoned |-> FALSE,wpc |-> <<"want_lock">>,hcOwner |-> {},exit |-> "running",keep |-> FALSE,lock |-> 0,mi |-> 1]),
    ([nlocks |-> 1,cur |-> (0 :> 5 @@ 1 :> 3 @@ 2 :> 1 @@ 3 :> 2),mpc |-> "join",rpc |-> "check",sockq |-> <<0>>,drained |-> <<0>>,poisoned |-> FALSE,wpc |-> <<"new_server">>,hcOwner |-> {},exit |-> "running",keep |-> FALSE,lock |-> 1,mi |-> 1]),
    ([nlocks |-> 1,cur |-> (0 :> 5 @@ 1 :> 4 @@ 2 :> 1 @@ 3 :> 2),mpc |-> "join",rpc |-> "check",sockq |-> <<0>>,drained |-> <<0>>,poisoned |-> FALSE,wpc |-> <<"unlock">>,hcOwner |-> {},exit |-> "running",keep |-> FALSE,lock |-> 1,mi |-> 1]),
    ([nlocks |-> 1,cur |-> (0 :> 5 @@ 1 :> 5 @@ 2 :> 1 @@ 3 :> 2),mpc |-> "join",rpc |-> "check",sockq |-> <<0>>,drained |-> <<0>>,poisoned |-> FALSE,wpc |-> <<"poll">>,hcOwner |-> {},exit |-> "running",keep |-> FALSE,lock |-> 0,mi |-> 1]),
    ([nlocks |-> 1,cur |-> (0 :> 5 @@ 1 :> 6 @@ 2 :> 1 @@ 3 :> 2),mpc |-> "join",rpc |-> "check",sockq |-> <<0>>,drained |-> <<0>>,poisoned |-> FALSE,wpc |-> <<"exited">>,hcOwner |-> {},exit |-> "running",keep |-> FALSE,lock |-> 0,mi |-> 1]),
    ([nlocks |-> 1,cur |-> (0 :> 6 @@ 1 :> 6 @@ 2 :> 1 @@ 3 :> 2),mpc |-> "join",rpc |-> "check",sockq |-> <<0>>,drained |-> <<0>>,poisoned |-> FALSE,wpc |-> <<"exited">>,hcOwner |-> {},exit |-> "running",keep |-> FALSE,lock |-> 0,mi |-> 2])
    >>
----


=============================================================================

---- CONFIG TP_dbg_TTrace_1790957219 ----

INVARIANT
    _inv

CHECK_DEADLOCK
    \* CHECK_DEADLOCK off because of PROPERTY or INVARIANT above.
    FALSE

INIT
    _init

NEXT
    _next

CONSTANT
    _TETrace <- _trace

ALIAS
    _expression
=============================================================================
\* Generated on Fri Oct 02 16:07:00 UTC 2026