SPECIFICATION Spec
CONSTANTS
  MaxEdits = 1
ACTION_CONSTRAINT Emit
INVARIANTS Trichotomy IdealAllowed
CHECK_DEADLOCK FALSE
