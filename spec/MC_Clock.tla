------------------------------ MODULE MC_Clock ------------------------------
EXTENDS Clock, Json
\* boundary clocks: seconds as <<hi, lo>> base 10^6
Secs == { <<0, 0>>, <<0, 1>>, <<0, 999999>>, <<1, 0>>, <<2147, 483647>>, <<2147, 483648>>, <<4294, 967295>>, <<4294, 967296>>,
          <<1790, 937000>>, <<7258, 118400>>, <<9223, 372036>>, <<253402, 300799>>, <<999999, 999999>> }
Nanos == {0, 1, 999, 1000, 1001, 999999, 1000000, 500000000, 999999000, 999999999}
VARIABLES s, ns, v, done
vars == <<s, ns, v, done>>
Init == s \in Secs /\ ns \in Nanos /\ v \in {"G", "I"} /\ done = FALSE
Next == ~done /\ done' = TRUE /\ UNCHANGED <<s, ns, v>>
Spec == Init /\ [][Next]_vars
WithinRadius == Within(v, s, ns)
Emit == PrintT(ToJson([suite |-> "clock", v |-> v, s |-> s, ns |-> ns, midp |-> Midp(v, s, ns), radi |-> Radi(v)]))
=============================================================================
