---- MODULE MC_Health_TTrace_1790957635 ----
EXTENDS Sequences, TLCExt, Toolbox, Naturals, TLC, MC_Health

_expression ==
    LET MC_Health_TEExpression == INSTANCE MC_Health_TEExpression
    IN MC_Health_TEExpression!expression
----

_trace ==
    LET MC_Health_TETrace == INSTANCE MC_Health_TETrace
    IN MC_Health_TETrace!trace
----

_inv ==
    ~(
        TLCGet("level") = Len(_TETrace)
        /\
        acc = (1)
        /\
        conns = (2)
        /\
        hcEdge = (FALSE)
        /\
        pc = ("poll")
        /\
        sched = ([pre |-> 2, during |-> <<>>])
        /\
        answered = ({1})
        /\
        hcq = (<<2>>)
        /\
        kinds = (<<"L", "L">>)
    )
----

_init ==
    /\ hcEdge = _TETrace[1].hcEdge
    /\ sched = _TETrace[1].sched
    /\ acc = _TETrace[1].acc
    /\ conns = _TETrace[1].conns
    /\ answered = _TETrace[1].answered
    /\ pc = _TETrace[1].pc
    /\ kinds = _TETrace[1].kinds
    /\ hcq = _TETrace[1].hcq
----

_next ==
    /\ \E i,j \in DOMAIN _TETrace:
        /\ \/ /\ j = i + 1
              /\ i = TLCGet("level")
        /\ hcEdge  = _TETrace[i].hcEdge
        /\ hcEdge' = _TETrace[j].hcEdge
        /\ sched  = _TETrace[i].sched
        /\ sched' = _TETrace[j].sched
        /\ acc  = _TETrace[i].acc
        /\ acc' = _TETrace[j].acc
        /\ conns  = _TETrace[i].conns
        /\ conns' = _TETrace[j].conns
        /\ answered  = _TETrace[i].answered
        /\ answered' = _TETrace[j].answered
        /\ pc  = _TETrace[i].pc
        /\ pc' = _TETrace[j].pc
        /\ kinds  = _TETrace[i].kinds
        /\ kinds' = _TETrace[j].kinds
        /\ hcq  = _TETrace[i].hcq
        /\ hcq' = _TETrace[j].hcq

\* Uncomment the ASSUME below to write the states of the error trace
\* to the given file in Json format. Note that you can pass any tuple
\* to `JsonSerialize`. For example, a sub-sequence of _TETrace.
    \* ASSUME
    \*     LET J == INSTANCE Json
    \*         IN J!JsonSerialize("MC_Health_TTrace_1790957635.json", _TETrace)

=============================================================================

 Note that you can extract this module `MC_Health_TEExpression`
  to a dedicated file to reuse `expression` (the module in the 
  dedicated `MC_Health_TEExpression.tla` file takes precedence 
  over the module `MC_Health_TEExpression` below).

---- MODULE MC_Health_TEExpression ----
EXTENDS Sequences, TLCExt, Toolbox, Naturals, TLC, MC_Health

expression == 
    [
        \* To hide variables of the `MC_Health` spec from the error trace,
        \* remove the variables below.  The trace will be written in the order
        \* of the fields of this record.
        hcEdge |-> hcEdge
        ,sched |-> sched
        ,acc |-> acc
        ,conns |-> conns
        ,answered |-> answered
        ,pc |-> pc
        ,kinds |-> kinds
        ,hcq |-> hcq
        
        \* Put additional constant-, state-, and action-level expressions here:
        \* ,_stateNumber |-> _TEPosition
        \* ,_hcEdgeUnchanged |-> hcEdge = hcEdge'
        
        \* Format the `hcEdge` variable as Json value.
        \* ,_hcEdgeJson |->
        \*     LET J == INSTANCE Json
        \*     IN J!ToJson(hcEdge)
        
        \* Lastly, you may build expressions over arbitrary sets of states by
        \* leveraging the _TETrace operator.  For example, this is how to
        \* count the number of times a spec variable changed up to the current
        \* state in the trace.
        \* ,_hcEdgeModCount |->
        \*     LET F[s \in DOMAIN _TETrace] ==
        \*         IF s = 1 THEN 0
        \*         ELSE IF _TETrace[s].hcEdge # _TETrace[s-1].hcEdge
        \*             THEN 1 + F[s-1] ELSE F[s-1]
        \*     IN F[_TEPosition - 1]
    ]

=============================================================================



Parsing and semantic processing can take forever if the trace below is long.
 In this case, it is advised to uncomment the module below to deserialize the
 trace from a generated binary file.

\*
\*---- MODULE MC_Health_TETrace ----
\*EXTENDS IOUtils, TLC, MC_Health
\*
\*trace == IODeserialize("MC_Health_TTrace_1790957635.bin", TRUE)
\*
\*=============================================================================
\*

---- MODULE MC_Health_TETrace ----
EXTENDS TLC, MC_Health

trace == 
    <<
    ([acc |-> 0,conns |-> 0,hcEdge |-> FALSE,pc |-> "poll",sched |-> [pre |-> 0, during |-> <<>>],answered |-> {},hcq |-> <<>>,kinds |-> <<>>]),
    ([acc |-> 0,conns |-> 1,hcEdge |-> TRUE,pc |-> "poll",sched |-> [pre |-> 1, during |-> <<>>],answered |-> {},hcq |-> <<1>>,kinds |-> <<"L">>]),
    ([acc |-> 0,conns |-> 2,hcEdge |-> TRUE,pc |-> "poll",sched |-> [pre |-> 2, during |-> <<>>],answered |-> {},hcq |-> <<1, 2>>,kinds |-> <<"L", "L">>]),
    ([acc |-> 0,conns |-> 2,hcEdge |-> FALSE,pc |-> "accept",sched |-> [pre |-> 2, during |-> <<>>],answered |-> {},hcq |-> <<1, 2>>,kinds |-> <<"L", "L">>]),
    ([acc |-> 1,conns |-> 2,hcEdge |-> FALSE,pc |-> "poll",sched |-> [pre |-> 2, during |-> <<>>],answered |-> {1},hcq |-> <<2>>,kinds |-> <<"L", "L">>])
    >>
----


=============================================================================

---- CONFIG MC_Health_TTrace_1790957635 ----
CONSTANTS
    MaxConns = 3
    AcceptMode = "one"
    MaxAccepts = 16
    AbortEndsLoop = FALSE

INVARIANT
    _inv

CHECK_DEADLOCK
    \* CHECK_DEADLOCK off because of PROPERTY or INVARIANT above.
    FALSE

INIT
    _init

NEXT
    _next

CONSTANT
    _TETrace <- _trace

ALIAS
    _expression
=============================================================================
\* Generated on Fri Oct 02 16:13:56 UTC 2026