SPECIFICATION MSpec
CONSTANTS
  B = 1
  MaxArr = 4
  Kinds = {"C", "I", "X"}
  Srcs = {1}
  LevelTriggered = FALSE
  MaxBatches = 2
  StaleFailFlag = FALSE
  DrainExitsOnEmptyBatch = FALSE
VIEW mview
INVARIANTS AtMostOnce OwnSlot Faithful NoStranded BatchBound ExactlyOnce OwnProtocol NoReplyToInvalid StatsConserve StatsResponses StatsSettled StatsAreTraffic
PROPERTY Responsive
CHECK_DEADLOCK FALSE
