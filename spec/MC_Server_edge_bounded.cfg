SPECIFICATION MSpec
CONSTANTS
  B = 1
  MaxArr = 4
  Srcs = {1}
  LevelTriggered = FALSE
  MaxBatches = 2
  DrainExitsOnEmptyBatch = FALSE
VIEW mview
INVARIANTS AtMostOnce OwnSlot Faithful NoStranded BatchBound ExactlyOnce OwnProtocol NoReplyToInvalid
PROPERTY Responsive
CHECK_DEADLOCK FALSE
