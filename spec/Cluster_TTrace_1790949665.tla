---- MODULE Cluster_TTrace_1790949665 ----
EXTENDS Sequences, TLCExt, Toolbox, Cluster, Naturals, TLC

_expression ==
    LET Cluster_TEExpression == INSTANCE Cluster_TEExpression
    IN Cluster_TEExpression!expression
----

_trace ==
    LET Cluster_TETrace == INSTANCE Cluster_TETrace
    IN Cluster_TETrace!trace
----

_prop ==
    ~<>[](
        q = (<<<<[k |-> "I", id |-> 1, src |-> 1], [k |-> "I", id |-> 2, src |-> 1], [k |-> "I", id |-> 3, src |-> 2]>>, <<>>, <<>>>>)
        /\
        arrived = (3)
        /\
        alive = (<<FALSE, TRUE, TRUE>>)
        /\
        kinds = (<<"I", "I", "I">>)
        /\
        out = ({})
    )
----

_init ==
    /\ out = _TETrace[1].out
    /\ alive = _TETrace[1].alive
    /\ q = _TETrace[1].q
    /\ kinds = _TETrace[1].kinds
    /\ arrived = _TETrace[1].arrived
----

_next ==
    /\ \E i,j \in DOMAIN _TETrace:
        /\ \/ /\ j = i + 1
              /\ i = TLCGet("level")
        /\ out  = _TETrace[i].out
        /\ out' = _TETrace[j].out
        /\ alive  = _TETrace[i].alive
        /\ alive' = _TETrace[j].alive
        /\ q  = _TETrace[i].q
        /\ q' = _TETrace[j].q
        /\ kinds  = _TETrace[i].kinds
        /\ kinds' = _TETrace[j].kinds
        /\ arrived  = _TETrace[i].arrived
        /\ arrived' = _TETrace[j].arrived

\* Uncomment the ASSUME below to write the states of the error trace
\* to the given file in Json format. Note that you can pass any tuple
\* to `JsonSerialize`. For example, a sub-sequence of _TETrace.
    \* ASSUME
    \*     LET J == INSTANCE Json
    \*         IN J!JsonSerialize("Cluster_TTrace_1790949665.json", _TETrace)

=============================================================================

 Note that you can extract this module `Cluster_TEExpression`
  to a dedicated file to reuse `expression` (the module in the 
  dedicated `Cluster_TEExpression.tla` file takes precedence 
  over the module `Cluster_TEExpression` below).

---- MODULE Cluster_TEExpression ----
EXTENDS Sequences, TLCExt, Toolbox, Cluster, Naturals, TLC

expression == 
    [
        \* To hide variables of the `Cluster` spec from the error trace,
        \* remove the variables below.  The trace will be written in the order
        \* of the fields of this record.
        out |-> out
        ,alive |-> alive
        ,q |-> q
        ,kinds |-> kinds
        ,arrived |-> arrived
        
        \* Put additional constant-, state-, and action-level expressions here:
        \* ,_stateNumber |-> _TEPosition
        \* ,_outUnchanged |-> out = out'
        
        \* Format the `out` variable as Json value.
        \* ,_outJson |->
        \*     LET J == INSTANCE Json
        \*     IN J!ToJson(out)
        
        \* Lastly, you may build expressions over arbitrary sets of states by
        \* leveraging the _TETrace operator.  For example, this is how to
        \* count the number of times a spec variable changed up to the current
        \* state in the trace.
        \* ,_outModCount |->
        \*     LET F[s \in DOMAIN _TETrace] ==
        \*         IF s = 1 THEN 0
        \*         ELSE IF _TETrace[s].out # _TETrace[s-1].out
        \*             THEN 1 + F[s-1] ELSE F[s-1]
        \*     IN F[_TEPosition - 1]
    ]

=============================================================================



Parsing and semantic processing can take forever if the trace below is long.
 In this case, it is advised to uncomment the module below to deserialize the
 trace from a generated binary file.

\*
\*---- MODULE Cluster_TETrace ----
\*EXTENDS IOUtils, Cluster, TLC
\*
\*trace == IODeserialize("Cluster_TTrace_1790949665.bin", TRUE)
\*
\*=============================================================================
\*

---- MODULE Cluster_TETrace ----
EXTENDS Cluster, TLC

trace == 
    <<
    ([q |-> <<<<>>, <<>>, <<>>>>,arrived |-> 0,alive |-> <<TRUE, TRUE, TRUE>>,kinds |-> <<>>,out |-> {}]),
    ([q |-> <<<<[k |-> "I", id |-> 1, src |-> 1]>>, <<>>, <<>>>>,arrived |-> 1,alive |-> <<TRUE, TRUE, TRUE>>,kinds |-> <<"I">>,out |-> {}]),
    ([q |-> <<<<[k |-> "I", id |-> 1, src |-> 1], [k |-> "I", id |-> 2, src |-> 1]>>, <<>>, <<>>>>,arrived |-> 2,alive |-> <<TRUE, TRUE, TRUE>>,kinds |-> <<"I", "I">>,out |-> {}]),
    ([q |-> <<<<[k |-> "I", id |-> 1, src |-> 1], [k |-> "I", id |-> 2, src |-> 1], [k |-> "I", id |-> 3, src |-> 2]>>, <<>>, <<>>>>,arrived |-> 3,alive |-> <<TRUE, TRUE, TRUE>>,kinds |-> <<"I", "I", "I">>,out |-> {}]),
    ([q |-> <<<<[k |-> "I", id |-> 1, src |-> 1], [k |-> "I", id |-> 2, src |-> 1], [k |-> "I", id |-> 3, src |-> 2]>>, <<>>, <<>>>>,arrived |-> 3,alive |-> <<FALSE, TRUE, TRUE>>,kinds |-> <<"I", "I", "I">>,out |-> {}])
    >>
----


=============================================================================

---- CONFIG Cluster_TTrace_1790949665 ----
CONSTANTS
    N = 3
    B = 2
    MaxArr = 4
    WorkersMayDie = TRUE

PROPERTY
    _prop

CHECK_DEADLOCK
    \* CHECK_DEADLOCK off because of PROPERTY or INVARIANT above.
    FALSE

INIT
    _init

NEXT
    _next

CONSTANT
    _TETrace <- _trace

ALIAS
    _expression
=============================================================================
\* Generated on Fri Oct 02 14:01:09 UTC 2026