SPECIFICATION Spec
CONSTANTS
  Chunks = {0, 1, 2}
  MaxOps = 6
  MaxSigns = 3
VIEW view
ACTION_CONSTRAINT Emit
INVARIANTS NoCarryOver BufferEmptyAfterSign
CHECK_DEADLOCK FALSE
