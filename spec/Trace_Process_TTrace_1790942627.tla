---- MODULE Trace_Process_TTrace_1790942627 ----
EXTENDS Sequences, TLCExt, Toolbox, Trace_Process, Naturals, TLC

_expression ==
    LET Trace_Process_TEExpression == INSTANCE Trace_Process_TEExpression
    IN Trace_Process_TEExpression!expression
----

_trace ==
    LET Trace_Process_TETrace == INSTANCE Trace_Process_TETrace
    IN Trace_Process_TETrace!trace
----

_inv ==
    ~(
        TLCGet("level") = Len(_TETrace)
        /\
        nlocks = (1)
        /\
        cur = ((0 :> 5 @@ 1 :> 5 @@ 2 :> 1))
        /\
        mpc = ("join")
        /\
        rpc = ("unborn")
        /\
        sockq = (<<0>>)
        /\
        drained = (<<0>>)
        /\
        poisoned = (FALSE)
        /\
        wpc = (<<"poll">>)
        /\
        hcOwner = ({})
        /\
        exit = ("running")
        /\
        keep = (TRUE)
        /\
        lock = (0)
        /\
        mi = (1)
    )
----

_init ==
    /\ exit = _TETrace[1].exit
    /\ mi = _TETrace[1].mi
    /\ cur = _TETrace[1].cur
    /\ rpc = _TETrace[1].rpc
    /\ lock = _TETrace[1].lock
    /\ nlocks = _TETrace[1].nlocks
    /\ poisoned = _TETrace[1].poisoned
    /\ keep = _TETrace[1].keep
    /\ sockq = _TETrace[1].sockq
    /\ hcOwner = _TETrace[1].hcOwner
    /\ mpc = _TETrace[1].mpc
    /\ drained = _TETrace[1].drained
    /\ wpc = _TETrace[1].wpc
----

_next ==
    /\ \E i,j \in DOMAIN _TETrace:
        /\ \/ /\ j = i + 1
              /\ i = TLCGet("level")
        /\ exit  = _TETrace[i].exit
        /\ exit' = _TETrace[j].exit
        /\ mi  = _TETrace[i].mi
        /\ mi' = _TETrace[j].mi
        /\ cur  = _TETrace[i].cur
        /\ cur' = _TETrace[j].cur
        /\ rpc  = _TETrace[i].rpc
        /\ rpc' = _TETrace[j].rpc
        /\ lock  = _TETrace[i].lock
        /\ lock' = _TETrace[j].lock
        /\ nlocks  = _TETrace[i].nlocks
        /\ nlocks' = _TETrace[j].nlocks
        /\ poisoned  = _TETrace[i].poisoned
        /\ poisoned' = _TETrace[j].poisoned
        /\ keep  = _TETrace[i].keep
        /\ keep' = _TETrace[j].keep
        /\ sockq  = _TETrace[i].sockq
        /\ sockq' = _TETrace[j].sockq
        /\ hcOwner  = _TETrace[i].hcOwner
        /\ hcOwner' = _TETrace[j].hcOwner
        /\ mpc  = _TETrace[i].mpc
        /\ mpc' = _TETrace[j].mpc
        /\ drained  = _TETrace[i].drained
        /\ drained' = _TETrace[j].drained
        /\ wpc  = _TETrace[i].wpc
        /\ wpc' = _TETrace[j].wpc

\* Uncomment the ASSUME below to write the states of the error trace
\* to the given file in Json format. Note that you can pass any tuple
\* to `JsonSerialize`. For example, a sub-sequence of _TETrace.
    \* ASSUME
    \*     LET J == INSTANCE Json
    \*         IN J!JsonSerialize("Trace_Process_TTrace_1790942627.json", _TETrace)

=============================================================================

 Note that you can extract this module `Trace_Process_TEExpression`
  to a dedicated file to reuse `expression` (the module in the 
  dedicated `Trace_Process_TEExpression.tla` file takes precedence 
  over the module `Trace_Process_TEExpression` below).

---- MODULE Trace_Process_TEExpression ----
EXTENDS Sequences, TLCExt, Toolbox, Trace_Process, Naturals, TLC

expression == 
    [
        \* To hide variables of the `Trace_Process` spec from the error trace,
        \* remove the variables below.  The trace will be written in the order
        \* of the fields of this record.
        exit |-> exit
        ,mi |-> mi
        ,cur |-> cur
        ,rpc |-> rpc
        ,lock |-> lock
        ,nlocks |-> nlocks
        ,poisoned |-> poisoned
        ,keep |-> keep
        ,sockq |-> sockq
        ,hcOwner |-> hcOwner
        ,mpc |-> mpc
        ,drained |-> drained
        ,wpc |-> wpc
        
        \* Put additional constant-, state-, and action-level expressions here:
        \* ,_stateNumber |-> _TEPosition
        \* ,_exitUnchanged |-> exit = exit'
        
        \* Format the `exit` variable as Json value.
        \* ,_exitJson |->
        \*     LET J == INSTANCE Json
        \*     IN J!ToJson(exit)
        
        \* Lastly, you may build expressions over arbitrary sets of states by
        \* leveraging the _TETrace operator.  For example, this is how to
        \* count the number of times a spec variable changed up to the current
        \* state in the trace.
        \* ,_exitModCount |->
        \*     LET F[s \in DOMAIN _TETrace] ==
        \*         IF s = 1 THEN 0
        \*         ELSE IF _TETrace[s].exit # _TETrace[s-1].exit
        \*             THEN 1 + F[s-1] ELSE F[s-1]
        \*     IN F[_TEPosition - 1]
    ]

=============================================================================



Parsing and semantic processing can take forever if the trace below is long.
 In this case, it is advised to uncomment the module below to deserialize the
 trace from a generated binary file.

\*
\*---- MODULE Trace_Process_TETrace ----
\*EXTENDS IOUtils, Trace_Process, TLC
\*
\*trace == IODeserialize("Trace_Process_TTrace_1790942627.bin", TRUE)
\*
\*=============================================================================
\*

---- MODULE Trace_Process_TETrace ----
EXTENDS Trace_Process, TLC

trace == 
    <<
    ([nlocks |-> 0,cur |-> (0 :> 1 @@ 1 :> 1 @@ 2 :> 1),mpc |-> "spawn",rpc |-> "unborn",sockq |-> <<0>>,drained |-> <<0>>,poisoned |-> FALSE,wpc |-> <<"unborn">>,hcOwner |-> {},exit |-> "running",keep |-> TRUE,lock |-> 0,mi |-> 1]),
    ([nlocks |-> 0,cur |-> (0 :> 2 @@ 1 :> 1 @@ 2 :> 1),mpc |-> "spawn",rpc |-> "unborn",sockq |-> <<0>>,drained |-> <<0>>,poisoned |-> FALSE,wpc |-> <<"unborn">>,hcOwner |-> {},exit |-> "running",keep |-> TRUE,lock |-> 0,mi |-> 1]),
    ([nlocks |-> 0,cur |-> (0 :> 3 @@ 1 :> 1 @@ 2 :> 1),mpc |-> "spawn",rpc |-> "unborn",sockq |-> <<0>>,drained |-> <<0>>,poisoned |-> FALSE,wpc |-> <<"want_lock">>,hcOwner |-> {},exit |-> "running",keep |-> TRUE,lock |-> 0,mi |-> 2]),
    ([nlocks |-> 0,cur |-> (0 :> 4 @@ 1 :> 1 @@ 2 :> 1),mpc |-> "postlocks",rpc |-> "unborn",sockq |-> <<0>>,drained |-> <<0>>,poisoned |-> FALSE,wpc |-> <<"want_lock">>,hcOwner |-> {},exit |-> "running",keep |-> TRUE,lock |-> 0,mi |-> 2]),
    ([nlocks |-> 0,cur |-> (0 :> 4 @@ 1 :> 2 @@ 2 :> 1),mpc |-> "postlocks",rpc |-> "unborn",sockq |-> <<0>>,drained |-> <<0>>,poisoned |-> FALSE,wpc |-> <<"want_lock">>,hcOwner |-> {},exit |-> "running",keep |-> TRUE,lock |-> 0,mi |-> 2]),
    ([nlocks |-> 1,cur |-> (0 :> 4 @@ 1 :> 3 @@ 2 :> 1),mpc |-> "postlocks",rpc |-> "unborn",sockq |-> <<0>>,drained |-> <<0>>,poisoned |-> FALSE,wpc |-> <<"new_server">>,hcOwner |-> {},exit |-> "running",keep |-> TRUE,lock |-> 1,mi |-> 2]),
    ([nlocks |-> 1,cur |-> (0 :> 4 @@ 1 :> 4 @@ 2 :> 1),mpc |-> "postlocks",rpc |-> "unborn",sockq |-> <<0>>,drained |-> <<0>>,poisoned |-> FALSE,wpc |-> <<"unlock">>,hcOwner |-> {},exit |-> "running",keep |-> TRUE,lock |-> 1,mi |-> 2]),
    ([nlocks |-> 1,cur |-> (0 :> 4 @@ 1 :> 5 @@ 2 :> 1),mpc |-> "postlocks",rpc |-> "unborn",sockq |-> <<0>>,drained |-> <<0>>,poisoned |-> FALSE,wpc |-> <<"poll">>,hcOwner |-> {},exit |-> "running",keep |-> TRUE,lock |-> 0,mi |-> 2]),
    ([nlocks |-> 1,cur |-> (0 :> 5 @@ 1 :> 5 @@ 2 :> 1),mpc |-> "join",rpc |-> "unborn",sockq |-> <<0>>,drained |-> <<0>>,poisoned |-> FALSE,wpc |-> <<"poll">>,hcOwner |-> {},exit |-> "running",keep |-> TRUE,lock |-> 0,mi |-> 1])
    >>
----


=============================================================================

---- CONFIG Trace_Process_TTrace_1790942627 ----

INVARIANT
    _inv

CHECK_DEADLOCK
    \* CHECK_DEADLOCK off because of PROPERTY or INVARIANT above.
    FALSE

INIT
    _init

NEXT
    _next

CONSTANT
    _TETrace <- _trace

ALIAS
    _expression
=============================================================================
\* Generated on Fri Oct 02 12:03:49 UTC 2026