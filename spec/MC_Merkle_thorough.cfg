SPECIFICATION Spec
CONSTANTS
  Data = {1, 2}
  MaxLeaves = 17
  FreeUpTo = 4
  MaxResets = 2
VIEW view
ACTION_CONSTRAINT Emit
INVARIANTS Complete MatchesDefinition PathShape Binding ResetClean
CHECK_DEADLOCK FALSE
