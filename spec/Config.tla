------------------------------- MODULE Config -------------------------------
(***************************************************************************)
(* C16: what the two configuration loaders (src/config/file.rs,             *)
(* src/config/environment.rs) plus is_valid_config must do, as a relation   *)
(* between what was WRITTEN (YAML file or documented ROUGHENOUGH_* variable) *)
(* and the OUTCOME: Refused, or Running with effective values eff.          *)
(*                                                                         *)
(* Integer settings use Absent for "not written". Documented ranges:        *)
(* port 1-65535, batch_size 1-64, fault_percentage 0-50, num_workers >= 1.  *)
(***************************************************************************)
EXTENDS Integers, Sequences, TLC

Absent == -999
IntKeys == {"port", "batch_size", "fault_percentage", "num_workers", "status_interval", "health_check_port"}

Default(k) == CASE k = "batch_size" -> 64
                [] k = "status_interval" -> 600
                [] k = "fault_percentage" -> 0
                [] OTHER -> Absent                 \* port: required; health_check_port: none; num_workers: #cpus

InDocRange(k, v) == CASE k = "port" -> v >= 1 /\ v <= 65535
                      [] k = "batch_size" -> v >= 1 /\ v <= 64
                      [] k = "fault_percentage" -> v >= 0 /\ v <= 50
                      [] k = "num_workers" -> v >= 1
                      [] k = "status_interval" -> v >= 1 /\ v <= 65535
                      [] k = "health_check_port" -> v >= 1 /\ v <= 65535

RangeDocumented == {"port", "batch_size", "fault_percentage", "num_workers"}

Written(w, k) == w[k] # Absent
\* the texts an operator may write for client_stats: "on" and "yes" in any letter case switch it on, anything else leaves it off
StatsOnTexts == {"on", "yes", "ON", "On", "oN", "YES", "Yes", "yEs"}
StatsTexts == StatsOnTexts \cup {"off", "OFF", "no", "enabled", "onn"}
StatsOn(w) == w.client_stats \in StatsOnTexts

\* valid seeds: "ok"; "digits" (64 hex digits that all happen to be decimal); "zeros" (64 zeros) and "lzdigits" (60 zeros
\* + 4 decimal digits). A YAML scalar resolver types the last two as small INTEGERS and drops their text, so a loader
\* cannot know what was written: it may refuse them (the code does, for the file source) but must never run with
\* another seed (zero-padding or re-formatting an integer would turn "seed: 1234" into a valid seed)
SeedValid == {"ok", "digits", "zeros", "lzdigits"}
SeedTextLost == {"zeros", "lzdigits"}

\* start-up MUST be refused
MustRefuse(w) ==
    \/ ~Written(w, "port")
    \/ \E k \in RangeDocumented : Written(w, k) /\ ~InDocRange(k, w[k])
    \/ w.seed \notin SeedValid                         \* missing, wrong length (also digit-only: "1234", "0"), not hex
    \/ w.interface # "ok"                             \* missing
    \/ w.unknown_key                                  \* file only

\* start-up MUST succeed with exactly the written values
MustRun(w) ==
    /\ ~MustRefuse(w)
    /\ ~w.multidoc                                     \* a file holding several YAML documents may be refused (the code does);
                                                      \* if it is accepted, every setting in it counts, whichever document holds it
    /\ w.seed \notin SeedTextLost
    /\ \A k \in IntKeys : Written(w, k) => InDocRange(k, w[k])
    /\ StatsOn(w) => w.persistence_directory = "dir"

\* effective integer value required when running (num_workers default is the machine's; "any")
EffInt(w, k) == IF Written(w, k) THEN w[k] ELSE Default(k)

\* is the observed outcome allowed?  o = [running, port, batch_size, ..., client_stats(bool), persistence(bool)]
EffMatches(w, o) ==
    /\ \A k \in IntKeys : (Written(w, k) \/ Default(k) # Absent) => o[k] = EffInt(w, k)
    /\ ~Written(w, "health_check_port") => o.health_check_port = Absent
    /\ o.client_stats = StatsOn(w)
    /\ o.persistence = (w.persistence_directory = "dir")
    /\ o.seed_ok /\ o.interface_ok

Allowed(w, o) ==
    IF MustRefuse(w) THEN ~o.running
    ELSE IF MustRun(w) THEN o.running /\ EffMatches(w, o)
    ELSE (~o.running \/ EffMatches(w, o))            \* may refuse, but never runs with other values

Class(w) == IF MustRefuse(w) THEN "must_refuse" ELSE IF MustRun(w) THEN "must_run" ELSE "may"
=============================================================================
