SPECIFICATION MSpec
CONSTANTS
  B = 1
  MaxArr = 4
  Kinds = {"C", "I", "X"}
  Srcs = {1}
  LevelTriggered = TRUE
  MaxBatches = 16
  StaleFailFlag = FALSE
  DrainExitsOnEmptyBatch = FALSE
VIEW mview
ACTION_CONSTRAINT Emit
INVARIANTS AtMostOnce OwnSlot Faithful NoStranded BatchBound ExactlyOnce OwnProtocol NoReplyToInvalid StatsConserve StatsResponses StatsSettled StatsAreTraffic
PROPERTY Responsive
CHECK_DEADLOCK FALSE
