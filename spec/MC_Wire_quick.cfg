SPECIFICATION Spec
CONSTANTS
  MaxWords = 4
  MaxFields = 2
  MaxMut = 1
  BuildTags = {1, 4, 5, 14, 18}
  BuildLens = {0, 1, 2}
ACTION_CONSTRAINT Emit
INVARIANTS Exact Canonical RoundTrip BuilderOrdered
CHECK_DEADLOCK FALSE
