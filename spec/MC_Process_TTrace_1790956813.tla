---- MODULE MC_Process_TTrace_1790956813 ----
EXTENDS Sequences, TLCExt, MC_Process, Toolbox, Naturals, TLC

_expression ==
    LET MC_Process_TEExpression == INSTANCE MC_Process_TEExpression
    IN MC_Process_TEExpression!expression
----

_trace ==
    LET MC_Process_TETrace == INSTANCE MC_Process_TETrace
    IN MC_Process_TETrace!trace
----

_inv ==
    ~(
        TLCGet("level") = Len(_TETrace)
        /\
        hcOwner = ({1})
        /\
        exit = ("101")
        /\
        mpc = ("panicked")
        /\
        rpc = ("panicked")
        /\
        sockq = (<<0>>)
        /\
        keep = (FALSE)
        /\
        drained = (<<0>>)
        /\
        lock = (0)
        /\
        poisoned = (FALSE)
        /\
        wpc = (<<"exited">>)
        /\
        mi = (2)
    )
----

_init ==
    /\ exit = _TETrace[1].exit
    /\ mi = _TETrace[1].mi
    /\ rpc = _TETrace[1].rpc
    /\ lock = _TETrace[1].lock
    /\ poisoned = _TETrace[1].poisoned
    /\ keep = _TETrace[1].keep
    /\ sockq = _TETrace[1].sockq
    /\ hcOwner = _TETrace[1].hcOwner
    /\ mpc = _TETrace[1].mpc
    /\ drained = _TETrace[1].drained
    /\ wpc = _TETrace[1].wpc
----

_next ==
    /\ \E i,j \in DOMAIN _TETrace:
        /\ \/ /\ j = i + 1
              /\ i = TLCGet("level")
        /\ exit  = _TETrace[i].exit
        /\ exit' = _TETrace[j].exit
        /\ mi  = _TETrace[i].mi
        /\ mi' = _TETrace[j].mi
        /\ rpc  = _TETrace[i].rpc
        /\ rpc' = _TETrace[j].rpc
        /\ lock  = _TETrace[i].lock
        /\ lock' = _TETrace[j].lock
        /\ poisoned  = _TETrace[i].poisoned
        /\ poisoned' = _TETrace[j].poisoned
        /\ keep  = _TETrace[i].keep
        /\ keep' = _TETrace[j].keep
        /\ sockq  = _TETrace[i].sockq
        /\ sockq' = _TETrace[j].sockq
        /\ hcOwner  = _TETrace[i].hcOwner
        /\ hcOwner' = _TETrace[j].hcOwner
        /\ mpc  = _TETrace[i].mpc
        /\ mpc' = _TETrace[j].mpc
        /\ drained  = _TETrace[i].drained
        /\ drained' = _TETrace[j].drained
        /\ wpc  = _TETrace[i].wpc
        /\ wpc' = _TETrace[j].wpc

\* Uncomment the ASSUME below to write the states of the error trace
\* to the given file in Json format. Note that you can pass any tuple
\* to `JsonSerialize`. For example, a sub-sequence of _TETrace.
    \* ASSUME
    \*     LET J == INSTANCE Json
    \*         IN J!JsonSerialize("MC_Process_TTrace_1790956813.json", _TETrace)

=============================================================================

 Note that you can extract this module `MC_Process_TEExpression`
  to a dedicated file to reuse `expression` (the module in the 
  dedicated `MC_Process_TEExpression.tla` file takes precedence 
  over the module `MC_Process_TEExpression` below).

---- MODULE MC_Process_TEExpression ----
EXTENDS Sequences, TLCExt, MC_Process, Toolbox, Naturals, TLC

expression == 
    [
        \* To hide variables of the `MC_Process` spec from the error trace,
        \* remove the variables below.  The trace will be written in the order
        \* of the fields of this record.
        exit |-> exit
        ,mi |-> mi
        ,rpc |-> rpc
        ,lock |-> lock
        ,poisoned |-> poisoned
        ,keep |-> keep
        ,sockq |-> sockq
        ,hcOwner |-> hcOwner
        ,mpc |-> mpc
        ,drained |-> drained
        ,wpc |-> wpc
        
        \* Put additional constant-, state-, and action-level expressions here:
        \* ,_stateNumber |-> _TEPosition
        \* ,_exitUnchanged |-> exit = exit'
        
        \* Format the `exit` variable as Json value.
        \* ,_exitJson |->
        \*     LET J == INSTANCE Json
        \*     IN J!ToJson(exit)
        
        \* Lastly, you may build expressions over arbitrary sets of states by
        \* leveraging the _TETrace operator.  For example, this is how to
        \* count the number of times a spec variable changed up to the current
        \* state in the trace.
        \* ,_exitModCount |->
        \*     LET F[s \in DOMAIN _TETrace] ==
        \*         IF s = 1 THEN 0
        \*         ELSE IF _TETrace[s].exit # _TETrace[s-1].exit
        \*             THEN 1 + F[s-1] ELSE F[s-1]
        \*     IN F[_TEPosition - 1]
    ]

=============================================================================



Parsing and semantic processing can take forever if the trace below is long.
 In this case, it is advised to uncomment the module below to deserialize the
 trace from a generated binary file.

\*
\*---- MODULE MC_Process_TETrace ----
\*EXTENDS IOUtils, MC_Process, TLC
\*
\*trace == IODeserialize("MC_Process_TTrace_1790956813.bin", TRUE)
\*
\*=============================================================================
\*

---- MODULE MC_Process_TETrace ----
EXTENDS MC_Process, TLC

trace == 
    <<
    ([hcOwner |-> {},exit |-> "running",mpc |-> "spawn",rpc |-> "unborn",sockq |-> <<0>>,keep |-> TRUE,drained |-> <<0>>,lock |-> 0,poisoned |-> FALSE,wpc |-> <<"unborn">>,mi |-> 1]),
    ([hcOwner |-> {},exit |-> "running",mpc |-> "spawn",rpc |-> "unborn",sockq |-> <<0>>,keep |-> TRUE,drained |-> <<0>>,lock |-> 0,poisoned |-> FALSE,wpc |-> <<"want_lock">>,mi |-> 2]),
    ([hcOwner |-> {},exit |-> "running",mpc |-> "postlocks",rpc |-> "unborn",sockq |-> <<0>>,keep |-> TRUE,drained |-> <<0>>,lock |-> 0,poisoned |-> FALSE,wpc |-> <<"want_lock">>,mi |-> 2]),
    ([hcOwner |-> {},exit |-> "running",mpc |-> "join",rpc |-> "check",sockq |-> <<0>>,keep |-> TRUE,drained |-> <<0>>,lock |-> 0,poisoned |-> FALSE,wpc |-> <<"want_lock">>,mi |-> 1]),
    ([hcOwner |-> {},exit |-> "running",mpc |-> "join",rpc |-> "check",sockq |-> <<0>>,keep |-> TRUE,drained |-> <<0>>,lock |-> 1,poisoned |-> FALSE,wpc |-> <<"new_server">>,mi |-> 1]),
    ([hcOwner |-> {1},exit |-> "running",mpc |-> "join",rpc |-> "check",sockq |-> <<0>>,keep |-> TRUE,drained |-> <<0>>,lock |-> 1,poisoned |-> FALSE,wpc |-> <<"unlock">>,mi |-> 1]),
    ([hcOwner |-> {1},exit |-> "running",mpc |-> "join",rpc |-> "check",sockq |-> <<0>>,keep |-> TRUE,drained |-> <<0>>,lock |-> 0,poisoned |-> FALSE,wpc |-> <<"poll">>,mi |-> 1]),
    ([hcOwner |-> {1},exit |-> "running",mpc |-> "join",rpc |-> "check",sockq |-> <<0>>,keep |-> TRUE,drained |-> <<0>>,lock |-> 0,poisoned |-> FALSE,wpc |-> <<"check">>,mi |-> 1]),
    ([hcOwner |-> {1},exit |-> "running",mpc |-> "join",rpc |-> "pass",sockq |-> <<0>>,keep |-> TRUE,drained |-> <<0>>,lock |-> 0,poisoned |-> FALSE,wpc |-> <<"check">>,mi |-> 1]),
    ([hcOwner |-> {1},exit |-> "running",mpc |-> "join",rpc |-> "panicked",sockq |-> <<0>>,keep |-> TRUE,drained |-> <<0>>,lock |-> 0,poisoned |-> FALSE,wpc |-> <<"check">>,mi |-> 1]),
    ([hcOwner |-> {1},exit |-> "running",mpc |-> "join",rpc |-> "panicked",sockq |-> <<0>>,keep |-> FALSE,drained |-> <<0>>,lock |-> 0,poisoned |-> FALSE,wpc |-> <<"check">>,mi |-> 1]),
    ([hcOwner |-> {1},exit |-> "running",mpc |-> "join",rpc |-> "panicked",sockq |-> <<0>>,keep |-> FALSE,drained |-> <<0>>,lock |-> 0,poisoned |-> FALSE,wpc |-> <<"exited">>,mi |-> 1]),
    ([hcOwner |-> {1},exit |-> "running",mpc |-> "join",rpc |-> "panicked",sockq |-> <<0>>,keep |-> FALSE,drained |-> <<0>>,lock |-> 0,poisoned |-> FALSE,wpc |-> <<"exited">>,mi |-> 2]),
    ([hcOwner |-> {1},exit |-> "101",mpc |-> "panicked",rpc |-> "panicked",sockq |-> <<0>>,keep |-> FALSE,drained |-> <<0>>,lock |-> 0,poisoned |-> FALSE,wpc |-> <<"exited">>,mi |-> 2])
    >>
----


=============================================================================

---- CONFIG MC_Process_TTrace_1790956813 ----
CONSTANTS
    N = 1
    Hc = TRUE
    HcReusePort = TRUE
    ClientStats = TRUE
    DrainBounded = TRUE
    MaxDrain = 2
    Q = 2
    AllowSignal = TRUE
    ReporterFragile = TRUE

INVARIANT
    _inv

CHECK_DEADLOCK
    \* CHECK_DEADLOCK off because of PROPERTY or INVARIANT above.
    FALSE

INIT
    _init

NEXT
    _next

CONSTANT
    _TETrace <- _trace

ALIAS
    _expression
=============================================================================
\* Generated on Fri Oct 02 16:00:14 UTC 2026