------------------------------- MODULE Identity -------------------------------
(***************************************************************************)
(* C10: the server's long-term identity and its certificates, over a        *)
(* history of (re)starts and workers (src/key/longterm.rs, online.rs).      *)
(* Every start of a responder pair creates a fresh online key and asks the  *)
(* long-term key for one certificate per protocol; the long-term signer is  *)
(* an incremental signer (Signer.tla) whose buffer must not carry over from *)
(* the previous certificate.                                                *)
(***************************************************************************)
EXTENDS Crypto, FiniteSets

CONSTANTS MaxStarts, Workers,
          SignerClears          \* TRUE = as coded: MsgSigner::sign clears its buffer

VARIABLES starts, certs, announced, buf
ivars == <<starts, certs, announced, buf>>

Dele(olk) == "D(" \o PK(olk) \o ";0;MAX)"
OnlineKeys == {"OLK", "OLK2", "OLKx"}            \* names used for successive online keys (symbolic, reused cyclically)
KeyOf(n) == IF n % 3 = 1 THEN "OLK" ELSE IF n % 3 = 2 THEN "OLK2" ELSE "OLKx"

IInit == starts = 0 /\ certs = {} /\ announced = {} /\ buf = ""

\* one worker start: Responder::new(IETF) then Responder::new(Google) on the same LongTermKey object
Start(w) ==
    /\ starts < MaxStarts
    /\ LET olkI == KeyOf(2 * starts + 1)
           olkG == KeyOf(2 * starts + 2)
           m1 == buf \o Ctx("I", "dele") \o Dele(olkI)
           buf1 == IF SignerClears THEN "" ELSE m1
           m2 == buf1 \o Ctx("G", "dele") \o Dele(olkG)
       IN /\ certs' = certs \cup {[v |-> "I", dele |-> Dele(olkI), sig |-> "S(LTK;" \o m1 \o ")", w |-> w, start |-> starts],
                                  [v |-> "G", dele |-> Dele(olkG), sig |-> "S(LTK;" \o m2 \o ")", w |-> w, start |-> starts]}
          /\ buf' = ""                        \* a new LongTermKey object is built at every Server::new
    /\ announced' = announced \cup {PK("LTK")}
    /\ starts' = starts + 1

INext == \E w \in Workers : Start(w)
ISpec == IInit /\ [][INext]_ivars

Other(v) == IF v = "G" THEN "I" ELSE "G"
VerifiesUnder(c, v) == c.sig = "S(LTK;" \o Ctx(v, "dele") \o c.dele \o ")"

SignedByLTK == \A c \in certs : VerifiesUnder(c, c.v)
CtxSeparated == \A c \in certs : ~VerifiesUnder(c, Other(c.v))
StableIdentity == Cardinality(announced) <= 1
WindowCoversAllTime == \A c \in certs : \E k \in OnlineKeys : c.dele = Dele(k)     \* MINT = 0, MAXT = max
=============================================================================
