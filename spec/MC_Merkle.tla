----------------------------- MODULE MC_Merkle -----------------------------
(* Model-checking / behaviour-generation wrapper for Merkle.tla.
   Every transition that completes a batch prints its whole history as one JSON line;
   the harness replays each such line on a fresh real MerkleTree. *)
EXTENDS Merkle, Json

Emit == (hist' # <<>> /\ hist'[Len(hist')].op = "root") => PrintT(ToJson([suite |-> "merkle", hist |-> hist']))
=============================================================================
