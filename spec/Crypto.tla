------------------------------- MODULE Crypto -------------------------------
(***************************************************************************)
(* Symbolic cryptography shared by every module.                           *)
(*                                                                         *)
(* Hashes, keys and signatures are free constructors written as strings in *)
(* a prefix-free grammar, so term equality is string equality, terms are   *)
(* cheap to fingerprint, and the Rust interpretation `I` (harness/src/     *)
(* interp.rs) can parse a term and evaluate it on bytes                    *)
(*      Z            the all-zero node of the profile's width              *)
(*      L<d>         leaf hash   H(0x00 || data d)                         *)
(*      N(a,b)       node hash   H(0x01 || a || b)                         *)
(*      PK(k)        Ed25519 public key of secret k                        *)
(*      S(k;ctx;m)   Ed25519 signature by k over ctx || m                  *)
(* The width (64 bytes classic / 32 bytes IETF at EVERY node) is not part  *)
(* of the term: it is a parameter of the interpretation, fixed per         *)
(* protocol version.                                                       *)
(***************************************************************************)
EXTENDS Naturals, Sequences, TLC

Z == "Z"
Leaf(d) == "L" \o ToString(d)
Node(a, b) == "N(" \o a \o "," \o b \o ")"

PK(k) == "PK(" \o k \o ")"
Sig(k, ctx, m) == "S(" \o k \o ";" \o ctx \o ";" \o m \o ")"
\* a signature verifies exactly when it was made by the matching secret over the same
\* context and message
Verify(pk, ctx, m, s) == \E k \in {"LTK", "LTKx", "OLK", "OLKx", "OLK2"} : pk = PK(k) /\ s = Sig(k, ctx, m)

Versions == {"G", "I"}                      \* Google classic, IETF draft-13
Ctx(v, what) == IF what = "dele" THEN (IF v = "G" THEN "deleG" ELSE "deleI") ELSE "srep"
Width(v) == IF v = "G" THEN 64 ELSE 32      \* bytes, at every tree node

\* ---- small arithmetic helpers
RECURSIVE Pow2(_)
Pow2(k) == IF k = 0 THEN 1 ELSE 2 * Pow2(k - 1)

RECURSIVE DepthFrom(_, _)
DepthFrom(n, k) == IF Pow2(k) >= n THEN k ELSE DepthFrom(n, k + 1)
Depth(n) == DepthFrom(n, 0)                 \* ceil(log2 n), Depth(1) = 0

CeilDiv(a, b) == (a + b - 1) \div b
Min(a, b) == IF a < b THEN a ELSE b
Max(a, b) == IF a > b THEN a ELSE b

\* ---- Merkle tree DEFINITION over a sequence of leaf data ids (0-based positions)
Count(n, l) == CeilDiv(n, Pow2(l))          \* number of real nodes at level l

RECURSIVE Val(_, _, _)
Val(ls, l, p) ==
    IF l = 0 THEN Leaf(ls[p + 1])
    ELSE LET c == Count(Len(ls), l - 1)
             left == Val(ls, l - 1, 2 * p)
             right == IF 2 * p + 1 < c THEN Val(ls, l - 1, 2 * p + 1) ELSE Z
         IN Node(left, right)

RefRoot(ls) == Val(ls, Depth(Len(ls)), 0)

Sibling(x) == IF x % 2 = 0 THEN x + 1 ELSE x - 1

RefPath(ls, i) ==
    [l \in 1..Depth(Len(ls)) |->
        LET s == Sibling(i \div Pow2(l - 1))
        IN IF s < Count(Len(ls), l - 1) THEN Val(ls, l - 1, s) ELSE Z]

\* what a verifier computes from (index, leaf hash, path)
RECURSIVE RootFromPath(_, _, _)
RootFromPath(i, h, path) ==
    IF path = <<>> THEN h
    ELSE RootFromPath(i \div 2,
                      IF i % 2 = 0 THEN Node(h, Head(path)) ELSE Node(Head(path), h),
                      Tail(path))
=============================================================================
