SPECIFICATION Spec
CONSTANTS
  MaxConns = 5
  AcceptMode = "loop"
  MaxAccepts = 16
VIEW view
ACTION_CONSTRAINT Emit
INVARIANTS NoStrandedConn AnsweredWereMade
PROPERTY HcLive
CHECK_DEADLOCK FALSE
