SPECIFICATION Spec
CONSTANTS
  MaxConns = 5
  AcceptMode = "loop"
  MaxAccepts = 16
  AbortEndsLoop = FALSE
VIEW view
ACTION_CONSTRAINT Emit
INVARIANTS NoStrandedConn AnsweredWereMade
PROPERTY HcLive
CHECK_DEADLOCK FALSE
