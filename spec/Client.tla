-------------------------------- MODULE Client --------------------------------
(***************************************************************************)
(* C01 / C03: the client (src/bin/roughenough-client.rs) as the sequence of *)
(* checks it performs on one response, against responses a network          *)
(* adversary can assemble component-wise from                               *)
(*   - the honest response to THIS request,                                 *)
(*   - honest responses to EARLIER requests (replay; same or previous run), *)
(*   - the other protocol's honest values (splice),                         *)
(*   - anything signed with keys the adversary owns (LTKx, OLKx),           *)
(*   - junk.                                                                *)
(* Cryptography is symbolic: a signature is [k, ctx, m]; a Merkle proof is  *)
(* summarised by which request's leaf it binds to which root.               *)
(***************************************************************************)
EXTENDS Naturals, Sequences, FiniteSets, TLC

CONSTANTS SigFailureIsFatal,   \* TRUE = an invalid DELE/SREP signature terminates the client (required)
          IetfLeafIsRequest,   \* TRUE = for IETF the client binds the whole request packet (required)
          MaxResponses,        \* responses considered per (version, key option)
          FullProduct          \* TRUE: signatures may cover ANY other payload; FALSE: the attached or the honest payload

Versions == {"G", "I"}
KeyOpts == {"none", "hex", "b64"}

\* ---- symbolic values
Sig(k, ctx, m) == [k |-> k, ctx |-> ctx, m |-> m]
JunkSig == [k |-> "none", ctx |-> "none", m |-> "none"]
CtxDele(v) == IF v = "G" THEN "deleG" ELSE "deleI"
CtxSrep == "srep"

\* delegations: who is certified and for which window relative to the response midpoint
\* ("inverted_lo": MAXT < MINT <= midpoint, "inverted_hi": midpoint <= MAXT < MINT - windows that contain nothing)
Deles == {[pubk |-> k, win |-> w] : k \in {"OLK", "OLKx"}, w \in {"covers", "starts_after", "ends_before", "inverted_lo", "inverted_hi"}}
HonestDele == [pubk |-> "OLK", win |-> "covers"]

\* signed responses: midpoint value class and which root they carry
\*   root "this"  = root of a batch containing THIS request's leaf
\*   root "old"   = root of a batch containing an EARLIER request's leaf (genuinely signed once)
\*   root "junk"  = a root no honest batch ever had
Sreps == {[midp |-> m, root |-> r, ver |-> v] : m \in {"now", "other"}, r \in {"this", "old", "otherproto", "junk", "short"}, v \in Versions}
HonestSrep(v) == [midp |-> "now", root |-> "this", ver |-> v]

\* what honest keys ever signed bounds what the adversary can attach
CertSigs(v, d) == {JunkSig} \cup {Sig("LTKx", CtxDele(v2), d) : v2 \in Versions}
                  \* the genuine long-term key certifies its own online key - also (a faulty but genuine server) for a
                  \* window that does not contain the midpoint: the window is a condition of its own
                  \cup (IF d.pubk = "OLK" THEN {Sig("LTK", CtxDele(v2), d) : v2 \in Versions} ELSE {})
\* the honest online key signed: this response, old responses, the other protocol's responses - all with midp "now"
SrepSigs(sr) == {JunkSig} \cup {Sig("OLKx", CtxSrep, sr)}
                \* ("short": a ROOT shorter than a tree node - empty or a prefix of the real root - signed by the genuine online key:
                \*  no inclusion proof recomputes it, whatever a comparison that stops at the shorter operand says)
                \cup (IF sr.midp = "now" /\ sr.root \in {"this", "old", "otherproto", "short"} THEN {Sig("OLK", CtxSrep, sr)} ELSE {})

\* inclusion proofs the adversary can present: which leaf the (index, path) pair binds, and to which root.
\* Hashing is collision free, so a proof exists only for leaves that really were in a signed batch:
\*   THIS request's protocol leaf in a batch answering it         [SpecLeaf, "this"]
\*   an earlier request's leaf in its own batch (replay)           ["old", "old"]
\*   (IETF client) THIS nonce as the leaf of a CLASSIC batch that the adversary obtained by sending the
\*    same nonce in a classic request (cross-protocol splice)      ["nonce", "otherproto"]
\*   anything else recomputes a root nobody signed                 ["none", "junk"]
ProofsFor(ver) == {[leaf |-> (IF ver = "G" THEN "nonce" ELSE "req"), root |-> "this"], [leaf |-> "old", root |-> "old"], [leaf |-> "none", root |-> "junk"]}
                  \cup (IF ver = "I" THEN {[leaf |-> "nonce", root |-> "otherproto"]} ELSE {})

Framing == {"ok", "missing", "otherproto"}

VARIABLES v, key, resp, pc, outcome, n
vars == <<v, key, resp, pc, outcome, n>>

NoResp == [framing |-> "none"]
Pending == [exit |-> "pending", printed |-> FALSE, verified |-> FALSE]

Init == /\ v \in Versions /\ key \in KeyOpts /\ resp = NoResp /\ pc = "wait" /\ outcome = Pending /\ n = 0

\* which leaf the protocol binds for version v, and which the client uses
SpecLeaf(ver) == IF ver = "G" THEN "nonce" ELSE "req"
ClientLeaf(ver) == IF ver = "G" \/ ~IetfLeafIsRequest THEN "nonce" ELSE "req"

Verify(pk, ctx, m, s) == s.k = pk /\ s.ctx = ctx /\ s.m = m

\* the property's definition of an authentic response (for the key the user pinned = LTK)
Authentic(r, ver) ==
    /\ r.framing = "ok"
    /\ Verify("LTK", CtxDele(ver), r.dele, r.csig)
    /\ Verify(r.dele.pubk, CtxSrep, r.srep, r.ssig)
    /\ r.dele.win = "covers"
    /\ r.proof.leaf = SpecLeaf(ver) /\ r.proof.root = r.srep.root /\ r.srep.root = "this"

\* ---- the client's steps (one per check in extract_time / main)
Deliver ==
    /\ pc = "wait" /\ n < MaxResponses
    /\ \E fr \in Framing, d \in Deles, sr \in Sreps, p \in ProofsFor(v) :
       \E d2 \in (IF FullProduct THEN Deles ELSE {d, HonestDele}), sr2 \in (IF FullProduct THEN Sreps ELSE {sr, HonestSrep(v)}) :
       \E cs \in CertSigs(v, d2), ss \in SrepSigs(sr2) :
          resp' = [framing |-> fr, csig |-> cs, dele |-> d, ssig |-> ss, srep |-> sr, proof |-> p]
    /\ pc' = "unframe" /\ n' = n + 1 /\ UNCHANGED <<v, key, outcome>>

Fail == outcome' = [exit |-> "fail", printed |-> FALSE, verified |-> FALSE] /\ pc' = "done"

Unframe == /\ pc = "unframe"
           /\ IF resp.framing = "ok" THEN pc' = "merkle" /\ UNCHANGED outcome ELSE Fail
           /\ UNCHANGED <<v, key, resp, n>>

CheckMerkle == /\ pc = "merkle"
               /\ IF resp.proof.leaf = ClientLeaf(v) /\ resp.proof.root = resp.srep.root
                  THEN pc' = "window" /\ UNCHANGED outcome ELSE Fail
               /\ UNCHANGED <<v, key, resp, n>>

CheckWindow == /\ pc = "window"
               /\ IF resp.dele.win = "covers" THEN pc' = (IF key = "none" THEN "print" ELSE "dele") /\ UNCHANGED outcome ELSE Fail
               /\ UNCHANGED <<v, key, resp, n>>

CheckDele == /\ pc = "dele"
             /\ IF Verify("LTK", CtxDele(v), resp.dele, resp.csig) \/ ~SigFailureIsFatal
                THEN pc' = "srep" /\ UNCHANGED outcome ELSE Fail
             /\ UNCHANGED <<v, key, resp, n>>

CheckSrep == /\ pc = "srep"
             /\ IF Verify(resp.dele.pubk, CtxSrep, resp.srep, resp.ssig) \/ ~SigFailureIsFatal
                THEN pc' = "print" /\ UNCHANGED outcome ELSE Fail
             /\ UNCHANGED <<v, key, resp, n>>

PrintTime == /\ pc = "print"
         /\ outcome' = [exit |-> "ok", printed |-> TRUE, verified |-> (key # "none")]
         /\ pc' = "done" /\ UNCHANGED <<v, key, resp, n>>

\* the next request of the run (fresh nonce: everything genuine for the previous one is now "old")
NextRequest == /\ pc = "done" /\ n < MaxResponses
               /\ pc' = "wait" /\ resp' = NoResp /\ outcome' = Pending /\ UNCHANGED <<v, key, n>>

Next == Deliver \/ Unframe \/ CheckMerkle \/ CheckWindow \/ CheckDele \/ CheckSrep \/ PrintTime \/ NextRequest
Spec == Init /\ [][Next]_vars

\* ---- properties
Done == pc = "done"
\* C01: with a pinned key, success implies authenticity (and verified is reported)
Sound == (Done /\ outcome.exit = "ok" /\ key # "none") => (Authentic(resp, v) /\ outcome.verified)
NoTimeOnFailure == (Done /\ outcome.exit = "fail") => ~outcome.printed
VerifiedOnlyWithKey == (Done /\ outcome.exit = "ok") => (outcome.verified <=> key # "none")
\* without a key the Merkle and window checks still hold
BindsEvenWithoutKey == (Done /\ outcome.exit = "ok") => (resp.proof.root = resp.srep.root /\ resp.dele.win = "covers")
\* C03: every honest response is accepted
HonestResp(ver) == [framing |-> "ok", csig |-> Sig("LTK", CtxDele(ver), HonestDele), dele |-> HonestDele,
                    ssig |-> Sig("OLK", CtxSrep, HonestSrep(ver)), srep |-> HonestSrep(ver),
                    proof |-> [leaf |-> SpecLeaf(ver), root |-> "this"]]
Complete == (Done /\ resp = HonestResp(v)) => (outcome.exit = "ok" /\ outcome.printed)
=============================================================================
