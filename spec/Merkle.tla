------------------------------- MODULE Merkle -------------------------------
(***************************************************************************)
(* The MerkleTree OBJECT of src/merkle.rs, one action per public call, and *)
(* the properties of C04 relating it to the tree DEFINITION in Crypto.tla. *)
(*                                                                         *)
(*   levels : Vec<Vec<node>>; the vectors are retained across reset()      *)
(*   push_leaf      -> Push(d)                                             *)
(*   compute_root   -> ComputeRoot  (pad odd level with the zero node,     *)
(*                     hash pairs into the next level, POP the root)       *)
(*   get_paths(i)   -> PathOf(i)    (walk up while the level is non-empty) *)
(*   reset          -> Reset        (clear every level, keep the vectors)  *)
(*                                                                         *)
(* The usage protocol is the server's: push+ ; compute_root ; get_paths* ; *)
(* reset ; ...   (push after compute_root without reset is outside it).    *)
(***************************************************************************)
EXTENDS Crypto, FiniteSets

CONSTANTS Data,        \* leaf data ids that may be pushed freely
          MaxLeaves,   \* bound on batch size
          FreeUpTo,    \* positions <= FreeUpTo choose any d in Data; later ones push a fresh id
          MaxResets    \* bound on number of batches - 1

VARIABLES levels, phase, leaves, root, resets, hist

vars == <<levels, phase, leaves, root, resets, hist>>
view == <<levels, phase, leaves, root, resets>>     \* hist is an observation variable only

Init == /\ levels = << <<>> >>
        /\ phase = "filling"
        /\ leaves = <<>>
        /\ root = "none"
        /\ resets = 0
        /\ hist = <<>>

\* ---- compute_root, transcribed: `lv` levels, `level` 1-based level being consumed
RECURSIVE CR(_, _, _)
CR(lv, level, count) ==
    IF count <= 1 THEN <<lv, level>>
    ELSE LET lv1 == IF Len(lv) < level + 1 THEN Append(lv, <<>>) ELSE lv
             lv2 == IF count % 2 # 0 THEN [lv1 EXCEPT ![level] = Append(@, Z)] ELSE lv1
             cnt == (count + (count % 2)) \div 2
             hashed == [i \in 1..cnt |-> Node(lv2[level][2 * i - 1], lv2[level][2 * i])]
             lv3 == [lv2 EXCEPT ![level + 1] = @ \o hashed]
         IN CR(lv3, level + 1, cnt)

\* ---- get_paths, transcribed (idx 0-based)
RECURSIVE GP(_, _, _)
GP(lv, level, idx) ==
    IF level > Len(lv) \/ lv[level] = <<>> THEN <<>>
    ELSE <<lv[level][Sibling(idx) + 1]>> \o GP(lv, level + 1, idx \div 2)

PathOf(i) == GP(levels, 1, i)

PushChoices == IF Len(leaves) < FreeUpTo THEN Data ELSE {100 + Len(leaves)}

Push(d) == /\ phase = "filling"
           /\ Len(leaves) < MaxLeaves
           /\ levels' = [levels EXCEPT ![1] = Append(@, Leaf(d))]
           /\ leaves' = Append(leaves, d)
           /\ hist' = Append(hist, [op |-> "push", d |-> d])
           /\ UNCHANGED <<phase, root, resets>>

ComputeRoot ==
    /\ phase = "filling"
    /\ leaves # <<>>
    /\ LET r == CR(levels, 1, Len(levels[1]))
           lv == r[1]
           top == r[2]
           newLevels == [lv EXCEPT ![top] = <<>>]               \* pop()
           paths == [i \in 1..Len(leaves) |-> GP(newLevels, 1, i - 1)]
       IN /\ Assert(Len(lv[top]) = 1, "assert_eq!(levels[level].len(), 1)")
          /\ root' = lv[top][1]
          /\ levels' = newLevels
          /\ hist' = Append(hist, [op |-> "root", root |-> lv[top][1], paths |-> paths])
    /\ phase' = "rooted"
    /\ UNCHANGED <<leaves, resets>>

Reset == /\ phase = "rooted"
         /\ resets < MaxResets
         /\ levels' = [k \in DOMAIN levels |-> <<>>]
         /\ leaves' = <<>>
         /\ root' = "none"
         /\ phase' = "filling"
         /\ resets' = resets + 1
         /\ hist' = Append(hist, [op |-> "reset"])

Next == (\E d \in PushChoices : Push(d)) \/ ComputeRoot \/ Reset

Spec == Init /\ [][Next]_vars

\* ------------------------------------------------------------------ properties (C04)
Rooted == phase = "rooted"
N == Len(leaves)
Distinct == \A a, b \in 1..N : a # b => leaves[a] # leaves[b]

\* the path and index issued for position i recompute exactly the signed root
Complete == Rooted => \A i \in 1..N : RootFromPath(i - 1, Leaf(leaves[i]), PathOf(i - 1)) = root

\* the object, whatever its history, equals the definition (same as a fresh tree)
MatchesDefinition == Rooted => /\ root = RefRoot(leaves)
                               /\ \A i \in 1..N : PathOf(i - 1) = RefPath(leaves, i - 1)

PathShape == Rooted => \A i \in 1..N : Len(PathOf(i - 1)) = Depth(N)

\* single-element changes, insertions and deletions of a path
Mutations(p) ==
    {[p EXCEPT ![k] = "X"] : k \in 1..Len(p)}
    \cup {SubSeq(p, 1, k - 1) \o SubSeq(p, k + 1, Len(p)) : k \in 1..Len(p)}
    \cup {SubSeq(p, 1, k) \o <<"X">> \o SubSeq(p, k + 1, Len(p)) : k \in 0..Len(p)}
    \cup {SubSeq(p, 1, k) \o <<Z>> \o SubSeq(p, k + 1, Len(p)) : k \in 0..Len(p)}

Binding == (Rooted /\ Distinct) =>
    \A i \in 1..N :
        LET p == PathOf(i - 1) IN
        /\ \A j \in 1..N : j # i => RootFromPath(i - 1, Leaf(leaves[j]), p) # root
        /\ \A k \in 0..(Pow2(Depth(N)) - 1) : k # i - 1 => RootFromPath(k, Leaf(leaves[i]), p) # root
        /\ \A q \in Mutations(p) : RootFromPath(i - 1, Leaf(leaves[i]), q) # root

\* reset really empties the object: nothing of an earlier batch is left behind
ResetClean == (phase = "filling" /\ leaves = <<>>) => \A k \in DOMAIN levels : levels[k] = <<>>
=============================================================================
