------------------------------ MODULE StatsInd ------------------------------
(* Unbounded-length argument for C17 "Conservation" and "Bounded" (one worker), checked with Apalache as an
   INDUCTIVE invariant: Init => IndInv, and IndInv /\ Next => IndInv'.  The recorder is Stats.tla's, with the
   nine counters folded into one total per address (the property is about the number of events). *)
EXTENDS Integers, FiniteSets, Apalache

CONSTANTS
    \* @type: Set(Int);
    Addrs,
    \* @type: Int;
    Limit,
    \* @type: Bool;
    DoubleCounts      \* TRUE = a (wrong) recorder that counts an event for a tracked address AND as overflow when full

VARIABLES
    \* @type: Set(Int);
    tracked,
    \* @type: Int -> Int;
    cnt,
    \* @type: Int;
    ovf,
    \* @type: Int;
    nev

ConstInit == Addrs = {1, 2, 3, 4} /\ Limit \in 1..3 /\ DoubleCounts = FALSE
ConstInitWrong == Addrs = {1, 2, 3, 4} /\ Limit \in 1..3 /\ DoubleCounts = TRUE

Init == /\ tracked = {} /\ cnt = [a \in Addrs |-> 0] /\ ovf = 0 /\ nev = 0

Counted(a) == /\ tracked' = tracked \union {a} /\ cnt' = [cnt EXCEPT ![a] = @ + 1] /\ ovf' = ovf
Overflowed == /\ ovf' = ovf + 1 /\ UNCHANGED <<tracked, cnt>>

Rec(a) == /\ nev' = nev + 1
          /\ IF Cardinality(tracked) >= Limit
             THEN \/ Overflowed
                  \/ (a \in tracked /\ ~DoubleCounts /\ Counted(a))
                  \/ (a \in tracked /\ DoubleCounts /\ tracked' = tracked /\ cnt' = [cnt EXCEPT ![a] = @ + 1] /\ ovf' = ovf + 1)
             ELSE Counted(a)

Clear == /\ tracked' = {} /\ cnt' = [a \in Addrs |-> 0] /\ ovf' = 0 /\ nev' = 0

Next == (\E a \in Addrs : Rec(a)) \/ Clear

\* @type: (Set(Int), Int -> Int) => Int;
Sum(S, f) == ApaFoldSet(LAMBDA acc, a: acc + f[a], 0, S)

\* initial predicate of the inductive step: any state satisfying the invariant (variables are assigned first)
IndInit == /\ tracked \in SUBSET Addrs /\ cnt \in [Addrs -> Nat] /\ ovf \in Nat /\ nev \in Nat
           /\ Cardinality(tracked) <= Limit
           /\ \A a \in Addrs : a \notin tracked => cnt[a] = 0
           /\ Sum(Addrs, cnt) + ovf = nev

TypeOK == /\ tracked \subseteq Addrs /\ cnt \in [Addrs -> Nat] /\ ovf \in Nat /\ nev \in Nat
IndInv == /\ TypeOK
          /\ Cardinality(tracked) <= Limit
          /\ \A a \in Addrs : a \notin tracked => cnt[a] = 0
          /\ Sum(Addrs, cnt) + ovf = nev
=============================================================================
