SPECIFICATION Spec
CONSTANTS
  MaxWords = 5
  MaxFields = 3
  MaxMut = 2
  BuildTags = {1, 4, 5, 10, 14, 17, 18}
  BuildLens = {0, 1, 2}
ACTION_CONSTRAINT Emit
INVARIANTS Exact Canonical RoundTrip BuilderOrdered
CHECK_DEADLOCK FALSE
