--------------------------- MODULE Trace_Envelope ---------------------------
(* Trace validation for C14 (code -> spec): each event is one real encrypt_seed /
   (tamper) / decrypt_seed round with a harness KmsProvider. The event carries the
   configuration, the tamper operations as applied to the real bytes, what decrypt_seed
   returned ("seed" = exactly the original plaintext, "other" = a different plaintext,
   "err", "panic"), the measured blob length and two byte-scan facts (seed / DEK present in
   the blob). TLC rebuilds the symbolic blob, applies the same operations and re-decides. *)
EXTENDS Envelope, Json, IOUtils, TLCExt

Rec == ndJsonDeserialize(IOEnv.TRACE)
VARIABLE l

RECURSIVE ApplyAll(_, _)
ApplyAll(b, ops) == IF ops = <<>> THEN b ELSE ApplyAll(Tampered(b, Head(ops)), Tail(ops))

EventOk(e) ==
    LET b0 == Blob(e.W, e.P)
        b == ApplyAll(b0, e.ops)
        expected == IF e.fault = "enc_err" THEN Err
                    ELSE Decrypt(b, e.W, e.P, e.auth, IF e.fault = "none" THEN "ok" ELSE e.fault)
    IN /\ e.result = expected
       /\ (e.fault # "enc_err" => e.bloblen = Len(b0))
       /\ ~e.leak_seed /\ ~e.leak_dek

TInit == l = 1 /\ TLCSet(2, <<>>)
TNext == /\ l <= Len(Rec)
         /\ IF EventOk(Rec[l]) THEN TRUE ELSE TLCSet(2, TLCGet(2) \o <<l>>)
         /\ l' = l + 1
TSpec == TInit /\ [][TNext]_l

Accepted ==
    LET bad == TLCGet(2)
        consumed == TLCGet("stats").diameter - 1
    IN IF consumed = Len(Rec) /\ bad = <<>>
       THEN PrintT(ToJson([trace |-> "accepted", events |-> Len(Rec)]))
       ELSE PrintT(ToJson([trace |-> "rejected", matched |-> consumed, events |-> Len(Rec),
                           bad |-> SubSeq(bad, 1, IF Len(bad) < 200 THEN Len(bad) ELSE 200), nbad |-> Len(bad)])) /\ FALSE
=============================================================================
