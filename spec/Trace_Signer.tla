---------------------------- MODULE Trace_Signer ----------------------------
(* Trace validation for C13 (code -> spec). Events of REAL MsgSigner / MsgVerifier objects:
     new                      a fresh signer (and verifier oracle state) starts
     update  {chunk: id}      a chunk was fed (ids are per-object running numbers; len logged)
     sign    {covers: [ids]}  sign() returned; the interpretation I found, by one-shot
                              ed25519-dalek verification over candidate chunk ranges, exactly
                              which chunks the signature covers ("J" if none matched);
                              equal_oneshot: signature bytes equal the deterministic RFC 8032
                              signature of the concatenated chunks of this message alone
     verify  {impl, oracle}   MsgVerifier verdict vs direct verification, same triple
   The Signer.tla action Sign requires covers = the chunks fed since the previous sign. *)
EXTENDS Naturals, Sequences, TLC, Json, IOUtils, TLCExt

Rec == ndJsonDeserialize(IOEnv.TRACE)

VARIABLES l, buf
tvars == <<l, buf>>

TInit == l = 1 /\ buf = <<>> /\ TLCSet(2, <<>>)

Bad == TLCSet(2, TLCGet(2) \o <<l>>)

TNext ==
    /\ l <= Len(Rec)
    /\ LET e == Rec[l] IN
       CASE e.ev = "new" -> buf' = <<>>
         [] e.ev = "update" -> buf' = Append(buf, e.chunk)
         [] e.ev = "sign" ->
              /\ IF e.covers = buf /\ e.equal_oneshot /\ ~e.panic THEN TRUE ELSE Bad
              /\ buf' = <<>>
         [] e.ev = "verify" ->
              /\ IF e.impl = e.oracle THEN TRUE ELSE Bad
              /\ UNCHANGED buf
         [] OTHER -> Bad /\ UNCHANGED buf
    /\ l' = l + 1

TSpec == TInit /\ [][TNext]_tvars

Accepted ==
    LET bad == TLCGet(2)
        consumed == TLCGet("stats").diameter - 1
    IN IF consumed = Len(Rec) /\ bad = <<>>
       THEN PrintT(ToJson([trace |-> "accepted", events |-> Len(Rec)]))
       ELSE PrintT(ToJson([trace |-> "rejected", matched |-> consumed, events |-> Len(Rec),
                           bad |-> SubSeq(bad, 1, IF Len(bad) < 200 THEN Len(bad) ELSE 200), nbad |-> Len(bad)])) /\ FALSE
=============================================================================
