---------------------------- MODULE MC_Envelope ----------------------------
(* State machine: choose a configuration, encrypt, tamper up to MaxTamper times (or inject a
   provider fault), decrypt. Every decrypt transition prints one test case. *)
EXTENDS Envelope, Json

CONSTANTS WrappedLens, PlainLens, MaxTamper, EveryPos

VARIABLES pc, W, P, auth, blob, ops, fault, result
vars == <<pc, W, P, auth, blob, ops, fault, result>>

Init == /\ pc = "start" /\ W = 0 /\ P = 0 /\ auth = TRUE /\ blob = <<>> /\ ops = <<>> /\ fault = "none" /\ result = "none"

Encrypt == /\ pc = "start"
           /\ \E w \in WrappedLens, p \in PlainLens, a \in BOOLEAN :
                /\ (~a => w = 32)            \* an unauthenticated (XOR) wrap has the DEK's own length
                /\ W' = w /\ P' = p /\ auth' = a /\ blob' = Blob(w, p)
           /\ pc' = "blob" /\ UNCHANGED <<ops, fault, result>>

\* positions worth distinguishing: every header byte, every section boundary, and (EveryPos) every byte
Positions == IF EveryPos THEN 1..Len(blob)
             ELSE {i \in 1..Len(blob) : i <= 6 \/ i >= Len(blob) - 1
                     \/ (i >= 4 + W - 1 /\ i <= 4 + W + 2) \/ (i >= 4 + W + NonceLen - 1 /\ i <= 4 + W + NonceLen + 2)
                     \/ (i >= Len(blob) - TagLen - 1 /\ i <= Len(blob) - TagLen + 1) \/ i % 16 = 0}

TamperOps ==
    {[k |-> "flip", pos |-> p, bit |-> b] : p \in Positions \cap (1..4), b \in 0..7}
    \cup {[k |-> "set", pos |-> p, val |-> v] : p \in Positions \cap (1..4), v \in HeaderValues}
    \cup {[k |-> "flip", pos |-> p, bit |-> 0] : p \in Positions \ (1..4)}
    \cup {[k |-> "trunc", len |-> n] : n \in (IF EveryPos THEN 0..(Len(blob) - 1) ELSE ({0, 3, 4, 31, 32, 33} \cup {p - 1 : p \in Positions}) \cap (0..(Len(blob) - 1)))}
    \cup {[k |-> "ext", n |-> n] : n \in {1, 16}}

Tamper == /\ pc = "blob" /\ Len(ops) < MaxTamper /\ fault = "none"
          /\ \E op \in TamperOps :
                /\ (op.k \in {"flip", "set"} => blob[op.pos][1] # "x")
                /\ Tampered(blob, op) # blob
                /\ blob' = Tampered(blob, op) /\ ops' = Append(ops, op)
          /\ UNCHANGED <<pc, W, P, auth, fault, result>>

\* coordinated edits: a length word of the header raised by n and n foreign bytes spliced in right behind that field, so
\* that everything after it still lines up
Grow == /\ pc = "blob" /\ ops = <<>> /\ fault = "none"
        /\ \E n \in {1, 4}, fld \in {"nonce", "dek"} :
             LET o1 == IF fld = "nonce" THEN [k |-> "set", pos |-> 3, val |-> NonceLen + n] ELSE [k |-> "set", pos |-> 1, val |-> W + n]
                 o2 == [k |-> "splice", pos |-> (IF fld = "nonce" THEN 4 + W + NonceLen ELSE 4 + W), n |-> n]
             IN /\ W + n < 256
                /\ blob' = Tampered(Tampered(blob, o1), o2) /\ ops' = <<o1, o2>>
        /\ UNCHANGED <<pc, W, P, auth, fault, result>>

Fault == /\ pc = "blob" /\ ops = <<>> /\ fault = "none"
         /\ fault' \in {"enc_err", "err", "wrongkey", "wronglen", "longkey", "shortkey"}
         /\ UNCHANGED <<pc, W, P, auth, blob, ops, result>>

DoDecrypt == /\ pc = "blob"
             /\ result' = IF fault = "enc_err" THEN Err ELSE Decrypt(blob, W, P, auth, fault)
             /\ pc' = "done" /\ UNCHANGED <<W, P, auth, blob, ops, fault>>

Next == Encrypt \/ Tamper \/ Grow \/ Fault \/ DoDecrypt
Spec == Init /\ [][Next]_vars

\* ---- properties
Done == pc = "done"
RoundTrip == (Done /\ ops = <<>> /\ fault = "none") => result = OkSeed
TamperDetected == (Done /\ (ops # <<>> \/ fault # "none")) => result = Err
NoOtherPlaintext == Done => result \in {OkSeed, Err}
NoLeak == \A i \in 1..Len(blob) : blob[i][1] \in {"h", "w", "n", "c", "x"}     \* no seed / DEK cell ever

Emit == (pc' = "done") => PrintT(ToJson([suite |-> "envelope", W |-> W, P |-> P, auth |-> auth, ops |-> ops,
                                         fault |-> fault, exp |-> result']))
=============================================================================
