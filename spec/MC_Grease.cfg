SPECIFICATION Spec
INVARIANTS Dichotomy SomeInjectionIsHarmless
CHECK_DEADLOCK FALSE
