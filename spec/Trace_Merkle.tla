---------------------------- MODULE Trace_Merkle ----------------------------
(* Trace validation for C04 (code -> spec): each line of the ndjson trace is one batch
   processed by a REAL MerkleTree object (possibly reused from earlier batches of the same
   "new" section). Node values were abstracted by the interpretation I to node ids
   "<level>:<pos>" / "Z" (zero node) / "J" (unexplained). The specification decides:
     - the root is the definition's root for those leaves          (rootok)
     - every issued path is exactly RefPath(n, i) of the definition (ids)
     - each path recomputes the root under the implementation's own and the independent
       verifier (selfverify, iverify)
     - no binding attempt (other leaf / other index / changed, added, removed element)
       recomputed the root (bindhits = 0)
   regardless of what the object processed before (history independence). *)
EXTENDS Crypto, Json, IOUtils

Rec == ndJsonDeserialize(IOEnv.TRACE)

VARIABLES l, started
tvars == <<l, started>>

IdOf(n, lvl, i) ==   \* expected path element at level lvl (0-based) for position i
    LET s == Sibling(i \div Pow2(lvl))
    IN IF s < Count(n, lvl) THEN ToString(lvl) \o ":" \o ToString(s) ELSE "Z"

ExpectedPath(n, i) == [k \in 1..Depth(n) |-> IdOf(n, k - 1, i)]

BatchOk(e) ==
    /\ "panic" \notin DOMAIN e
    /\ e.n >= 1
    /\ e.rootok
    /\ e.aligned
    /\ e.selfverify
    /\ e.iverify
    /\ e.bindhits = 0
    /\ Len(e.paths) = e.n
    /\ \A i \in 1..e.n : e.paths[i] = ExpectedPath(e.n, i - 1)

TInit == l = 1 /\ started = FALSE

TNew == /\ l <= Len(Rec) /\ Rec[l].ev = "new"
        /\ started' = TRUE /\ l' = l + 1

TBatch == /\ l <= Len(Rec) /\ Rec[l].ev = "batch" /\ started
          /\ BatchOk(Rec[l])
          /\ l' = l + 1 /\ UNCHANGED started

TNext == TNew \/ TBatch
TSpec == TInit /\ [][TNext]_tvars

Accepted ==
    LET matched == TLCGet("stats").diameter - 1 IN
    IF matched = Len(Rec)
    THEN PrintT(ToJson([trace |-> "accepted", events |-> Len(Rec)]))
    ELSE PrintT(ToJson([trace |-> "rejected", matched |-> matched, events |-> Len(Rec)])) /\ FALSE
=============================================================================
