SPECIFICATION TSpec
CONSTANTS
  Workers = {1, 2, 3}
  Addrs = {1, 2, 3, 4, 5, 6, 7, 8}
  FullMeansOverflow = FALSE
INVARIANT InvAsBad
POSTCONDITION Accepted
CHECK_DEADLOCK FALSE
