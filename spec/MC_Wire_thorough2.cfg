SPECIFICATION Spec
CONSTANTS
  MaxWords = 1
  MaxFields = 2
  MaxMut = 2
  BuildTags = {1, 4, 14, 18}
  BuildLens = {0, 1, 2}
ACTION_CONSTRAINT Emit
INVARIANTS Exact Canonical RoundTrip BuilderOrdered
CHECK_DEADLOCK FALSE
