-------------------------------- MODULE Health --------------------------------
(***************************************************************************)
(* C15 (health check): the TCP listener of a worker (src/server.rs          *)
(* handle_health_check). The listener is registered EDGE-triggered: poll    *)
(* reports it once per burst of connection arrivals. Each accepted          *)
(* connection is answered with the fixed HTTP 200 response and closed.      *)
(*   AcceptMode = "loop"     accept until WouldBlock            (required)  *)
(*                "one"      one accept per readiness event     (pinned, D5)*)
(*                "bounded"  at most MaxAccepts per event       (wrong)     *)
(* A peer may ABORT its connection (RST) while it still waits in the        *)
(* accept queue: accept() returns it all the same, the write fails, and     *)
(* the loop goes on with the next connection.                               *)
(*   AbortEndsLoop = FALSE   as coded and required                          *)
(*                   TRUE    a failed write ends the accept loop (wrong)    *)
(***************************************************************************)
EXTENDS Naturals, Sequences, TLC

CONSTANTS MaxConns, AcceptMode, MaxAccepts, AbortEndsLoop

VARIABLES hcq,       \* accept queue: connection ids
          hcEdge,    \* edge-triggered readiness pending
          pc,        \* "poll" | "accept"
          acc,       \* accepts done in the current event
          answered,  \* set of answered connections
          conns,     \* connections made so far
          kinds,     \* kinds[k] = "L" (live) | "A" (aborted by the peer before it is accepted) of connection k
          sched      \* observation: how many connections were pending before each accept of the run

vars == <<hcq, hcEdge, pc, acc, answered, conns, kinds, sched>>
view == <<hcq, hcEdge, pc, acc, answered, conns, kinds>>

Init == hcq = <<>> /\ hcEdge = FALSE /\ pc = "poll" /\ acc = 0 /\ answered = {} /\ conns = 0 /\ kinds = <<>>
        /\ sched = [pre |-> 0, during |-> <<>>]

Connect(kind) ==
           /\ conns < MaxConns /\ kinds' = Append(kinds, kind)
           /\ conns' = conns + 1 /\ hcq' = Append(hcq, conns + 1) /\ hcEdge' = TRUE
           /\ sched' = IF pc = "poll" /\ answered = {} /\ acc = 0 THEN [sched EXCEPT !.pre = @ + 1]
                       ELSE [sched EXCEPT !.during = Append(@, acc)]     \* arrives after `acc` accepts of this event
           /\ UNCHANGED <<pc, acc, answered>>

Poll == /\ pc = "poll" /\ hcEdge
        /\ hcEdge' = FALSE /\ pc' = "accept" /\ acc' = 0
        /\ UNCHANGED <<hcq, answered, conns, kinds, sched>>

Accept == /\ pc = "accept"
          /\ IF hcq = <<>> THEN pc' = "poll" /\ UNCHANGED <<hcq, answered, acc>>          \* WouldBlock
             ELSE /\ answered' = (IF kinds[Head(hcq)] = "L" THEN answered \cup {Head(hcq)} ELSE answered)   \* the write to an aborted one fails
                  /\ hcq' = Tail(hcq) /\ acc' = acc + 1
                  /\ pc' = IF AcceptMode = "one" \/ (AcceptMode = "bounded" /\ acc + 1 >= MaxAccepts)
                               \/ (AbortEndsLoop /\ kinds[Head(hcq)] = "A") THEN "poll" ELSE "accept"
          /\ UNCHANGED <<hcEdge, conns, kinds, sched>>

Worker == Poll \/ Accept
Next == Worker \/ \E kind \in {"L", "A"} : Connect(kind)
Spec == Init /\ [][Next]_vars /\ WF_vars(Worker)

\* no connection is left behind without a pending readiness event
NoStrandedConn == (pc = "poll" /\ ~hcEdge) => hcq = <<>>
\* every connection that stays open is eventually answered
HcLive == \A k \in 1..MaxConns : []((conns >= k /\ kinds[k] = "L") => <>(k \in answered))
AnsweredWereMade == \A k \in answered : k <= conns
=============================================================================
