-------------------------------- MODULE Health --------------------------------
(***************************************************************************)
(* C15 (health check): the TCP listener of a worker (src/server.rs          *)
(* handle_health_check). The listener is registered EDGE-triggered: poll    *)
(* reports it once per burst of connection arrivals. Each accepted          *)
(* connection is answered with the fixed HTTP 200 response and closed.      *)
(*   AcceptMode = "loop"     accept until WouldBlock            (required)  *)
(*                "one"      one accept per readiness event     (pinned, D5)*)
(*                "bounded"  at most MaxAccepts per event       (wrong)     *)
(***************************************************************************)
EXTENDS Naturals, Sequences, TLC

CONSTANTS MaxConns, AcceptMode, MaxAccepts

VARIABLES hcq,       \* accept queue: connection ids
          hcEdge,    \* edge-triggered readiness pending
          pc,        \* "poll" | "accept"
          acc,       \* accepts done in the current event
          answered,  \* set of answered connections
          conns,     \* connections made so far
          sched      \* observation: how many connections were pending before each accept of the run

vars == <<hcq, hcEdge, pc, acc, answered, conns, sched>>
view == <<hcq, hcEdge, pc, acc, answered, conns>>

Init == hcq = <<>> /\ hcEdge = FALSE /\ pc = "poll" /\ acc = 0 /\ answered = {} /\ conns = 0
        /\ sched = [pre |-> 0, during |-> <<>>]

Connect == /\ conns < MaxConns
           /\ conns' = conns + 1 /\ hcq' = Append(hcq, conns + 1) /\ hcEdge' = TRUE
           /\ sched' = IF pc = "poll" /\ answered = {} /\ acc = 0 THEN [sched EXCEPT !.pre = @ + 1]
                       ELSE [sched EXCEPT !.during = Append(@, acc)]     \* arrives after `acc` accepts of this event
           /\ UNCHANGED <<pc, acc, answered>>

Poll == /\ pc = "poll" /\ hcEdge
        /\ hcEdge' = FALSE /\ pc' = "accept" /\ acc' = 0
        /\ UNCHANGED <<hcq, answered, conns, sched>>

Accept == /\ pc = "accept"
          /\ IF hcq = <<>> THEN pc' = "poll" /\ UNCHANGED <<hcq, answered, acc>>          \* WouldBlock
             ELSE /\ answered' = answered \cup {Head(hcq)} /\ hcq' = Tail(hcq) /\ acc' = acc + 1
                  /\ pc' = IF AcceptMode = "one" \/ (AcceptMode = "bounded" /\ acc + 1 >= MaxAccepts) THEN "poll" ELSE "accept"
          /\ UNCHANGED <<hcEdge, conns, sched>>

Worker == Poll \/ Accept
Next == Worker \/ Connect
Spec == Init /\ [][Next]_vars /\ WF_vars(Worker)

\* no connection is left behind without a pending readiness event
NoStrandedConn == (pc = "poll" /\ ~hcEdge) => hcq = <<>>
\* every connection is eventually answered
HcLive == \A k \in 1..MaxConns : [](conns >= k => <>(k \in answered))
AnsweredWereMade == \A k \in answered : k <= conns
=============================================================================
