---- MODULE MC_Identity ----
EXTENDS Identity
====
