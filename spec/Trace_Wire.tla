----------------------------- MODULE Trace_Wire -----------------------------
(* Trace validation for C05/C06 (code -> spec). Every event is one call of the REAL
   RtMessage::from_bytes on bytes the harness generated; the bytes are abstracted to words
   <<v,t>>, the outcome to [ok, tags, lens]. TLC re-decides each event with the reference
   decoder of Wire.tla and checks the facts the harness measured on the bytes:
     obs = Decode(ws, tail)                      (C05: accepts iff reference accepts, same content)
     api present => obs = api                    (C05: round trip of API-built messages)
     accepted non-empty => reenc_ok /\ frame_ok  (C05: canonical, framing)
     ~panic /\ display_ok                        (C06: total)
     accepted non-empty => concat_ok             (C06: exact)
   All events are examined; the indices of failing ones are collected in TLC register 2. *)
EXTENDS Wire, Json, IOUtils, TLCExt

Rec == ndJsonDeserialize(IOEnv.TRACE)

VARIABLE l

EventOk(e) ==
    /\ ~e.panic
    /\ e.display_ok
    /\ e.obs = Decode(e.ws, e.tail)
    /\ ("api" \in DOMAIN e) => e.obs = e.api
    /\ (e.obs.ok /\ Len(e.obs.tags) > 0) => (e.concat_ok /\ e.reenc_ok /\ e.frame_ok)

TInit == l = 1 /\ TLCSet(2, <<>>)

TNext == /\ l <= Len(Rec)
         /\ IF EventOk(Rec[l]) THEN TRUE ELSE TLCSet(2, TLCGet(2) \o <<l>>)
         /\ l' = l + 1

TSpec == TInit /\ [][TNext]_l

Accepted ==
    LET bad == TLCGet(2)
        consumed == TLCGet("stats").diameter - 1
    IN IF consumed = Len(Rec) /\ bad = <<>>
       THEN PrintT(ToJson([trace |-> "accepted", events |-> Len(Rec)]))
       ELSE PrintT(ToJson([trace |-> "rejected", matched |-> consumed, events |-> Len(Rec),
                           bad |-> SubSeq(bad, 1, IF Len(bad) < 200 THEN Len(bad) ELSE 200), nbad |-> Len(bad)])) /\ FALSE
=============================================================================
