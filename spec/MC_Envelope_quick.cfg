SPECIFICATION Spec
CONSTANTS
  WrappedLens = {16, 20, 32, 48}
  PlainLens = {32, 48, 64}
  MaxTamper = 1
  EveryPos = FALSE
ACTION_CONSTRAINT Emit
INVARIANTS RoundTrip TamperDetected NoOtherPlaintext NoLeak
CHECK_DEADLOCK FALSE
