---------------------------- MODULE Trace_Process ----------------------------
(* Trace validation of ONE run of the real roughenough-server binary (C15, C19, C18 liveness of workers)
   against Process.tla.
   Input (IOEnv.TRACE): one JSON object
     meta     configuration of the run (n workers, hc, client_stats)
     threads  per-thread hook logs, in each thread's own order:  main, sig, rep (statistics reporter), w1..wN
              (events were written by the thread itself with a per-thread sequence number; nothing
               orders events of different threads, so this specification keeps ONE CURSOR PER THREAD
               and TLC searches for an interleaving that Process.tla allows)
     started / served / hc / final / exit   what the harness observed from outside
   Result: a JSON verdict with the set of reasons for which the run is not a behaviour the
   specification (with the REQUIRED constants) allows. *)
EXTENDS Integers, Sequences, FiniteSets, TLC, Json, IOUtils, TLCExt

Run == ndJsonDeserialize(IOEnv.TRACE)[1]
TN == Run.meta.n

VARIABLES mpc, mi, lock, poisoned, wpc, hcOwner, keep, rpc, sockq, drained, exit, cur,
          nlocks     \* worker acquisitions of the configuration mutex consumed so far (they are numbered by a hook
                     \* counter incremented while holding the mutex, so their order is known)

P == INSTANCE Process WITH N <- TN, Hc <- Run.meta.hc, HcReusePort <- TRUE, ClientStats <- Run.meta.client_stats,
                           DrainBounded <- TRUE, MaxDrain <- 2, Q <- 2, AllowSignal <- TRUE, ReporterFragile <- FALSE

pvars == <<mpc, mi, lock, poisoned, wpc, hcOwner, keep, rpc, sockq, drained, exit>>
\* thread ids: 0 = main, 1..TN = workers, TN + 1 = the statistics reporter, TN + 2 = the signal-handling thread
\* (the reporter comes before the signal thread: its "the flag was still set" events are consumed before the
\*  signal is, which is always at least as permissive as the other order)
Threads == 0..(TN + 2)
WName(w) == "w" \o ToString(w)
Log(t) == IF t = 0 THEN Run.threads.main ELSE IF t = TN + 2 THEN Run.threads.sig
          ELSE IF t = TN + 1 THEN Run.threads.rep ELSE Run.threads[WName(t)]
HasNext(t) == cur[t] <= Len(Log(t))
Ev(t) == Log(t)[cur[t]]
Adv(t) == cur' = [cur EXCEPT ![t] = @ + 1]
Skip == UNCHANGED pvars

Serving(w) == wpc[w] \in {"poll", "drain", "check"}

\* ---- one trace step of thread t: the logged event must be an enabled step of Process.tla
MainEv(e) ==
    CASE e.ev = "m_start" -> Skip
      [] e.ev = "m_spawn" -> mi = e.i + 1 /\ ~poisoned /\ P!m_spawn
      [] e.ev = "m_spawned_all" -> P!m_spawned_all
      [] e.ev = "m_join_begin" -> ~poisoned /\ P!m_postlocks
      [] e.ev = "m_joined" -> IF e.i < TN
                              THEN mpc = "join" /\ mi = e.i + 1 /\ (e.ok <=> wpc[mi] = "exited") /\ P!m_join
                              ELSE mpc = "join" /\ mi = TN + 1 /\ e.ok /\ rpc = "exited" /\ Skip   \* the reporter thread's join
      [] e.ev = "m_exit" -> mpc = "join" /\ mi = TN + 1 /\ P!m_join
      [] e.ev = "panic" -> poisoned /\ lock = 0 /\ mpc \in {"spawn", "postlocks"} /\ mpc' = "panicked" /\ exit' = "101"
                           /\ UNCHANGED <<mi, lock, poisoned, wpc, hcOwner, keep, rpc, sockq, drained>>
      [] OTHER -> FALSE

WorkerEv(w, e) ==
    CASE e.ev = "w_start" -> wpc[w] = "want_lock" /\ Skip
      [] e.ev = "w_lock" -> ~poisoned /\ e.lockseq = nlocks + 1 /\ P!w_lock(w)
      [] e.ev = "w_ready" -> wpc[w] = "new_server" /\ lock = w /\ wpc' = [wpc EXCEPT ![w] = "unlock"]
                             /\ hcOwner' = (IF Run.meta.hc THEN hcOwner \cup {w} ELSE hcOwner)
                             /\ UNCHANGED <<mpc, mi, lock, poisoned, keep, rpc, sockq, drained, exit>>
      [] e.ev = "w_unlock" -> P!w_unlock(w)
      [] e.ev = "w_exit" -> Serving(w) /\ ~keep /\ wpc' = [wpc EXCEPT ![w] = "exited"]
                            /\ UNCHANGED <<mpc, mi, lock, poisoned, hcOwner, keep, rpc, sockq, drained, exit>>
      [] e.ev = "panic" ->     \* lock().unwrap() on the poisoned mutex, or Server::new panicking while holding it
           \/ (wpc[w] = "want_lock" /\ poisoned /\ P!w_lock(w))
           \/ (wpc[w] = "new_server" /\ lock = w /\ wpc' = [wpc EXCEPT ![w] = "panicked"] /\ poisoned' = TRUE /\ lock' = 0
               /\ UNCHANGED <<mpc, mi, hcOwner, keep, rpc, sockq, drained, exit>>)
      [] OTHER -> FALSE

\* the reporter's loop: r_pass = the flag was set at the loop condition (a new pass begins: the previous pass's work and
\* sleep are implied); r_received / r_reported = inside the pass; r_exit = the flag was clear at the loop condition.
\* A "panic" event of this thread is no step of the specification.
RepEv(e) ==
    CASE e.ev = "r_pass" -> rpc \in {"check", "pass"} /\ keep /\ rpc' = "pass"      \* from "pass": r_work . r_wake . r_check
                            /\ UNCHANGED <<mpc, mi, lock, poisoned, wpc, hcOwner, keep, sockq, drained, exit>>
      [] e.ev \in {"r_received", "r_reported"} -> rpc = "pass" /\ Skip
      [] e.ev = "r_exit" -> rpc \in {"check", "pass"} /\ ~keep /\ rpc' = "exited"
                            /\ UNCHANGED <<mpc, mi, lock, poisoned, wpc, hcOwner, keep, sockq, drained, exit>>
      [] OTHER -> FALSE

SigEv(e) == e.ev = "sig" /\ keep' = FALSE /\ UNCHANGED <<mpc, mi, lock, poisoned, wpc, hcOwner, rpc, sockq, drained, exit>>

Step(t) == /\ HasNext(t) /\ Adv(t)
           /\ nlocks' = (IF t \in 1..TN /\ Ev(t).ev = "w_lock" THEN nlocks + 1 ELSE nlocks)
           /\ IF t = 0 THEN MainEv(Ev(t))
              ELSE IF t = TN + 2 THEN SigEv(Ev(t))
              ELSE IF t = TN + 1 THEN RepEv(Ev(t))
              ELSE WorkerEv(t, Ev(t))

\* events that neither need nor change the mutex / poison flag commute with everything else:
\* they are consumed first, lowest thread first (partial-order reduction of the interleaving search)
Independent(t) == HasNext(t) /\ Ev(t).ev \in {"m_start", "w_start", "w_exit", "sig", "m_joined", "m_exit", "m_spawned_all",
                                                "r_pass", "r_received", "r_reported", "r_exit"}
\* ... except that the signal must not be consumed while the reporter still has a "flag was set" event to come
\* (r_pass needs keep = TRUE): then the signal is an ordinary, branching step
RepNeedsFlag == \E i \in cur[TN + 1]..Len(Log(TN + 1)) : Log(TN + 1)[i].ev = "r_pass"
IndepEnabled(t) == Independent(t) /\ ENABLED Step(t) /\ ~(t = TN + 2 /\ RepNeedsFlag)
TNext == LET S == {t \in Threads : IndepEnabled(t)} IN
         IF S # {} THEN Step(CHOOSE t \in S : \A u \in S : t <= u)
         ELSE \E t \in Threads : Step(t)

TInit == /\ P!Init /\ cur = [t \in Threads |-> 1] /\ nlocks = 0 /\ TLCSet(1, 0)
TSpec == TInit /\ [][TNext]_<<pvars, cur, nlocks>>

RECURSIVE SumCur(_)
SumCur(S) == IF S = {} THEN 0 ELSE LET t == CHOOSE x \in S : TRUE IN (cur[t] - 1) + SumCur(S \ {t})
Total == LET RECURSIVE Tot(_)
             Tot(S) == IF S = {} THEN 0 ELSE LET t == CHOOSE x \in S : TRUE IN Len(Log(t)) + Tot(S \ {t})
         IN Tot(Threads)
Track == TLCSet(1, IF SumCur(Threads) > TLCGet(1) THEN SumCur(Threads) ELSE TLCGet(1))

\* ---- what the properties require of the observations (required constants: every worker serves; prompt clean exit)
ObsReasons ==
    LET m == Run.meta  s == Run.started  f == Run.final  x == Run.exit IN
    (IF s.ready_workers = m.n /\ s.panicked_threads = 0 /\ s.alive /\ s.distinct_worker_threads = m.n THEN {} ELSE {"not_all_workers_serving"})
    \* every configured worker answered part of a burst wide enough to reach all of them (-1: not probed)
    \cup (IF "served" \in DOMAIN Run /\ "answering_workers" \in DOMAIN Run.served /\ Run.served.answering_workers >= 0
             /\ Run.served.answering_workers < m.n THEN {"not_all_workers_serving"} ELSE {})
    \* statistics audit (C17 end to end: worker timers, queue, reporter thread, files): the column sums of every file the
    \* reporter wrote are exactly the traffic the harness sent and received; everything came from one address
    \cup (IF "audit" \in DOMAIN Run
          THEN LET a == Run.audit
                   \* The queue between workers and reporter holds two snapshots per worker and force_push drops the OLDEST when it
                   \* is full (Stats.tla Snapshot). The reporter pops once per second; a worker publishes every status_interval / 10.
                   \* With status_interval < 10 s a worker can publish more than twice between two pops: snapshots may be dropped,
                   \* and then the files hold LESS than the traffic (never more, never anything else). From 10 s on nothing is
                   \* dropped and the files hold exactly the traffic.
                   lossy == a.status_interval < 10
                   Rel(got, want) == IF lossy THEN got <= want ELSE got = want
               IN
               IF /\ a.readable /\ (lossy \/ a.files >= 1) /\ (a.files >= 1 => a.ips = <<"127.0.0.1">>)
                  /\ Rel(a.valid, a.exp_valid) /\ Rel(a.invalid, a.exp_invalid) /\ Rel(a.responses, a.exp_responses) /\ Rel(a.bytes, a.exp_bytes)
                  /\ a.failed = 0 /\ a.exp_responses = a.exp_valid /\ a.responses <= a.valid
               THEN {} ELSE {"stats_files_mismatch"}
          ELSE {})
    \cup (IF s.stderr_panic \/ f.stderr_panic THEN {"panic_output"} ELSE {})
    \cup (IF (s.alive /\ s.panicked_threads > 0) \/ (f.alive /\ f.stderr_panic) THEN {"keeps_running_degraded"} ELSE {})
    \cup (IF ~s.announced_ok /\ s.alive THEN {"announced_key"} ELSE {})
    \cup (IF "hc" \in DOMAIN Run THEN (IF Run.hc.ok200 = Run.hc.conns THEN {} ELSE {"health_check_unanswered"})
                                       \cup (IF Run.hc.time_answered = Run.hc.time_requests THEN {} ELSE {"time_service_interrupted"})
          ELSE {})
    \cup (IF x.signalled THEN (IF x.within_limit THEN {} ELSE {"exit_not_prompt"})
                              \cup (IF x.within_limit /\ x.code # 0 THEN {"exit_status"} ELSE {})
          ELSE (IF f.alive THEN {} ELSE {"died_without_signal"}))
    \cup (IF f.leak_in_output THEN {"leak_in_output"} ELSE {})

Verdict(hookOk, furthest) ==
    LET reasons == ObsReasons \cup (IF hookOk THEN {} ELSE {"hook_trace_not_a_behaviour"})
    IN IF reasons = {}
       THEN PrintT(ToJson([trace |-> "accepted", events |-> Total, post |-> ~hookOk]))
       ELSE PrintT(ToJson([trace |-> "rejected", events |-> Total, furthest |-> furthest, why |-> reasons, post |-> ~hookOk]))

\* The search stops at the first interleaving that consumes every thread's log: this "invariant" prints
\* the verdict and is violated on purpose there. If no interleaving exists the search is exhausted and the
\* POSTCONDITION reports the furthest point reached.
AllConsumed == \A t \in Threads : cur[t] = Len(Log(t)) + 1
StopWhenDone == IF AllConsumed THEN Verdict(TRUE, Total) /\ FALSE ELSE TRUE
\* (registers are per TLC thread: the runner prefers a verdict printed by StopWhenDone (post = FALSE) over this one)
Accepted == Verdict(FALSE, TLCGet(1)) /\ FALSE
=============================================================================
