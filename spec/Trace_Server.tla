----------------------------- MODULE Trace_Server -----------------------------
(* Trace validation of a REAL in-process Server (and of the server binary's client-side
   observations) against the property-level specification ServerAbs.tla.
   Every event is examined; for each event that the specification does not allow, the pair
   <<event index, reason>> is collected (register 2) and the model continues with the
   observation booked, so that one deviation does not hide the rest of the trace.
   Events:
     new        section: a new server instance (batch size, fault percentage, log level)
     round      a round begins (state of the round is reset)
     arrive     the harness sent datagram `id` from socket `sock`; f = features computed by I
                (field `unroutable` present: sent through a raw socket with source port 0, so the server's send_to fails)
     pumped     process_events returned (or panicked); wedged = it went idle with datagrams unconsumed
     reply      a datagram received on a harness socket, with the facts computed by I
     round_end  quiescence: exactly-once accounting
     log        a log record captured at the section's level (leak scan result)
     stats      the server's statistics getters, compared with the traffic of the section
     bulk       many invalid datagrams from one socket, summarised (count consumed, replies seen, panic, wedge)
     publish    the status timer's step run on the real server; what its queue then held (see TNext)
     grease_batch one signed batch of a fault-injection section (from the hooks): responses, fault-injected responses
     grease_end fault-injection section end: failing share within 6 sigma of p; decisions not correlated within batches *)
EXTENDS ServerAbs, Json, IOUtils, TLCExt, Integers

Rec_ == ndJsonDeserialize(IOEnv.TRACE)
VARIABLES pubq,         \* snapshots published by the server and not yet popped by the harness: sequence of [valid, invalid, responses, bytes,
                        \* failed, entries]; the queue holds at most e.qcap of them (force_push drops the oldest)
          l, fault      \* fault = [p: configured fault percentage, b: configured batch_size (0 = unknown),
                        \*          allg: batches of >= 8 responses of the section in which EVERY response was fault-injected]
tvars == <<reqs, roots, totals, l, fault, pubq>>

Bad(reasons) == IF reasons = {} THEN TRUE ELSE TLCSet(2, TLCGet(2) \o <<[i |-> l, why |-> reasons]>>)
SetOf(seq) == {seq[i] : i \in 1..Len(seq)}

ZeroTotals == [arrivals |-> 0, replies |-> 0, bytes |-> 0, greased |-> 0, failing |-> 0, unroutable |-> 0, socks |-> {}, extra_ips |-> 0]
\* the harness's client sockets are bound to 127.0.0.(1 + i % 200); the unroutable source is 127.0.0.1
IpOf(sock) == IF sock = 9999 THEN 1 ELSE 1 + (sock % 200)

TInit == /\ pubq = <<>> /\ l = 1 /\ TLCSet(2, <<>>) /\ reqs = NoReqs /\ roots = {} /\ totals = ZeroTotals /\ fault = [p |-> 0, b |-> 0, allg |-> 0]

Rp(e) == [sock |-> e.sock, len |-> e.len, parse |-> e.parse, v |-> e.v, frame_ok |-> e.frame_ok,
          nonce_reqs |-> SetOf(e.nonce_reqs), proof_reqs |-> SetOf(e.proof_reqs), has_nonce |-> e.has_nonce,
          cert_ok |-> e.cert_ok, cert_other |-> e.cert_other, srep_ok |-> e.srep_ok, window_ok |-> e.window_ok,
          ver_ok |-> e.ver_ok, pathlen |-> e.pathlen, indx |-> e.indx, time_ok |-> e.time_ok, radi_ok |-> e.radi_ok,
          greased |-> e.greased, leak |-> e.leak, root_id |-> e.root_id, fails |-> e.fails]

\* 6-sigma acceptance region for the share of failing replies, in integers:
\* (100 g - p N)^2 <= 36 p (100 - p) N     (variance of a Bernoulli(p/100) sum, scaled by 100^2)
GreaseOk(g, n, p) == LET d == 100 * g - p * n IN (d \div 10) * (d \div 10) <= (36 * p * (100 - p) * n) \div 100

TNext ==
    /\ l <= Len(Rec_)
    /\ LET e == Rec_[l] IN
       CASE e.ev = "new" -> /\ Bad(IF e.announced_ok THEN {} ELSE {"announced_key"})
                            /\ reqs' = NoReqs /\ roots' = {} /\ totals' = ZeroTotals /\ fault' = [p |-> e.fault, b |-> e.batch, allg |-> 0] /\ pubq' = <<>>
         [] e.ev = "round" -> (IF "discarded" \in DOMAIN e THEN UNCHANGED <<reqs, roots, totals>> ELSE RoundBegin) /\ UNCHANGED <<fault, pubq>>
         [] e.ev = "arrive" -> Receive(e.sock, e.f, ~("unroutable" \in DOMAIN e)) /\ UNCHANGED <<fault, pubq>>
         [] e.ev = "pumped" -> /\ Bad((IF e.panic THEN {"panic"} ELSE {}) \cup (IF e.wedged THEN {"wedged"} ELSE {}))
                               /\ UNCHANGED <<reqs, roots, totals, fault, pubq>>
         [] e.ev = "reply" -> /\ Bad(RespondReasons(Rp(e)) \cup RootReasons(Rp(e)))
                              /\ Respond(Rp(e)) /\ UNCHANGED <<fault, pubq>>
         [] e.ev = "round_end" -> /\ Bad(RoundEndReasons \cup BatchReasons(fault.b)) /\ UNCHANGED <<reqs, roots, totals, fault, pubq>>
         [] e.ev = "hc_round" -> /\ Bad(IF e.ok200 = e.conns /\ e.connected = e.conns THEN {} ELSE {"health_check_unanswered"})
                                 /\ UNCHANGED <<reqs, roots, totals, fault, pubq>>
         [] e.ev = "clock_step" -> UNCHANGED <<reqs, roots, totals, fault, pubq>>    \* the wall clock jumped by e.secs (the replies' time_ok is judged against the stepped clock)
         [] e.ev = "log" -> /\ Bad(IF e.leak THEN {"leak_in_log"} ELSE {}) /\ UNCHANGED <<reqs, roots, totals, fault, pubq>>
         [] e.ev = "stats" ->
              \* a valid request whose response could not be sent (unroutable source) counts as valid and as ONE failed send
              /\ Bad((IF e.valid = totals.replies + totals.unroutable THEN {} ELSE {"stats_valid_requests"})
                     \cup (IF e.invalid = totals.arrivals - totals.replies - totals.unroutable THEN {} ELSE {"stats_invalid_requests"})
                     \cup (IF "failed" \in DOMAIN e /\ e.failed # totals.unroutable THEN {"stats_failed_sends"} ELSE {})
                     \cup (IF e.responses = totals.replies THEN {} ELSE {"stats_responses"})
                     \cup (IF e.bytes = totals.bytes THEN {} ELSE {"stats_bytes"}))
              /\ UNCHANGED <<reqs, roots, totals, fault, pubq>>
         [] e.ev = "bulk" ->      \* e.n invalid datagrams consumed without per-datagram events: none may be answered
              /\ Bad((IF e.panic THEN {"panic"} ELSE {}) \cup (IF e.wedged THEN {"wedged"} ELSE {})
                     \cup (IF e.replies > 0 THEN {"reply_to_malformed"} ELSE {}))
              /\ totals' = [totals EXCEPT !.arrivals = @ + e.n, !.socks = @ \cup {5}]
              /\ UNCHANGED <<reqs, roots, fault, pubq>>
         [] e.ev = "bulk_addrs" ->    \* one valid request from each of e.addrs further client addresses: every one answered
              /\ Bad((IF e.panic THEN {"panic"} ELSE {}) \cup (IF e.wedged THEN {"wedged"} ELSE {})
                     \cup (IF e.replies # e.n \/ e.n # e.addrs THEN {"no_reply_to_valid"} ELSE {}))
              /\ totals' = [totals EXCEPT !.arrivals = @ + e.n, !.replies = @ + e.replies, !.bytes = @ + e.bytes, !.extra_ips = @ + e.addrs]
              /\ UNCHANGED <<reqs, roots, fault, pubq>>
         [] e.ev = "publish" ->
              \* Server::send_client_stats (the status timer's step) on the REAL server; if e.drain, everything is then popped
              \* from its queue. With the per-client recorder a snapshot is pushed iff anything was recorded since the last
              \* publication; it holds one entry per source address and exactly the traffic; the recorder starts over whether or
              \* not the queue was full (force_push drops the OLDEST snapshot then). The aggregated recorder publishes nothing.
              LET expectPush == e.client_stats /\ totals.arrivals > 0
                  snap == [valid |-> totals.replies + totals.unroutable, invalid |-> totals.arrivals - totals.replies - totals.unroutable,
                           responses |-> totals.replies, bytes |-> totals.bytes, failed |-> totals.unroutable,
                           entries |-> Cardinality({IpOf(x) : x \in totals.socks}) + totals.extra_ips]
                  q1 == IF expectPush THEN (IF Len(pubq) >= e.qcap THEN Tail(pubq) ELSE pubq) \o <<snap>> ELSE pubq
                  Sum(f) == LET RECURSIVE S(_) S(k) == IF k = 0 THEN 0 ELSE q1[k][f] + S(k - 1) IN S(Len(q1))
              IN
              /\ Bad(IF e.panic THEN {"panic"}
                     ELSE (IF expectPush /\ ~e.post_zero THEN {"stats_publication"} ELSE {})
                          \cup (IF e.drain /\ ~(/\ e.snapshots = Len(q1) /\ e.entries = Sum("entries") /\ e.valid = Sum("valid")
                                                /\ e.invalid = Sum("invalid") /\ e.responses = Sum("responses")
                                                /\ e.bytes = Sum("bytes") /\ e.failed = Sum("failed"))
                               THEN {"stats_publication"} ELSE {}))
              /\ totals' = (IF expectPush THEN ZeroTotals ELSE totals)
              /\ pubq' = (IF e.drain THEN <<>> ELSE q1)
              /\ UNCHANGED <<reqs, roots, fault>>
         [] e.ev = "grease_batch" ->     \* one signed batch: how many responses it had and how many of them were fault-injected
              /\ fault' = [fault EXCEPT !.allg = @ + (IF e.n >= 8 /\ e.greased = e.n THEN 1 ELSE 0)]
              /\ UNCHANGED <<reqs, roots, totals, pubq>>
         [] e.ev = "grease_end" ->
              \* the fault decision is made per RESPONSE, independently: with p <= 50 a batch of >= 8 responses that are ALL
              \* fault-injected has probability <= 0.4 %; over the few hundred batches of a section more than 8 of them means the
              \* decisions are correlated (e.g. one coin per batch), whatever the overall share
              /\ Bad((IF totals.replies >= e.min_replies /\ GreaseOk(totals.failing, totals.replies, fault.p) THEN {} ELSE {"fault_rate"})
                     \cup (IF fault.p <= 50 /\ fault.allg > 8 THEN {"fault_not_per_response"} ELSE {}))
              /\ UNCHANGED <<reqs, roots, totals, fault, pubq>>
         [] OTHER -> Bad({"unknown_event"}) /\ UNCHANGED <<reqs, roots, totals, fault, pubq>>
    /\ l' = l + 1

TSpec == TInit /\ [][TNext]_tvars

Accepted ==
    LET bad == TLCGet(2)
        consumed == TLCGet("stats").diameter - 1
    IN IF consumed = Len(Rec_) /\ bad = <<>>
       THEN PrintT(ToJson([trace |-> "accepted", events |-> Len(Rec_)]))
       ELSE PrintT(ToJson([trace |-> "rejected", matched |-> consumed, events |-> Len(Rec_),
                           bad |-> SubSeq(bad, 1, IF Len(bad) < 300 THEN Len(bad) ELSE 300), nbad |-> Len(bad)])) /\ FALSE
=============================================================================
