------------------------------ MODULE MC_Server ------------------------------
(* Model-checking wrapper: remembers the kinds of the arrived datagrams to state ExactlyOnce, and
   prints the arrival schedule of every behaviour that has run to quiescence with all MaxArr
   datagrams (replayed into the real Server through the hook tracer). *)
EXTENDS Server, Json

VARIABLE kinds      \* ghost: kind of each id
mvars == <<sockq, edge, pc, polled, i, reqI, reqC, empty, out, arrived, nb, nrecv, nempty, stats, hist, kinds>>
mview == <<sockq, edge, pc, polled, i, reqI, reqC, empty, out, arrived, nb, stats, kinds>>

MInit == Init /\ kinds = <<>>
MNext == \/ (Worker /\ UNCHANGED kinds)
         \/ \E k \in Kinds, s \in Srcs : Arrive(k, s) /\ kinds' = Append(kinds, k)
MSpec == MInit /\ [][MNext]_mvars /\ WF_mvars(Worker /\ UNCHANGED kinds)

ExactlyOnce == Quiescent => \A n \in 1..arrived : (kinds[n] \in {"C", "I"}) <=> (\E r \in out : r.req = n)
OwnProtocol == \A r \in out : kinds[r.req] = r.v
NoReplyToInvalid == \A r \in out : kinds[r.req] \notin {"X", "U"}
\* C17 wiring at quiescence: the recorder's totals are the traffic
StatsAreTraffic == Quiescent => /\ stats.valid = Cardinality({n \in 1..arrived : kinds[n] # "X"})
                                /\ stats.invalid = Cardinality({n \in 1..arrived : kinds[n] = "X"})
                                /\ stats.failed = Cardinality({n \in 1..arrived : kinds[n] = "U"})
                                /\ stats.responses = Cardinality({n \in 1..arrived : kinds[n] \in {"C", "I"}})

Emit == (pc' = "poll" /\ sockq' = <<>> /\ (LevelTriggered \/ ~edge') /\ arrived' = MaxArr /\ pc # "poll") =>
            PrintT(ToJson([suite |-> "interleavings", B |-> B, pre |-> hist'.pre, inj |-> hist'.inj]))
=============================================================================
