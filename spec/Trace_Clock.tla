----------------------------- MODULE Trace_Clock -----------------------------
(* C11 trace validation: every event is one real OnlineKey::make_srep call with a chosen clock; the
   harness logs the clock and the MIDP / RADI it decoded from the signed response as digit tuples,
   whether the SREP signature verifies under the online key and whether ROOT is the root it passed. *)
EXTENDS Clock, Json, IOUtils, TLCExt
Rec_ == ndJsonDeserialize(IOEnv.TRACE)
VARIABLE l
EventOk(e) == /\ ~e.panic /\ e.midp = Midp(e.v, e.s, e.ns) /\ e.radi = Radi(e.v) /\ e.sig_ok /\ e.root_ok /\ e.shape_ok
TInit == l = 1 /\ TLCSet(2, <<>>)
TNext == /\ l <= Len(Rec_)
         /\ IF EventOk(Rec_[l]) THEN TRUE ELSE TLCSet(2, TLCGet(2) \o <<l>>)
         /\ l' = l + 1
TSpec == TInit /\ [][TNext]_l
Accepted ==
    LET bad == TLCGet(2)
        consumed == TLCGet("stats").diameter - 1
    IN IF consumed = Len(Rec_) /\ bad = <<>>
       THEN PrintT(ToJson([trace |-> "accepted", events |-> Len(Rec_)]))
       ELSE PrintT(ToJson([trace |-> "rejected", matched |-> consumed, events |-> Len(Rec_),
                           bad |-> SubSeq(bad, 1, IF Len(bad) < 200 THEN Len(bad) ELSE 200), nbad |-> Len(bad)])) /\ FALSE
=============================================================================
