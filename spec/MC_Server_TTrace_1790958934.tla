---- MODULE MC_Server_TTrace_1790958934 ----
EXTENDS Sequences, TLCExt, Toolbox, MC_Server, Naturals, TLC

_expression ==
    LET MC_Server_TEExpression == INSTANCE MC_Server_TEExpression
    IN MC_Server_TEExpression!expression
----

_trace ==
    LET MC_Server_TETrace == INSTANCE MC_Server_TETrace
    IN MC_Server_TETrace!trace
----

_inv ==
    ~(
        TLCGet("level") = Len(_TETrace)
        /\
        sockq = (<<[k |-> "C", id |-> 3, src |-> 1]>>)
        /\
        nempty = (0)
        /\
        i = (2)
        /\
        kinds = (<<"X", "X", "C">>)
        /\
        out = ({})
        /\
        empty = (FALSE)
        /\
        reqC = (<<>>)
        /\
        arrived = (3)
        /\
        hist = ([pre |-> <<"X", "X", "C">>, inj |-> <<>>])
        /\
        edge = (FALSE)
        /\
        pc = ("poll")
        /\
        polled = (FALSE)
        /\
        nb = (1)
        /\
        stats = ([valid |-> 0, invalid |-> 2, failed |-> 0, responses |-> 0])
        /\
        nrecv = (2)
        /\
        reqI = (<<>>)
    )
----

_init ==
    /\ reqC = _TETrace[1].reqC
    /\ reqI = _TETrace[1].reqI
    /\ nrecv = _TETrace[1].nrecv
    /\ nb = _TETrace[1].nb
    /\ nempty = _TETrace[1].nempty
    /\ i = _TETrace[1].i
    /\ out = _TETrace[1].out
    /\ pc = _TETrace[1].pc
    /\ stats = _TETrace[1].stats
    /\ polled = _TETrace[1].polled
    /\ hist = _TETrace[1].hist
    /\ empty = _TETrace[1].empty
    /\ edge = _TETrace[1].edge
    /\ arrived = _TETrace[1].arrived
    /\ sockq = _TETrace[1].sockq
    /\ kinds = _TETrace[1].kinds
----

_next ==
    /\ \E i,j \in DOMAIN _TETrace:
        /\ \/ /\ j = i + 1
              /\ i = TLCGet("level")
        /\ reqC  = _TETrace[i].reqC
        /\ reqC' = _TETrace[j].reqC
        /\ reqI  = _TETrace[i].reqI
        /\ reqI' = _TETrace[j].reqI
        /\ nrecv  = _TETrace[i].nrecv
        /\ nrecv' = _TETrace[j].nrecv
        /\ nb  = _TETrace[i].nb
        /\ nb' = _TETrace[j].nb
        /\ nempty  = _TETrace[i].nempty
        /\ nempty' = _TETrace[j].nempty
        /\ i  = _TETrace[i].i
        /\ i' = _TETrace[j].i
        /\ out  = _TETrace[i].out
        /\ out' = _TETrace[j].out
        /\ pc  = _TETrace[i].pc
        /\ pc' = _TETrace[j].pc
        /\ stats  = _TETrace[i].stats
        /\ stats' = _TETrace[j].stats
        /\ polled  = _TETrace[i].polled
        /\ polled' = _TETrace[j].polled
        /\ hist  = _TETrace[i].hist
        /\ hist' = _TETrace[j].hist
        /\ empty  = _TETrace[i].empty
        /\ empty' = _TETrace[j].empty
        /\ edge  = _TETrace[i].edge
        /\ edge' = _TETrace[j].edge
        /\ arrived  = _TETrace[i].arrived
        /\ arrived' = _TETrace[j].arrived
        /\ sockq  = _TETrace[i].sockq
        /\ sockq' = _TETrace[j].sockq
        /\ kinds  = _TETrace[i].kinds
        /\ kinds' = _TETrace[j].kinds

\* Uncomment the ASSUME below to write the states of the error trace
\* to the given file in Json format. Note that you can pass any tuple
\* to `JsonSerialize`. For example, a sub-sequence of _TETrace.
    \* ASSUME
    \*     LET J == INSTANCE Json
    \*         IN J!JsonSerialize("MC_Server_TTrace_1790958934.json", _TETrace)

=============================================================================

 Note that you can extract this module `MC_Server_TEExpression`
  to a dedicated file to reuse `expression` (the module in the 
  dedicated `MC_Server_TEExpression.tla` file takes precedence 
  over the module `MC_Server_TEExpression` below).

---- MODULE MC_Server_TEExpression ----
EXTENDS Sequences, TLCExt, Toolbox, MC_Server, Naturals, TLC

expression == 
    [
        \* To hide variables of the `MC_Server` spec from the error trace,
        \* remove the variables below.  The trace will be written in the order
        \* of the fields of this record.
        reqC |-> reqC
        ,reqI |-> reqI
        ,nrecv |-> nrecv
        ,nb |-> nb
        ,nempty |-> nempty
        ,i |-> i
        ,out |-> out
        ,pc |-> pc
        ,stats |-> stats
        ,polled |-> polled
        ,hist |-> hist
        ,empty |-> empty
        ,edge |-> edge
        ,arrived |-> arrived
        ,sockq |-> sockq
        ,kinds |-> kinds
        
        \* Put additional constant-, state-, and action-level expressions here:
        \* ,_stateNumber |-> _TEPosition
        \* ,_reqCUnchanged |-> reqC = reqC'
        
        \* Format the `reqC` variable as Json value.
        \* ,_reqCJson |->
        \*     LET J == INSTANCE Json
        \*     IN J!ToJson(reqC)
        
        \* Lastly, you may build expressions over arbitrary sets of states by
        \* leveraging the _TETrace operator.  For example, this is how to
        \* count the number of times a spec variable changed up to the current
        \* state in the trace.
        \* ,_reqCModCount |->
        \*     LET F[s \in DOMAIN _TETrace] ==
        \*         IF s = 1 THEN 0
        \*         ELSE IF _TETrace[s].reqC # _TETrace[s-1].reqC
        \*             THEN 1 + F[s-1] ELSE F[s-1]
        \*     IN F[_TEPosition - 1]
    ]

=============================================================================



Parsing and semantic processing can take forever if the trace below is long.
 In this case, it is advised to uncomment the module below to deserialize the
 trace from a generated binary file.

\*
\*---- MODULE MC_Server_TETrace ----
\*EXTENDS IOUtils, MC_Server, TLC
\*
\*trace == IODeserialize("MC_Server_TTrace_1790958934.bin", TRUE)
\*
\*=============================================================================
\*

---- MODULE MC_Server_TETrace ----
EXTENDS MC_Server, TLC

trace == 
    <<
    ([sockq |-> <<>>,nempty |-> 0,i |-> 0,kinds |-> <<>>,out |-> {},empty |-> FALSE,reqC |-> <<>>,arrived |-> 0,hist |-> [pre |-> <<>>, inj |-> <<>>],edge |-> FALSE,pc |-> "poll",polled |-> FALSE,nb |-> 0,stats |-> [valid |-> 0, invalid |-> 0, failed |-> 0, responses |-> 0],nrecv |-> 0,reqI |-> <<>>]),
    ([sockq |-> <<[k |-> "X", id |-> 1, src |-> 1]>>,nempty |-> 0,i |-> 0,kinds |-> <<"X">>,out |-> {},empty |-> FALSE,reqC |-> <<>>,arrived |-> 1,hist |-> [pre |-> <<"X">>, inj |-> <<>>],edge |-> TRUE,pc |-> "poll",polled |-> FALSE,nb |-> 0,stats |-> [valid |-> 0, invalid |-> 0, failed |-> 0, responses |-> 0],nrecv |-> 0,reqI |-> <<>>]),
    ([sockq |-> <<[k |-> "X", id |-> 1, src |-> 1], [k |-> "X", id |-> 2, src |-> 1]>>,nempty |-> 0,i |-> 0,kinds |-> <<"X", "X">>,out |-> {},empty |-> FALSE,reqC |-> <<>>,arrived |-> 2,hist |-> [pre |-> <<"X", "X">>, inj |-> <<>>],edge |-> TRUE,pc |-> "poll",polled |-> FALSE,nb |-> 0,stats |-> [valid |-> 0, invalid |-> 0, failed |-> 0, responses |-> 0],nrecv |-> 0,reqI |-> <<>>]),
    ([sockq |-> <<[k |-> "X", id |-> 1, src |-> 1], [k |-> "X", id |-> 2, src |-> 1], [k |-> "C", id |-> 3, src |-> 1]>>,nempty |-> 0,i |-> 0,kinds |-> <<"X", "X", "C">>,out |-> {},empty |-> FALSE,reqC |-> <<>>,arrived |-> 3,hist |-> [pre |-> <<"X", "X", "C">>, inj |-> <<>>],edge |-> TRUE,pc |-> "poll",polled |-> FALSE,nb |-> 0,stats |-> [valid |-> 0, invalid |-> 0, failed |-> 0, responses |-> 0],nrecv |-> 0,reqI |-> <<>>]),
    ([sockq |-> <<[k |-> "X", id |-> 1, src |-> 1], [k |-> "X", id |-> 2, src |-> 1], [k |-> "C", id |-> 3, src |-> 1]>>,nempty |-> 0,i |-> 0,kinds |-> <<"X", "X", "C">>,out |-> {},empty |-> FALSE,reqC |-> <<>>,arrived |-> 3,hist |-> [pre |-> <<"X", "X", "C">>, inj |-> <<>>],edge |-> FALSE,pc |-> "reset",polled |-> TRUE,nb |-> 0,stats |-> [valid |-> 0, invalid |-> 0, failed |-> 0, responses |-> 0],nrecv |-> 0,reqI |-> <<>>]),
    ([sockq |-> <<[k |-> "X", id |-> 1, src |-> 1], [k |-> "X", id |-> 2, src |-> 1], [k |-> "C", id |-> 3, src |-> 1]>>,nempty |-> 0,i |-> 0,kinds |-> <<"X", "X", "C">>,out |-> {},empty |-> FALSE,reqC |-> <<>>,arrived |-> 3,hist |-> [pre |-> <<"X", "X", "C">>, inj |-> <<>>],edge |-> FALSE,pc |-> "collect",polled |-> TRUE,nb |-> 0,stats |-> [valid |-> 0, invalid |-> 0, failed |-> 0, responses |-> 0],nrecv |-> 0,reqI |-> <<>>]),
    ([sockq |-> <<[k |-> "X", id |-> 2, src |-> 1], [k |-> "C", id |-> 3, src |-> 1]>>,nempty |-> 0,i |-> 1,kinds |-> <<"X", "X", "C">>,out |-> {},empty |-> FALSE,reqC |-> <<>>,arrived |-> 3,hist |-> [pre |-> <<"X", "X", "C">>, inj |-> <<>>],edge |-> FALSE,pc |-> "collect",polled |-> TRUE,nb |-> 0,stats |-> [valid |-> 0, invalid |-> 1, failed |-> 0, responses |-> 0],nrecv |-> 1,reqI |-> <<>>]),
    ([sockq |-> <<[k |-> "C", id |-> 3, src |-> 1]>>,nempty |-> 0,i |-> 2,kinds |-> <<"X", "X", "C">>,out |-> {},empty |-> FALSE,reqC |-> <<>>,arrived |-> 3,hist |-> [pre |-> <<"X", "X", "C">>, inj |-> <<>>],edge |-> FALSE,pc |-> "collect",polled |-> TRUE,nb |-> 0,stats |-> [valid |-> 0, invalid |-> 2, failed |-> 0, responses |-> 0],nrecv |-> 2,reqI |-> <<>>]),
    ([sockq |-> <<[k |-> "C", id |-> 3, src |-> 1]>>,nempty |-> 0,i |-> 2,kinds |-> <<"X", "X", "C">>,out |-> {},empty |-> FALSE,reqC |-> <<>>,arrived |-> 3,hist |-> [pre |-> <<"X", "X", "C">>, inj |-> <<>>],edge |-> FALSE,pc |-> "sendI",polled |-> TRUE,nb |-> 0,stats |-> [valid |-> 0, invalid |-> 2, failed |-> 0, responses |-> 0],nrecv |-> 2,reqI |-> <<>>]),
    ([sockq |-> <<[k |-> "C", id |-> 3, src |-> 1]>>,nempty |-> 0,i |-> 2,kinds |-> <<"X", "X", "C">>,out |-> {},empty |-> FALSE,reqC |-> <<>>,arrived |-> 3,hist |-> [pre |-> <<"X", "X", "C">>, inj |-> <<>>],edge |-> FALSE,pc |-> "sendC",polled |-> TRUE,nb |-> 0,stats |-> [valid |-> 0, invalid |-> 2, failed |-> 0, responses |-> 0],nrecv |-> 2,reqI |-> <<>>]),
    ([sockq |-> <<[k |-> "C", id |-> 3, src |-> 1]>>,nempty |-> 0,i |-> 2,kinds |-> <<"X", "X", "C">>,out |-> {},empty |-> FALSE,reqC |-> <<>>,arrived |-> 3,hist |-> [pre |-> <<"X", "X", "C">>, inj |-> <<>>],edge |-> FALSE,pc |-> "poll",polled |-> FALSE,nb |-> 1,stats |-> [valid |-> 0, invalid |-> 2, failed |-> 0, responses |-> 0],nrecv |-> 2,reqI |-> <<>>])
    >>
----


=============================================================================

---- CONFIG MC_Server_TTrace_1790958934 ----
CONSTANTS
    B = 2
    MaxArr = 4
    Kinds = { "C" , "I" , "X" }
    Srcs = { 1 }
    LevelTriggered = FALSE
    MaxBatches = 1000
    DrainExitsOnEmptyBatch = TRUE

INVARIANT
    _inv

CHECK_DEADLOCK
    \* CHECK_DEADLOCK off because of PROPERTY or INVARIANT above.
    FALSE

INIT
    _init

NEXT
    _next

CONSTANT
    _TETrace <- _trace

ALIAS
    _expression
=============================================================================
\* Generated on Fri Oct 02 16:35:36 UTC 2026