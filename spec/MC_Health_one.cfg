SPECIFICATION Spec
CONSTANTS
  MaxConns = 3
  AcceptMode = "one"
  MaxAccepts = 16
VIEW view
ACTION_CONSTRAINT Emit
INVARIANTS NoStrandedConn AnsweredWereMade
PROPERTY HcLive
CHECK_DEADLOCK FALSE
