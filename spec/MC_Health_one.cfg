SPECIFICATION Spec
CONSTANTS
  MaxConns = 3
  AcceptMode = "one"
  MaxAccepts = 16
  AbortEndsLoop = FALSE
VIEW view
ACTION_CONSTRAINT Emit
INVARIANTS NoStrandedConn AnsweredWereMade
PROPERTY HcLive
CHECK_DEADLOCK FALSE
