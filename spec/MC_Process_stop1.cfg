SPECIFICATION Spec
CONSTANTS
  N = 1
  Hc = FALSE
  HcReusePort = TRUE
  ClientStats = FALSE
  DrainBounded = TRUE
  MaxDrain = 2
  Q = 2
  AllowSignal = TRUE
  ReporterFragile = FALSE
INVARIANTS LockOwnerConsistent NoPanic CleanExit
PROPERTIES Stops
CHECK_DEADLOCK FALSE
