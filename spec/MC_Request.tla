----------------------------- MODULE MC_Request -----------------------------
(* Enumerates the feature space of Request.tla: every VER list of length 0..MaxVer over
   {draft-13, classic 0, two unknown numbers} x SRV class x nonce/length/framing classes, checks
   sanity theorems of Classify and prints one case per IETF version-list state (C12 replay). *)
EXTENDS Request, Json, Integers

CONSTANTS MaxVer,
          VerCodes     \* version codes of the lists: 13 = draft-13, 0 = classic, >= 1001 unknown numbers.
                       \* The unknown numbers 1003..1010 are ADVERSARIAL representatives (the interpretation maps them to
                       \* words whose bytes contain parts of the draft-13 number: pairs (1003,1004), (1005,1006), (1007,1008)
                       \* contain it across their boundary at byte offsets 1, 2, 3; 1009 is the number without its top bit,
                       \* 1010 its byte-swapped form). To the specification they are simply not draft-13.

VARIABLES ver, srv, len, noncelen, done
vars == <<ver, srv, len, noncelen, done>>

F == [len |-> len, magic |-> TRUE, framelen_ok |-> TRUE, dec |-> "ok", has_nonc |-> noncelen >= 0,
      noncelen |-> IF noncelen < 0 THEN 0 ELSE noncelen, has_ver |-> TRUE, ver |-> ver, srv |-> srv]

Init == /\ ver = <<>> /\ srv \in {"absent", "ok", "wrong"} /\ len \in {1020, 1024, 1500, 1504} /\ noncelen \in {-1, 0, 32, 64}
        /\ done = FALSE
Extend == /\ ~done /\ Len(ver) < MaxVer /\ \E v \in VerCodes : ver' = Append(ver, v)
          /\ UNCHANGED <<srv, len, noncelen, done>>
Finish == /\ ~done /\ done' = TRUE /\ UNCHANGED <<ver, srv, len, noncelen>>
Next == Extend \/ Finish
Spec == Init /\ [][Next]_vars

\* theorems about the classification itself
OutOfRangeNeverAnswered == (len < 1024 \/ len > 1500) => Classify(F) = "mustnot"
NoSupportedVersionNeverAnswered == ~Anywhere(ver) => Classify(F) = "mustnot"
OtherServerNeverAnswered == srv = "wrong" => Classify(F) = "mustnot"
MustImpliesSupported == Classify(F) = "must" => (InFirst(4, ver) /\ srv # "wrong" /\ noncelen = 32 /\ len >= 1024 /\ len <= 1500)
FirstFourAlwaysAnswered == (InFirst(4, ver) /\ srv # "wrong" /\ noncelen = 32 /\ len >= 1024 /\ len <= 1500) => Classify(F) = "must"

Emit == (done' /\ len = 1024 /\ noncelen = 32) => PrintT(ToJson([suite |-> "versions", ver |-> ver, srv |-> srv, class |-> Classify(F)]))
=============================================================================
