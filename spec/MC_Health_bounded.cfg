SPECIFICATION Spec
CONSTANTS
  MaxConns = 4
  AcceptMode = "bounded"
  MaxAccepts = 2
  AbortEndsLoop = FALSE
VIEW view
ACTION_CONSTRAINT Emit
INVARIANTS NoStrandedConn AnsweredWereMade
PROPERTY HcLive
CHECK_DEADLOCK FALSE
