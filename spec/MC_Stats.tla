------------------------------ MODULE MC_Stats ------------------------------
EXTENDS Stats, Json
CONSTANTS MaxOps, Limit, QueueCap
VARIABLES hist
vars == <<limit, qcap, tracked, cnt, ovf, agg, queue, rep, popped, nev, hist>>
view == <<tracked, cnt, ovf, agg, queue, rep, popped, nev, Len(hist)>>

BytesOf(k) == IF k = 7 THEN 436 ELSE IF k = 8 THEN 360 ELSE 0

Init == SInit(Limit, QueueCap) /\ hist = <<>>
Next == /\ Len(hist) < MaxOps
        /\ \/ \E w \in Workers, k \in 1..8, a \in Addrs :
                 Rec(w, k, a, BytesOf(k)) /\ hist' = Append(hist, [op |-> "rec", w |-> w, k |-> k, a |-> a, b |-> BytesOf(k)])
           \/ \E w \in Workers : Snapshot(w) /\ hist' = Append(hist, [op |-> "snapshot", w |-> w])
           \/ \E w \in Workers : nev[w] > 0 /\ ClearAll(w) /\ hist' = Append(hist, [op |-> "clear", w |-> w])
           \/ (Merge /\ hist' = Append(hist, [op |-> "merge"]))
           \/ (rep # AllZero /\ Report /\ hist' = Append(hist, [op |-> "report"]))
Spec == Init /\ [][Next]_vars

\* while nothing overflowed (and nothing was cleared) both recorders report identical totals
Equivalent == \A w \in Workers : (ovf[w] = 0 /\ nev[w] = SumKinds(agg[w], 8)) => Totals(w) = agg[w]

Emit == PrintT(ToJson([suite |-> "stats", limit |-> Limit, hist |-> hist']))
=============================================================================
