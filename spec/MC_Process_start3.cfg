SPECIFICATION Spec
CONSTANTS
  N = 3
  Hc = TRUE
  HcReusePort = TRUE
  ClientStats = TRUE
  DrainBounded = TRUE
  MaxDrain = 2
  Q = 2
  AllowSignal = FALSE
  ReporterFragile = FALSE
INVARIANTS LockOwnerConsistent NoPanic CleanExit
PROPERTIES FullyServing NeverKeepsRunningDegraded
CHECK_DEADLOCK FALSE
