SPECIFICATION MSpec
CONSTANTS
  B = 2
  MaxArr = 5
  Srcs = {1}
  LevelTriggered = TRUE
  MaxBatches = 16
  DrainExitsOnEmptyBatch = FALSE
VIEW mview
ACTION_CONSTRAINT Emit
INVARIANTS AtMostOnce OwnSlot Faithful NoStranded BatchBound ExactlyOnce OwnProtocol NoReplyToInvalid
PROPERTY Responsive
CHECK_DEADLOCK FALSE
