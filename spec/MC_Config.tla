----------------------------- MODULE MC_Config -----------------------------
(* Enumerates written configurations: a valid base plus up to MaxEdits edits of single settings
   over the boundary grid, for both sources; every Load transition prints one probe case. *)
EXTENDS Config, Json

CONSTANTS MaxEdits

Grid == {-206, -1, 0, 1, 2, 16, 50, 51, 63, 64, 65, 255, 256, 300, 8080, 8686, 65535, 65536, 70000}   \* (8686 = the base port:
                                                     \* a TCP health-check port may carry the same number as the UDP port)

VARIABLES w, src, edits, loaded
vars == <<w, src, edits, loaded>>

Base == [port |-> 8686, batch_size |-> Absent, fault_percentage |-> Absent, num_workers |-> Absent,
         status_interval |-> Absent, health_check_port |-> Absent, seed |-> "ok", interface |-> "ok",
         client_stats |-> "absent", persistence_directory |-> "absent", unknown_key |-> FALSE, multidoc |-> FALSE,
         \* how the file is presented (no effect on what is Allowed): a comment block of more than 4 KiB behind the first setting;
         \* a file NAMED like the word that selects the environment source, in another letter case
         longfile |-> FALSE, envname |-> FALSE]

Init == w = Base /\ src \in {"file", "env"} /\ edits = 0 /\ loaded = FALSE

EditInt == \E k \in IntKeys, v \in Grid \cup {Absent} :
              /\ w[k] # v /\ w' = [w EXCEPT ![k] = v]
EditOther == \/ \E s \in {"short", "long", "nonhex", "missing", "odd", "digits", "zeros", "lzdigits", "shortdigits", "zero1"} : w.seed = "ok" /\ w' = [w EXCEPT !.seed = s]
             \/ (w.interface = "ok" /\ w' = [w EXCEPT !.interface = "missing"])
             \/ \E c \in StatsTexts : w.client_stats # c /\ w' = [w EXCEPT !.client_stats = c]
             \/ (w.persistence_directory = "absent" /\ w' = [w EXCEPT !.persistence_directory = "dir"])
             \/ (src = "file" /\ ~w.unknown_key /\ w' = [w EXCEPT !.unknown_key = TRUE])
             \/ (src = "file" /\ ~w.multidoc /\ w' = [w EXCEPT !.multidoc = TRUE])
             \/ (src = "file" /\ ~w.longfile /\ w' = [w EXCEPT !.longfile = TRUE])
             \/ (src = "file" /\ ~w.envname /\ w' = [w EXCEPT !.envname = TRUE])

Edit == /\ ~loaded /\ edits < MaxEdits /\ (EditInt \/ EditOther)
        /\ edits' = edits + 1 /\ UNCHANGED <<src, loaded>>
Load == /\ ~loaded /\ loaded' = TRUE /\ UNCHANGED <<w, src, edits>>

Next == Edit \/ Load
Spec == Init /\ [][Next]_vars

\* sanity of the relation itself
Trichotomy == ~(MustRefuse(w) /\ MustRun(w))
\* the ideal loader (runs with exactly the written values whenever it may) is allowed
IdealOutcome == [running |-> ~MustRefuse(w), port |-> EffInt(w, "port"), batch_size |-> EffInt(w, "batch_size"),
                 fault_percentage |-> EffInt(w, "fault_percentage"), num_workers |-> EffInt(w, "num_workers"),
                 status_interval |-> EffInt(w, "status_interval"), health_check_port |-> EffInt(w, "health_check_port"),
                 client_stats |-> StatsOn(w), persistence |-> (w.persistence_directory = "dir"), seed_ok |-> TRUE, interface_ok |-> TRUE]
IdealAllowed == Allowed(w, IdealOutcome)

Emit == loaded' => PrintT(ToJson([suite |-> "config", src |-> src, w |-> w, class |-> Class(w)]))
=============================================================================
