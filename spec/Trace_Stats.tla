----------------------------- MODULE Trace_Stats -----------------------------
(* Trace validation for C17 (code -> spec and replayed behaviours). Events come from REAL
   PerClientStats (small client limit) + AggregatedStats recorders per worker, a real StatsQueue
   and a real Reporter; after every operation the harness logs the recorder's projection read
   through the public getters / iterator. TLC checks that every logged post-state is one of the
   outcomes Stats.tla allows from the current state (property level: FullMeansOverflow = FALSE),
   that the getters agree with the per-address counters, and evaluates the invariants
   Conservation, Bounded, UntrackedZero, MergePreserves in every state. A rejected event is
   noted in register 2 and the model is re-synchronised to the logged state. *)
EXTENDS Stats, Json, IOUtils, TLCExt

Rec_ == ndJsonDeserialize(IOEnv.TRACE)
VARIABLE l
tvars == <<limit, qcap, tracked, cnt, ovf, agg, queue, rep, popped, nev, l>>

Bad == TLCSet(2, TLCGet(2) \o <<l>>)
SetOf(seq) == {seq[i] : i \in 1..Len(seq)}

GettersOk(g, t, c, o) ==   \* t tracked set, c counters function, o overflow
    LET tot == SumOver(t, c) IN
    /\ g.valid = tot[1] + tot[2] /\ g.rfc = tot[1] /\ g.classic = tot[2] /\ g.invalid = tot[3]
    /\ g.failed = tot[4] /\ g.retried = tot[5] /\ g.health = tot[6]
    /\ g.responses = tot[7] + tot[8] /\ g.rfc_resp = tot[7] /\ g.classic_resp = tot[8]
    /\ g.bytes = tot[9] /\ g.unique = Cardinality(t) /\ g.overflows = o

AggGettersOk(g, a) ==
    /\ g.valid = a[1] + a[2] /\ g.rfc = a[1] /\ g.classic = a[2] /\ g.invalid = a[3] /\ g.failed = a[4]
    /\ g.retried = a[5] /\ g.health = a[6] /\ g.responses = a[7] + a[8] /\ g.rfc_resp = a[7]
    /\ g.classic_resp = a[8] /\ g.bytes = a[9]

TInit == /\ l = 1 /\ TLCSet(2, <<>>) /\ SInit(1, 1)

TNew(e) == /\ limit' = e.limit /\ qcap' = e.qcap
           /\ tracked' = [w \in Workers |-> {}] /\ cnt' = [w \in Workers |-> AllZero]
           /\ ovf' = [w \in Workers |-> 0] /\ agg' = [w \in Workers |-> Zero]
           /\ queue' = <<>> /\ rep' = AllZero /\ popped' = AllZero /\ nev' = [w \in Workers |-> 0]

TRec(e) ==
    LET w == e.w
        logged == [t |-> SetOf(e.post.tracked), c |-> e.post.cnt, o |-> e.post.ovf]
        newAgg == Bump(agg[w], e.k, e.b)
    IN /\ IF /\ logged \in RecOutcomes(w, e.k, e.a, e.b)
             /\ GettersOk(e.post.getters, logged.t, logged.c, logged.o)
             /\ e.post.agg = newAgg /\ AggGettersOk(e.post.agg_getters, newAgg)
          THEN TRUE ELSE Bad
       /\ tracked' = [tracked EXCEPT ![w] = logged.t]
       /\ cnt' = [cnt EXCEPT ![w] = logged.c]
       /\ ovf' = [ovf EXCEPT ![w] = logged.o]
       /\ agg' = [agg EXCEPT ![w] = newAgg]
       /\ nev' = [nev EXCEPT ![w] = @ + 1]
       /\ UNCHANGED <<limit, qcap, queue, rep, popped>>

\* send_client_stats: what was pushed must be exactly the tracked entries; recorder empty afterwards
TSnapshot(e) ==
    LET w == e.w
        pushedT == SetOf(e.pushed_addrs)
    IN /\ IF /\ pushedT = tracked[w]
             /\ \A a \in tracked[w] : e.pushed_cnt[a] = cnt[w][a]
             /\ e.post_unique = 0 /\ e.post_ovf = 0
          THEN TRUE ELSE Bad
       /\ Snapshot(w)

RECURSIVE MergeAllRep(_, _)
MergeAllRep(q, r) == IF q = <<>> THEN r
                     ELSE MergeAllRep(Tail(q), [a \in Addrs |-> IF a \in Head(q).t THEN Add(r[a], Head(q).c[a]) ELSE r[a]])

\* Reporter::receive_client_stats pops everything queued
TMerge(e) ==
    LET r == MergeAllRep(queue, rep) IN
    /\ IF e.rep = r THEN TRUE ELSE Bad
    /\ rep' = r /\ popped' = MergeAllRep(queue, popped) /\ queue' = <<>>
    /\ UNCHANGED <<limit, qcap, tracked, cnt, ovf, agg, nev>>

TNext ==
    /\ l <= Len(Rec_)
    /\ LET e == Rec_[l] IN
       CASE e.ev = "new" -> TNew(e)
         [] e.ev = "rec" -> TRec(e)
         [] e.ev = "snapshot" -> TSnapshot(e)
         [] e.ev = "clear" ->     \* clear() of both recorders: the logged projection must be the empty one
              /\ IF /\ e.post.tracked = <<>> /\ e.post.ovf = 0 /\ e.post.agg = Zero
                    /\ GettersOk(e.post.getters, {}, AllZero, 0) /\ AggGettersOk(e.post.agg_getters, Zero)
                 THEN TRUE ELSE Bad
              /\ ClearAll(e.w)
         [] e.ev = "merge" -> TMerge(e)
         [] e.ev = "report_file" ->   \* Reporter::report(): the persisted file holds exactly the merged per-address sums
              /\ IF e.readable /\ e.rows = rep /\ (e.expect_file => e.files = 1) /\ (~e.expect_file => e.files = 0) THEN TRUE ELSE Bad
              /\ UNCHANGED <<limit, qcap, tracked, cnt, ovf, agg, queue, rep, popped, nev>>
         [] e.ev = "bulk_merge" ->    \* the reporter at scale: every pushed entry merged in the pass, every per-address sum kept
              /\ IF ~e.panic /\ e.merged = e.distinct /\ e.merged_sum = e.pushed_sum /\ e.left_in_queue = 0 THEN TRUE ELSE Bad
              /\ UNCHANGED <<limit, qcap, tracked, cnt, ovf, agg, queue, rep, popped, nev>>
         [] e.ev = "report" -> Report
         [] OTHER -> Bad /\ UNCHANGED <<limit, qcap, tracked, cnt, ovf, agg, queue, rep, popped, nev>>
    /\ l' = l + 1

TSpec == TInit /\ [][TNext]_tvars

\* the invariants of Stats.tla, evaluated in every state of the trace; a failure is noted, not fatal
InvOk == Conservation /\ Bounded /\ UntrackedZero /\ MergePreserves
InvAsBad == IF InvOk THEN TRUE ELSE TLCSet(2, TLCGet(2) \o <<l - 1>>)

Accepted ==
    LET bad == TLCGet(2)
        consumed == TLCGet("stats").diameter - 1
    IN IF consumed = Len(Rec_) /\ bad = <<>>
       THEN PrintT(ToJson([trace |-> "accepted", events |-> Len(Rec_)]))
       ELSE PrintT(ToJson([trace |-> "rejected", matched |-> consumed, events |-> Len(Rec_),
                           bad |-> SubSeq(bad, 1, IF Len(bad) < 200 THEN Len(bad) ELSE 200), nbad |-> Len(bad)])) /\ FALSE
=============================================================================
