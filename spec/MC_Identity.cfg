SPECIFICATION ISpec
CONSTANTS
  MaxStarts = 4
  Workers = {1, 2}
  SignerClears = TRUE
INVARIANTS SignedByLTK CtxSeparated StableIdentity WindowCoversAllTime
CHECK_DEADLOCK FALSE
