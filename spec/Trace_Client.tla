----------------------------- MODULE Trace_Client -----------------------------
(* Trace validation for C01 / C03: every event is one run of the REAL roughenough-client process
   against the harness responder. `served[i]` holds the facts the interpretation computed on the
   datagram served for the i-th request (is the delegation signed by the pinned key under the
   version's context, is the response signed by the delegated key, is the midpoint inside the window,
   does the proof bind THIS request under the protocol's hash width) and whether it was the honest
   response. The client processes responses in order and stops at the first failure. *)
EXTENDS Request, FiniteSets, Json, IOUtils, TLCExt

Rec_ == ndJsonDeserialize(IOEnv.TRACE)
VARIABLE l

\* the property's conditions; without a pinned key only the proof and the window are checkable
Authentic(f, key) == /\ f.parse_ok /\ f.proof_ok /\ f.window_ok
                     /\ (key # "none" => (f.dele_sig_ok /\ f.srep_sig_ok))

FirstBad(e) == LET bad == {i \in 1..Len(e.served) : ~Authentic(e.served[i], e.key)} IN
               IF bad = {} THEN 0 ELSE CHOOSE i \in bad : \A j \in bad : i <= j

RunReasons(e) ==
    LET fb == FirstBad(e)
        allHonest == Len(e.served) = e.nreq /\ \A i \in 1..Len(e.served) : e.served[i].honest
    IN  (IF e.exit = 0 /\ e.printed > 0 /\ fb # 0 /\ e.printed >= fb THEN {"accepted_unauthentic"} ELSE {})
        \cup (IF fb # 0 /\ e.printed >= fb THEN {"time_printed_for_unauthentic_response"} ELSE {})
        \cup (IF e.exit = 0 /\ fb # 0 THEN {"exit_0_after_unauthentic_response"} ELSE {})
        \cup (IF \E i \in 1..Len(e.verified) : e.verified[i] # (e.key # "none") THEN {"verified_flag"} ELSE {})
        \cup (IF allHonest /\ (e.exit # 0 \/ e.printed # e.nreq) THEN {"honest_rejected"} ELSE {})
        \cup (IF allHonest /\ e.exit = 0 /\ ~e.times_ok THEN {"wrong_time_printed"} ELSE {})
        \* the verbose view (stderr, "verified=Yes|No") of a run that had one is held to the same rules as the primary view
        \* (JSON objects or bare times on stdout): nothing for an unauthentic response, the right flag, the right time
        \cup (IF fb # 0 /\ e.vprinted >= fb THEN {"time_printed_for_unauthentic_response"} ELSE {})
        \cup (IF \E i \in 1..Len(e.vverified) : e.vverified[i] # (e.key # "none") THEN {"verified_flag"} ELSE {})
        \cup (IF allHonest /\ e.exit = 0 /\ ~e.vtimes_ok THEN {"wrong_time_printed"} ELSE {})
        \cup (IF allHonest /\ e.out_mode # 0 /\ e.vprinted # e.nreq THEN {"honest_rejected"} ELSE {})
        \* (outside C01/C03, recorded only: the -o / -O files of a run that ended well hold exactly the datagrams exchanged)
        \cup (IF e.files = "differ" THEN {"io_files_differ"} ELSE {})
        \cup (IF Len(e.served) # e.nreq THEN {"client_sent_fewer_requests"} ELSE {})
        \* every request the client generates is one an honest server is obliged to answer (Request.tla: right size, framing,
        \* version list, nonce length, SRV of the pinned key if one was given)
        \cup (IF e.key # "bad" /\ \E i \in 1..Len(e.reqf) : Classify(e.reqf[i]) # "must" THEN {"client_request_malformed"} ELSE {})

Bad(reasons) == IF reasons = {} THEN TRUE ELSE TLCSet(2, TLCGet(2) \o <<[i |-> l, why |-> reasons]>>)

TInit == l = 1 /\ TLCSet(2, <<>>)
TNext == /\ l <= Len(Rec_)
         /\ LET e == Rec_[l] IN
            CASE e.ev = "run" -> Bad(RunReasons(e))
              [] e.ev = "nonces" -> Bad((IF e.count = e.distinct THEN {} ELSE {"nonce_reused"}) \cup (IF e.lens_ok /\ e.count > 0 THEN {} ELSE {"nonce_shape"}))
              [] OTHER -> Bad({"unknown_event"})
         /\ l' = l + 1
TSpec == TInit /\ [][TNext]_l

Accepted ==
    LET bad == TLCGet(2)
        consumed == TLCGet("stats").diameter - 1
    IN IF consumed = Len(Rec_) /\ bad = <<>>
       THEN PrintT(ToJson([trace |-> "accepted", events |-> Len(Rec_)]))
       ELSE PrintT(ToJson([trace |-> "rejected", matched |-> consumed, events |-> Len(Rec_),
                           bad |-> SubSeq(bad, 1, IF Len(bad) < 300 THEN Len(bad) ELSE 300), nbad |-> Len(bad)])) /\ FALSE
=============================================================================
