---- MODULE MC_Process ----
EXTENDS Process
====
