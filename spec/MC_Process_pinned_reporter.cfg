SPECIFICATION Spec
CONSTANTS
  N = 1
  Hc = TRUE
  HcReusePort = TRUE
  ClientStats = TRUE
  DrainBounded = TRUE
  MaxDrain = 2
  Q = 2
  AllowSignal = TRUE
  ReporterFragile = TRUE
INVARIANTS LockOwnerConsistent NoPanic CleanExit
PROPERTIES Stops NeverKeepsRunningDegraded
CHECK_DEADLOCK FALSE
