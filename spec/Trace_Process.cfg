SPECIFICATION TSpec
CONSTRAINT Track
INVARIANT StopWhenDone
POSTCONDITION Accepted
CHECK_DEADLOCK FALSE
