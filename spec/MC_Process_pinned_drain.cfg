SPECIFICATION Spec
CONSTANTS
  N = 1
  Hc = FALSE
  HcReusePort = TRUE
  ClientStats = FALSE
  DrainBounded = FALSE
  MaxDrain = 2
  Q = 2
  AllowSignal = TRUE
  ReporterFragile = FALSE
INVARIANTS LockOwnerConsistent CleanExit
PROPERTIES Stops
CHECK_DEADLOCK FALSE
