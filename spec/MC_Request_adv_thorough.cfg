SPECIFICATION Spec
CONSTANTS
  MaxVer = 4
  VerCodes = {13, 0, 1003, 1004, 1005, 1006, 1007, 1008, 1009, 1010}
ACTION_CONSTRAINT Emit
INVARIANTS OutOfRangeNeverAnswered NoSupportedVersionNeverAnswered OtherServerNeverAnswered MustImpliesSupported FirstFourAlwaysAnswered
CHECK_DEADLOCK FALSE
