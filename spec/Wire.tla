-------------------------------- MODULE Wire --------------------------------
(***************************************************************************)
(* The Roughtime tag-value wire format (C05, C06): a reference decoder and  *)
(* encoder on WORD sequences, the message-builder object of message.rs,     *)
(* and the theorems the properties state.                                   *)
(*                                                                         *)
(* A 32-bit little-endian word is abstracted to a pair <<v, t>>:            *)
(*    v = its numeric value if < 2^30, else 2^30 + (value mod 4)            *)
(*        (every comparison the format makes is against a length <= 65536   *)
(*         or a "multiple of 4" test, so the clamp loses nothing)           *)
(*    t = rank 1..18 of the known tag with this wire value in LITTLE-ENDIAN *)
(*        NUMERIC order (SIG=1 ... ZZZZ=17, PAD\xff=18), 0 if not a tag     *)
(* `tail` is the number of bytes (0..3) after the last whole word.          *)
(***************************************************************************)
EXTENDS Naturals, Sequences, FiniteSets, TLC

Big == 1073741824                       \* 2^30
V(w) == w[1]
T(w) == w[2]
Aligned(w) == V(w) % 4 = 0
NumTags == 18
Nested == {5, 10, 14}                   \* DELE, SREP, CERT carry nested messages

Err == [ok |-> FALSE, tags |-> <<>>, lens |-> <<>>]
Ok(tags, lens) == [ok |-> TRUE, tags |-> tags, lens |-> lens]

(* ---- the reference decoder: known tags only, strictly ascending numeric tag order,
        4-aligned monotone offsets inside the value area. lens are in WORDS. *)
Decode(ws, tail) ==
    LET len == Len(ws) IN
    IF len < 1 \/ tail # 0 THEN Err
    ELSE LET nt == V(ws[1]) IN
      IF T(ws[1]) # 0 THEN Err                       \* a tag word is a huge count
      ELSE IF nt = 0 THEN Ok(<<>>, <<>>)              \* empty message (trailing words ignored)
      ELSE IF nt = 1 THEN
            IF len < 2 \/ T(ws[2]) = 0 THEN Err ELSE Ok(<<T(ws[2])>>, <<len - 2>>)
      ELSE IF nt > 1024 \/ len < 2 * nt THEN Err
      ELSE LET off(k) == ws[1 + k]                    \* k in 1..nt-1
               tag(k) == T(ws[nt + k])                \* k in 1..nt
               vlen == len - 2 * nt                   \* words in the value area
               start(k) == IF k = 1 THEN 0 ELSE V(off(k - 1)) \div 4
               end(k) == IF k = nt THEN vlen ELSE V(off(k)) \div 4
           IN IF /\ \A k \in 1..(nt - 1) : Aligned(off(k)) /\ V(off(k)) < Big
                 /\ \A k \in 1..nt : tag(k) # 0
                 /\ \A k \in 1..(nt - 1) : tag(k) < tag(k + 1)
                 /\ \A k \in 1..nt : start(k) <= end(k) /\ end(k) <= vlen
              THEN Ok([k \in 1..nt |-> tag(k)], [k \in 1..nt |-> end(k) - start(k)])
              ELSE Err

\* words of the value area attributed to field k of a decoded message
HeaderWords(nt) == IF nt = 0 THEN 1 ELSE 2 * nt

(* ---- the encoder on an abstract message: tags (ranks) and values (sequences of words) *)
TagWord(r) == <<"tag", r>>              \* placeholder; concrete tag words come from TagWords below

RECURSIVE SumLens(_, _)
SumLens(vals, k) == IF k = 0 THEN 0 ELSE Len(vals[k]) + SumLens(vals, k - 1)

RECURSIVE Flatten(_)
Flatten(vals) == IF vals = <<>> THEN <<>> ELSE Head(vals) \o Flatten(Tail(vals))

\* TagW(r) gives the word <<v, t>> of tag rank r (v as abstracted from its wire value)
Encode(tags, vals, TagW(_)) ==
    LET nt == Len(tags) IN
    <<<<nt, 0>>>>
    \o [k \in 1..(IF nt < 2 THEN 0 ELSE nt - 1) |-> <<4 * SumLens(vals, k), 0>>]
    \o [k \in 1..nt |-> TagW(tags[k])]
    \o Flatten(vals)

\* abstract v of each tag's wire value (computed by the interpretation from the wire
\* bytes; fixed here so that the module is self-contained): SIG, VER, SRV are < 2^30,
\* every other tag is >= 2^30 and clamps to Big + (value mod 4)
TagV == <<4671827, 5391702, 5657171, Big + 2, Big + 0, Big + 0, Big + 2, Big + 0, Big + 1, Big + 3,
          Big + 2, Big + 1, Big + 2, Big + 3, Big + 1, Big + 1, Big + 2, Big + 0>>
StdTagW(r) == <<TagV[r], r>>

\* RFC framing, in bytes: "ROUGHTIM" (8) + LE32(payload length) + payload
FramedLen(nwords) == 12 + 4 * nwords
FrameLenField(nwords) == 4 * nwords
=============================================================================
