SPECIFICATION Spec
CONSTANTS
  Data = {1, 2}
  MaxLeaves = 6
  FreeUpTo = 3
  MaxResets = 2
VIEW view
ACTION_CONSTRAINT Emit
INVARIANTS Complete MatchesDefinition PathShape Binding ResetClean
CHECK_DEADLOCK FALSE
