-------------------------------- MODULE Grease --------------------------------
(***************************************************************************)
(* C02 (fault injection, src/grease.rs): with probability p a response is   *)
(* replaced by a deliberately invalid one, by one of two pathologies:       *)
(*   RandomlyOrderTags         the (tag, value) pairs are permuted          *)
(*   CorruptResponseSignature  SIG := random bytes, NONC dropped            *)
(* Property (dichotomy): an injected reply either fails verification        *)
(* outright or is indistinguishable from the honest reply (the identity     *)
(* permutation); it never verifies while carrying different content.        *)
(***************************************************************************)
EXTENDS Naturals, Sequences, FiniteSets, TLC

Tags == <<1, 4, 6, 10, 14, 16>>            \* SIG NONC PATH SREP CERT INDX (ranks, ascending)
Honest == [k \in 1..6 |-> [tag |-> Tags[k], val |-> "honest"]]

Perms == {p \in [1..6 -> 1..6] : \A i, j \in 1..6 : i # j => p[i] # p[j]}
Permuted(p) == [k \in 1..6 |-> Honest[p[k]]]
CorruptSig == << [tag |-> 1, val |-> "junk"], Honest[3], Honest[4], Honest[5], Honest[6] >>

\* the verifier: decodable (strictly ascending tags), all fields present, signature valid
Ascending(m) == \A k \in 1..(Len(m) - 1) : m[k].tag < m[k + 1].tag
Field(m, t) == {m[k].val : k \in {j \in 1..Len(m) : m[j].tag = t}}
Verifies(m) == /\ Ascending(m)
               /\ \A t \in {1, 6, 10, 14, 16} : Field(m, t) # {}
               /\ Field(m, 1) = {"honest"}

VARIABLE reply
Init == reply \in {Permuted(p) : p \in Perms} \cup {CorruptSig}
Next == UNCHANGED reply
Spec == Init /\ [][Next]_reply

Dichotomy == Verifies(reply) => reply = Honest
SomeInjectionIsHarmless == reply = Honest => Verifies(reply)       \* the identity permutation exists (not every injection fails)
=============================================================================
