------------------------------ MODULE ServerAbs ------------------------------
(***************************************************************************)
(* Property-level specification of a serving worker (C02, C07, C09, C10,    *)
(* C11, C12, C08, C17-wiring, C20): requests are received, responses are    *)
(* emitted, in any batching and any internal order. A round is: datagrams   *)
(* arrive; the worker processes until it would block; responses are         *)
(* observed. The interpretation I supplies, per response, the atomic facts  *)
(* (signature checks, which requests its proof binds, sizes, clock          *)
(* bracket); this module states the relation the properties require.        *)
(***************************************************************************)
EXTENDS Request, FiniteSets

VARIABLES reqs,      \* round: id -> [sock, cls, v, len, answers, routable]
          roots,     \* round: set of <<root_id, v, indx, pathlen>> seen (responses sharing a signed root)
          totals     \* section (since the last statistics publication): [arrivals, replies, bytes, greased, failing, unroutable, socks]
avars == <<reqs, roots, totals>>

NoReqs == <<>>      \* ids are 1..Len(reqs): a sequence of records

RoundBegin == reqs' = NoReqs /\ roots' = {} /\ UNCHANGED totals

\* `routable` = FALSE: the datagram's source address is one the operating system refuses to send to
\* (source port 0): the server's send fails, nothing can be observed; the statistics must say so
Receive(sock, f, routable) ==
    /\ reqs' = Append(reqs, [sock |-> sock, cls |-> Classify(f), v |-> ProtoOf(f), len |-> f.len, answers |-> 0, routable |-> routable])
    /\ totals' = [totals EXCEPT !.arrivals = @ + 1, !.socks = @ \cup {sock},
                                !.unroutable = @ + (IF ~routable /\ Classify(f) = "must" THEN 1 ELSE 0)]
    /\ UNCHANGED roots

\* what every NON-fault-injected response must satisfy, given the request r it answers
HonestFor(rp, r) ==
    /\ rp.parse = "ok"
    /\ rp.v = reqs[r].v                                   \* answered in its own protocol
    /\ (rp.v = "I" => rp.frame_ok)
    /\ rp.cert_ok /\ rp.srep_ok /\ rp.window_ok           \* signature chain under the server's long-term key
    /\ ~rp.cert_other                                     \* never valid under the other protocol's context
    /\ rp.ver_ok
    /\ r \in rp.proof_reqs                                \* inclusion proof binds THIS request
    /\ (rp.v = "I" \/ rp.has_nonce) => r \in rp.nonce_reqs  \* echoes its nonce
    /\ rp.pathlen <= 32
    /\ rp.time_ok /\ rp.radi_ok

\* candidates: unanswered requests from the socket the response arrived on
Candidates(rp) == {r \in 1..Len(reqs) : reqs[r].sock = rp.sock /\ reqs[r].answers = 0 /\ reqs[r].cls # "mustnot"}

\* Reasons why a response is NOT allowed (empty set = allowed). Reasons are attributed to properties
\* by the checks.
RespondReasons(rp) ==
    LET cands == Candidates(rp)
        good == {r \in cands : HonestFor(rp, r)}
        anyFrom == {r \in 1..Len(reqs) : reqs[r].sock = rp.sock}
        \* the request(s) this response was built for, whether or not already answered (duplicates amplify too)
        builtFor == {r \in anyFrom : r \in rp.nonce_reqs \/ r \in rp.proof_reqs}
        amplifies == IF builtFor # {} THEN \A r \in builtFor : rp.len > reqs[r].len
                     ELSE anyFrom # {} /\ \A r \in anyFrom : rp.len > reqs[r].len
    IN  (IF rp.leak THEN {"leak"} ELSE {})
        \cup (IF amplifies THEN {"amplification"} ELSE {})
        \cup
        (IF rp.greased /\ rp.fails
         THEN (IF cands = {} THEN {"unsolicited"} ELSE {})     \* a fault-injected reply still answers someone; one that
                                                               \* does NOT fail verification is held to the honest standard (Grease.tla Dichotomy)
         ELSE IF good # {} THEN {}
              ELSE IF anyFrom = {} THEN {"to_wrong_sender"}
              ELSE IF \A r \in anyFrom : reqs[r].cls = "mustnot" THEN {"reply_to_malformed"}
              ELSE IF cands = {} THEN {"duplicate_reply"}
              ELSE \* there is a candidate but the response is not honest for any: say why, for the first candidate
                   LET r == CHOOSE x \in cands : TRUE IN
                   (IF rp.parse # "ok" THEN {"malformed_response"} ELSE {})
                   \cup (IF rp.parse = "ok" /\ rp.v # reqs[r].v THEN {"wrong_protocol"} ELSE {})
                   \cup (IF rp.parse = "ok" /\ rp.v = "I" /\ ~rp.frame_ok THEN {"bad_framing"} ELSE {})
                   \cup (IF rp.parse = "ok" /\ ~rp.cert_ok THEN {"cert_invalid"} ELSE {})
                   \cup (IF rp.parse = "ok" /\ rp.cert_other THEN {"cert_context_not_separated"} ELSE {})
                   \cup (IF rp.parse = "ok" /\ ~rp.srep_ok THEN {"srep_sig_invalid"} ELSE {})
                   \cup (IF rp.parse = "ok" /\ ~rp.window_ok THEN {"midpoint_outside_delegation"} ELSE {})
                   \cup (IF rp.parse = "ok" /\ ~rp.ver_ok THEN {"version_fields"} ELSE {})
                   \cup (IF rp.parse = "ok" /\ rp.proof_reqs \cap cands = {} THEN
                            (IF rp.proof_reqs = {} THEN {"proof_invalid"} ELSE {"proof_for_other_request"}) ELSE {})
                   \cup (IF rp.parse = "ok" /\ (rp.v = "I" \/ rp.has_nonce) /\ rp.nonce_reqs \cap cands = {} THEN {"nonce_not_echoed"} ELSE {})
                   \cup (IF rp.parse = "ok" /\ ~rp.time_ok THEN {"midpoint_not_clock"} ELSE {})
                   \cup (IF rp.parse = "ok" /\ ~rp.radi_ok THEN {"radius"} ELSE {}))

\* which request the response is booked on (for exactly-once accounting): an honest match if there
\* is one; otherwise (fault-injected or deviating response) the candidate the response's own
\* content points to, then a request that must be answered, then any candidate
BookOn(rp) ==
    LET cands == Candidates(rp)
        good == {r \in cands : HonestFor(rp, r)}
        hinted == cands \cap (rp.proof_reqs \cup rp.nonce_reqs)
        musts == {r \in cands : reqs[r].cls = "must"}
    IN IF good # {} THEN CHOOSE r \in good : TRUE
       ELSE IF hinted # {} THEN CHOOSE r \in hinted : TRUE
       ELSE IF musts # {} THEN CHOOSE r \in musts : TRUE
       ELSE IF cands # {} THEN CHOOSE r \in cands : TRUE
       ELSE 0

RECURSIVE Pow2c(_)
Pow2c(k) == IF k = 0 THEN 1 ELSE IF k > 20 THEN 1048576 ELSE 2 * Pow2c(k - 1)

\* responses that share a signed root: distinct indices, one protocol, tree large enough
RootReasons(rp) ==
    IF rp.greased \/ rp.parse # "ok" THEN {}
    ELSE (IF \E x \in roots : x[1] = rp.root_id /\ x[4] # rp.pathlen THEN {"path_length_differs_under_one_root"} ELSE {})
         \cup (LET idxs == {x[3] : x \in {y \in roots : y[1] = rp.root_id}} \cup {rp.indx} IN
               IF Cardinality(idxs) > Pow2c(rp.pathlen) \/ rp.indx >= Pow2c(rp.pathlen) THEN {"path_too_short_for_batch"} ELSE {})
         \cup (IF \E x \in roots : x[1] = rp.root_id /\ x[2] # rp.v THEN {"protocols_mixed_under_one_root"} ELSE {})

Respond(rp) ==
    LET b == BookOn(rp) IN
    /\ reqs' = IF b = 0 THEN reqs ELSE [reqs EXCEPT ![b].answers = @ + 1]
    /\ roots' = IF rp.parse = "ok" /\ ~rp.greased THEN roots \cup {<<rp.root_id, rp.v, rp.indx, rp.pathlen>>} ELSE roots
    /\ totals' = [totals EXCEPT !.replies = @ + 1, !.bytes = @ + rp.len,
                                !.greased = @ + (IF rp.greased THEN 1 ELSE 0),
                                !.failing = @ + (IF rp.fails THEN 1 ELSE 0)]

\* at quiescence every request that must be answered has exactly one response
RoundEndReasons ==
    (IF \E r \in 1..Len(reqs) : reqs[r].cls = "must" /\ reqs[r].routable /\ reqs[r].answers = 0 THEN {"no_reply_to_valid"} ELSE {})
    \cup (IF \E r \in 1..Len(reqs) : reqs[r].answers > 1 THEN {"duplicate_reply"} ELSE {})


\* the configured batch size is the effective one: no signed root covers more requests than batch_size
BatchReasons(b) ==
    IF b = 0 THEN {}
    ELSE IF \E rid \in {x[1] : x \in roots} : Cardinality({x[3] : x \in {y \in roots : y[1] = rid}}) > b
         THEN {"batch_larger_than_configured"} ELSE {}

\* property-level invariants, evaluated in every state of every validated trace
AtMostOnce == \A r \in 1..Len(reqs) : reqs[r].answers <= 1
OnlyWellFormed == \A r \in 1..Len(reqs) : reqs[r].cls = "mustnot" => reqs[r].answers = 0
=============================================================================
