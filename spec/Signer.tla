------------------------------- MODULE Signer -------------------------------
(***************************************************************************)
(* C13: the incremental Ed25519 wrappers of src/sign.rs.                    *)
(*   MsgSigner  : buf accumulates update() chunks; sign() signs the buffer  *)
(*                and CLEARS it                                             *)
(*   MsgVerifier: buf accumulates update() chunks; verify(sig) checks the   *)
(*                signature over the whole buffer (buffer is kept)          *)
(* A message is the sequence of chunk ids fed since the last sign(); the    *)
(* signature term records exactly which chunks it covers.                   *)
(***************************************************************************)
EXTENDS Naturals, Sequences, TLC

CONSTANTS Chunks,      \* chunk ids (0 = the empty chunk)
          MaxOps, MaxSigns

VARIABLES buf,         \* signer buffer: sequence of chunk ids
          vbuf,        \* verifier buffer
          signs,       \* number of sign() calls so far
          lastSig,     \* last signature produced: [key, msg]
          hist

vars == <<buf, vbuf, signs, lastSig, hist>>
view == <<buf, vbuf, signs, lastSig, Len(hist)>>

NoSig == [key |-> "none", msg |-> <<>>]
SigOf(k, m) == [key |-> k, msg |-> m]
\* the bytes of a message are the concatenation of its chunks: two chunk sequences denote the
\* same message iff their non-empty chunks agree (the empty chunk contributes nothing)
Bytes(m) == SelectSeq(m, LAMBDA c : c # 0)
VerifyM(pk, m, s) == s.key = pk /\ Bytes(s.msg) = Bytes(m)

Init == /\ buf = <<>> /\ vbuf = <<>> /\ signs = 0 /\ lastSig = NoSig /\ hist = <<>>

Update(c) == /\ Len(hist) < MaxOps
             /\ buf' = Append(buf, c)
             /\ hist' = Append(hist, [op |-> "update", c |-> c])
             /\ UNCHANGED <<vbuf, signs, lastSig>>

Sign == /\ Len(hist) < MaxOps /\ signs < MaxSigns
        /\ lastSig' = SigOf("K", buf)
        /\ buf' = <<>>                                   \* self.buf.clear()
        /\ signs' = signs + 1
        /\ hist' = Append(hist, [op |-> "sign", covers |-> buf])
        /\ UNCHANGED vbuf

VUpdate(c) == /\ Len(hist) < MaxOps
              /\ vbuf' = Append(vbuf, c)
              /\ hist' = Append(hist, [op |-> "vupdate", c |-> c])
              /\ UNCHANGED <<buf, signs, lastSig>>

\* verify the last produced signature (or one by another key) against the verifier's buffer
VVerify(otherKey) ==
    /\ Len(hist) < MaxOps /\ lastSig # NoSig
    /\ LET s == IF otherKey THEN SigOf("Kx", lastSig.msg) ELSE lastSig
       IN hist' = Append(hist, [op |-> "vverify", otherKey |-> otherKey, sigmsg |-> lastSig.msg,
                                 exp |-> VerifyM("K", vbuf, s)])
    /\ UNCHANGED <<buf, vbuf, signs, lastSig>>

Next == (\E c \in Chunks : Update(c) \/ VUpdate(c)) \/ Sign \/ VVerify(FALSE) \/ VVerify(TRUE)
Spec == Init /\ [][Next]_vars

\* ---- properties
\* no carry-over: what a signature covers is exactly what was fed since the previous sign()
NoCarryOver == \A k \in 1..Len(hist) : hist[k].op = "sign" =>
    LET prev == {j \in 1..(k - 1) : hist[j].op = "sign"}
        from == IF prev = {} THEN 0 ELSE CHOOSE j \in prev : \A i \in prev : i <= j
        fed == SelectSeq(SubSeq(hist, from + 1, k - 1), LAMBDA h : h.op = "update")
    IN hist[k].covers = [i \in 1..Len(fed) |-> fed[i].c]
BufferEmptyAfterSign == (hist # <<>> /\ hist[Len(hist)].op = "sign") => buf = <<>>
=============================================================================
