-------------------------------- MODULE Cluster --------------------------------
(***************************************************************************)
(* C18: several workers share one UDP port (SO_REUSEPORT): the kernel hands *)
(* every datagram to exactly one worker's socket, chosen arbitrarily; each  *)
(* worker batches and answers what it received with ITS OWN online key,     *)
(* certified by the single long-term key. A worker step here is one whole   *)
(* batch (its internal structure is Server.tla). Workers may die            *)
(* (WorkerDies, disabled by the required constant) to show what the         *)
(* property excludes.                                                       *)
(***************************************************************************)
EXTENDS Naturals, Sequences, FiniteSets, TLC

CONSTANTS N, B, MaxArr, WorkersMayDie

Workers == 1..N
VARIABLES q,        \* [Workers -> Seq(datagram)]
          alive,    \* [Workers -> BOOLEAN]
          out,      \* responses: [req, dst, by, cert]
          arrived, kinds

vars == <<q, alive, out, arrived, kinds>>
Kinds == {"C", "I", "X"}

Init == q = [w \in Workers |-> <<>>] /\ alive = [w \in Workers |-> TRUE] /\ out = {} /\ arrived = 0 /\ kinds = <<>>

\* the kernel picks any live worker's socket
Deliver(k, s, w) == /\ arrived < MaxArr /\ alive[w]
                    /\ arrived' = arrived + 1 /\ kinds' = Append(kinds, k)
                    /\ q' = [q EXCEPT ![w] = Append(@, [id |-> arrived + 1, k |-> k, src |-> s])]
                    /\ UNCHANGED <<alive, out>>

Take(s, n) == IF Len(s) <= n THEN s ELSE SubSeq(s, 1, n)
Batch(w) == /\ alive[w] /\ q[w] # <<>>
            /\ LET b == Take(q[w], B) IN
               /\ out' = out \cup {[req |-> b[j].id, dst |-> b[j].src, by |-> w, cert |-> <<"LTK", w, b[j].k>>] : j \in {i \in 1..Len(b) : b[i].k # "X"}}
               /\ q' = [q EXCEPT ![w] = SubSeq(@, Len(b) + 1, Len(@))]
            /\ UNCHANGED <<alive, arrived, kinds>>

WorkerDies(w) == /\ WorkersMayDie /\ alive[w] /\ alive' = [alive EXCEPT ![w] = FALSE] /\ UNCHANGED <<q, out, arrived, kinds>>

Next == (\E k \in Kinds, s \in {1, 2}, w \in Workers : Deliver(k, s, w)) \/ (\E w \in Workers : Batch(w) \/ WorkerDies(w))
Spec == Init /\ [][Next]_vars /\ \A w \in Workers : WF_vars(Batch(w))

AtMostOnce == \A r1, r2 \in out : r1.req = r2.req => r1 = r2
NoReplyToInvalid == \A r \in out : kinds[r.req] # "X"
SingleIdentity == \A r \in out : r.cert[1] = "LTK"
OwnProtocolKey == \A r \in out : r.cert[3] = kinds[r.req]
NoWorkerDies == \A w \in Workers : alive[w]
\* every valid request is eventually answered, whichever worker the kernel chose
EveryoneAnswered == \A n \in 1..MaxArr : [](arrived >= n /\ kinds[n] # "X" => <>(\E r \in out : r.req = n))
=============================================================================
