------------------------------ MODULE Envelope ------------------------------
(***************************************************************************)
(* C14: envelope encryption of the long-term seed (src/kms/envelope.rs).    *)
(*                                                                         *)
(* A blob is a sequence of byte CELLS:                                      *)
(*    <<"h", v>>   header byte with numeric value v (dek_len lo/hi, nonce_len lo/hi) *)
(*    <<"w", i>>   i-th byte of the wrapped DEK as the provider returned it  *)
(*    <<"n", i>>   i-th byte of the AEAD nonce                               *)
(*    <<"c", i>>   i-th byte of ciphertext||tag (P + 16 bytes)               *)
(*    <<"x", k>>   a byte that differs from what encrypt_seed wrote there    *)
(* Decrypt parses with the arithmetic of decrypt_seed; Unwrap and Open are   *)
(* symbolic: they succeed only on exactly the cells that were produced.      *)
(***************************************************************************)
EXTENDS Naturals, Sequences, TLC

NonceLen == 12
TagLen == 16
\* the smallest blob that can possibly be genuine: header + nonce + tag (no assumption on the
\* provider's wrapped-key length: the property quantifies over wrapped lengths 16..1024)
MinPayload == 4 + NonceLen + TagLen

Err == "err"
OkSeed == "seed"

Wrapped(W) == [i \in 1..W |-> <<"w", i>>]
NonceC == [i \in 1..NonceLen |-> <<"n", i>>]
Ct(P) == [i \in 1..(P + TagLen) |-> <<"c", i>>]
Header(W) == << <<"h", W % 256>>, <<"h", W \div 256>>, <<"h", NonceLen>>, <<"h", 0>> >>
Blob(W, P) == Header(W) \o Wrapped(W) \o NonceC \o Ct(P)

HV(cell) == IF cell[1] = "h" THEN cell[2] ELSE 999     \* a non-header cell never sits in the first 4 positions

\* provider behaviour on decrypt_dek: "ok" | "err" | "wrongkey" | "wronglen" (an unrelated key of another length) |
\* "longkey" (the right key followed by extra bytes) | "shortkey" (a proper prefix of the right key): a key of the wrong
\* length is a different key, whatever its bytes
Unwrap(cells, W, auth, fault) ==
    IF fault = "err" THEN Err
    ELSE IF fault = "wrongkey" THEN "DEKx"
    ELSE IF fault \in {"wronglen", "longkey", "shortkey"} THEN "DEKshort"
    ELSE IF cells = Wrapped(W) THEN "DEK"
    ELSE IF auth THEN Err ELSE "DEKx"          \* authenticated wrap refuses; plain wrap yields another key

Open(dek, nonce, ct, P) ==
    IF dek = "DEK" /\ nonce = NonceC /\ ct = Ct(P) THEN OkSeed ELSE Err

Decrypt(blob, W, P, auth, fault) ==
    LET len == Len(blob) IN
    IF len < MinPayload THEN Err
    ELSE LET dekLen == HV(blob[1]) + 256 * HV(blob[2])
             nLen == HV(blob[3]) + 256 * HV(blob[4])
         IN IF nLen # NonceLen \/ dekLen > len THEN Err
            ELSE IF 4 + dekLen + NonceLen > len THEN Err              \* read_exact fails
            ELSE LET wrapped == SubSeq(blob, 5, 4 + dekLen)
                     nonce == SubSeq(blob, 5 + dekLen, 4 + dekLen + NonceLen)
                     ct == SubSeq(blob, 5 + dekLen + NonceLen, len)
                     dek == Unwrap(wrapped, W, auth, fault)
                 IN IF dek = Err \/ dek = "DEKshort" THEN Err ELSE Open(dek, nonce, ct, P)

\* ---- tampering
HeaderValues == {0, 1, 11, 12, 13, 16, 32, 48, 255}
FlipBit(v, b) == LET p == 2 ^ b IN IF (v \div p) % 2 = 1 THEN v - p ELSE v + p

Tampered(blob, op) ==
    CASE op.k = "none" -> blob
      [] op.k = "flip" -> [blob EXCEPT ![op.pos] = IF @[1] = "h" THEN <<"h", FlipBit(@[2], op.bit)>> ELSE <<"x", op.pos>>]
      [] op.k = "set" -> [blob EXCEPT ![op.pos] = IF @[1] = "h" THEN <<"h", op.val>> ELSE <<"x", op.pos>>]
      [] op.k = "trunc" -> SubSeq(blob, 1, op.len)
      [] op.k = "ext" -> blob \o [i \in 1..op.n |-> <<"x", 10000 + i>>]
      \* n foreign bytes inserted behind the first op.pos bytes (with a header edit: a field that "grows" while the rest lines up)
      [] op.k = "splice" -> SubSeq(blob, 1, op.pos) \o [i \in 1..op.n |-> <<"x", 20000 + i>>] \o SubSeq(blob, op.pos + 1, Len(blob))
=============================================================================
