------------------------------ MODULE MC_Client ------------------------------
(* Model checking of Client.tla and generation of response recipes: every Deliver transition that leads
   to a distinct (version, key option, response) is printed once; the harness concretises each recipe on
   the REAL request of a REAL roughenough-client process. *)
EXTENDS Client, Json

\* hamming distance of a response from the honest one, in components (recipes near the honest response first)
Dist(r, ver) == LET h == HonestResp(ver) IN
    (IF r.framing # h.framing THEN 1 ELSE 0) + (IF r.csig # h.csig THEN 1 ELSE 0) + (IF r.dele # h.dele THEN 1 ELSE 0)
    + (IF r.ssig # h.ssig THEN 1 ELSE 0) + (IF r.srep # h.srep THEN 1 ELSE 0) + (IF r.proof # h.proof THEN 1 ELSE 0)

CONSTANT MaxDist
Emit == (pc' = "unframe" /\ n = 0 /\ Dist(resp', v) <= MaxDist) =>
            PrintT(ToJson([suite |-> "client", v |-> v, key |-> key, resp |-> resp', authentic |-> Authentic(resp', v), dist |-> Dist(resp', v)]))
=============================================================================
