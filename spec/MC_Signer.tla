----------------------------- MODULE MC_Signer -----------------------------
EXTENDS Signer, Json
Emit == (hist'[Len(hist')].op \in {"sign", "vverify"}) => PrintT(ToJson([suite |-> "signer", hist |-> hist']))
=============================================================================
