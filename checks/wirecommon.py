"""C05 and C06 share one pipeline (Wire.tla): TLC enumerates the small-scope input space and the
builder/mutation machine and emits one test case per state; the harness replays each case on the
real codec; the harness then records seeded API messages, targeted mutants and random strings and TLC
re-decides every recorded event with the reference decoder (Trace_Wire.tla). Each property keeps only
the violation kinds it states."""
import json
from lib import vlib

C06_KINDS = ("panic_from_bytes", "panic_display_nested_undecodable", "panic_display_other",
             "values_not_exactly_input_after_header", "panic_builder")


def classify_event(e):
    """property and kind of a rejected trace event"""
    if e.get("panic"):
        return "C06", "panic_from_bytes"
    if not e.get("display_ok", True):
        return "C06", ("panic_display_nested_undecodable" if e.get("nested_undecodable") else "panic_display_other")
    acc = e["obs"]["ok"] and len(e["obs"]["tags"]) > 0
    if acc and not e.get("concat_ok", True):
        return "C06", "values_not_exactly_input_after_header"
    if "api" in e and e["obs"] != e["api"]:
        return "C05", "api_round_trip_differs"
    if acc and not e.get("reenc_ok", True):
        return "C05", "reencode_differs"
    if acc and not e.get("frame_ok", True):
        return "C05", "framing_differs"
    return "C05", "decode_differs_from_reference"


def run(pid, tier):
    c = vlib.Check(pid, tier)
    vlib.build_harness()
    cfg = "MC_Wire_%s.cfg" % tier
    cases = vlib.workfile(pid, "cases.ndjson")
    n_cases = [0]
    with open(cases, "w") as f:
        def sink(o):
            f.write(json.dumps(o, separators=(",", ":")) + "\n")
            n_cases[0] += 1
            if n_cases[0] in (40000, 90000):
                c.sample({"direction": "spec->code", "case": o})
        res = vlib.run_tlc("MC_Wire", cfg, pid + "/mc", workers=12, timeout=3000, print_sink=sink, xmx="8g")
        vlib.expect_model_ok(res, "Wire.tla (%s)" % cfg)
        c.add_model("Wire/" + cfg, res)
        if tier == "thorough":
            # double mutations of small builder messages
            res2 = vlib.run_tlc("MC_Wire", "MC_Wire_thorough2.cfg", pid + "/mc2", workers=12, timeout=3000, print_sink=sink, xmx="8g")
            vlib.expect_model_ok(res2, "Wire.tla (MC_Wire_thorough2.cfg)")
            c.add_model("Wire/MC_Wire_thorough2.cfg", res2)

    out = vlib.run_harness(["wire", "replay", "--in", cases], timeout=3000)
    for r in out:
        if r.get("rec") == "summary":
            c.behaviours_replayed = r["executions"]
            c.evaluations += r["executions"]
            c.notes.append("spec->code: %d cases, %d executions, %d accepted by both" % (r["cases"], r["executions"], r["accepted"]))
        elif r.get("rec") == "mismatch" and r["property"] == pid:
            key = "%s|%s" % (pid, r["kind"])
            c.violation(key, "codec deviates from Wire.tla: %s (%s)" % (r["kind"], r.get("detail", "")[:80]),
                        {"direction": "spec->code", "case": r["case"], "bytes_hex": r["bytes_hex"], "detail": r["detail"]})

    trace = vlib.workfile(pid, "trace.ndjson")
    vlib.run_harness(["wire", "record", "--seed", c.seed, "--tier", tier, "--out", trace], timeout=3000)
    ok, verdict, tres = vlib.validate_trace("Trace_Wire", "Trace_Wire.cfg", trace, pid + "/trace", timeout=3000, xmx="8g")
    c.add_model("Trace_Wire", tres)
    events = [json.loads(l) for l in open(trace)]
    if verdict.get("matched", len(events)) != len(events):
        raise vlib.ToolError("trace spec did not consume the whole trace (%s of %s)" % (verdict.get("matched"), len(events)))
    c.evaluations += len(events)
    for e in events:
        c.distinct.add("%s|%s|%s|%d" % (e["kind"], e["obs"]["ok"], len(e["obs"]["tags"]), min(len(e["ws"]), 64)))
    bad = verdict.get("bad", []) if not ok else []
    mine = 0
    for idx in bad:
        e = events[idx - 1]
        p, kind = classify_event(e)
        if p != pid:
            continue
        mine += 1
        brief = {k: v for k, v in e.items() if k != "ws"}
        c.violation("%s|%s" % (pid, kind), "recorded from_bytes call rejected by Trace_Wire: %s" % kind,
                    {"direction": "code->spec", "event_index": idx, "event": brief, "ws_head": e["ws"][:48], "nwords": len(e["ws"])})
    if not ok and verdict.get("nbad", 0) > len(bad):
        c.notes.append("more than %d failing events; only the first %d classified" % (len(bad), len(bad)))
    c.traces_validated += 1 if mine == 0 else 0
    c.notes.append("code->spec: %d recorded decode events, %d rejected for this property" % (len(events), mine))
    for e in events:
        if e["kind"] == "mutant" and e["obs"]["ok"]:
            c.sample({"direction": "code->spec", "event": {k: v for k, v in e.items() if k != "ws"}, "ws_head": e["ws"][:24]})
            break
    c.rule = ("spec->code: every state of MC_Wire (all word sequences <= MaxWords over a 17-word alphabet, unaligned tails, "
              "builder messages and their single/double mutations), x3 concretisations of clamped words; code->spec: seeded API "
              "messages <= 64 KiB, header-targeted mutants, random strings; distinct = (kind, accepted, #tags, min(#words,64)) classes")
    c.exhaustive = True
    c.assumptions = ["TLC 1.8", "the zero-tag message with trailing words is accepted by the reference (the property exempts it)",
                     "word abstraction <<v,t>> with v clamped at 2^30 (all format comparisons are against lengths <= 65536 or mod 4)"]
    return c.finish()
