"""C08 - no datagram sequence can crash or wedge a serving worker (Server.tla NoStranded/Responsive; ServerAbs.tla)."""
from lib import vlib
from checks import servercommon as sc


def run(tier):
    c = vlib.Check("C08", tier)
    vlib.build_harness()
    for cfg in ("MC_Server_B1.cfg", "MC_Server_B2.cfg"):
        res = vlib.run_tlc("MC_Server", cfg, "C08/mc", workers=12, timeout=1800, collect_prints=False)
        vlib.expect_model_ok(res, "Server.tla (%s)" % cfg)
        c.add_model("MC_Server/" + cfg + " (NoStranded, Responsive)", res)
    ev, _ = sc.server_stage(c, "hostile,stats,mixed", "hostile")
    sc.sample_round(c, ev, lambda e: e["greased"])
    sc.sample_round(c, ev)
    c.rule = ("code->spec: seeded datagram sequences (valid, empty/odd nonces, near-valid mutants, random strings, lengths 0..65507, full batches of "
              "invalid datagrams) interleaved with valid requests, for every log level Off..Trace (a capturing logger formats every record), "
              "fault_percentage {0,50}, batch sizes {1,4,64} (thorough {1,2,3,8,64}); every process_events call under catch_unwind; wedge = worker "
              "idle while the kernel still queues datagrams for it")
    c.assumptions = ["TLC 1.8", "a panic is caught per process_events call and reported, the same server object keeps being used afterwards",
                     "kernel receive queue depth read from /proc/net/udp to tell a wedge from a kernel drop"]
    return c.finish()


def replay(path):
    from lib import vlib
    return vlib.replay_file(path, run)
