"""C05 - wire codec round-trips, is canonical, agrees with the reference codec (Wire.tla)."""
from checks import wirecommon


def run(tier):
    return wirecommon.run("C05", tier)


def replay(path):
    from lib import vlib
    return vlib.replay_file(path, run)
