"""C19 - SIGINT or SIGTERM at any moment stops the server cleanly and promptly (Process.tla)."""
from lib import vlib
from checks import proccommon as pc


def run(tier):
    c = vlib.Check("C19", tier)
    vlib.build_harness()
    for cfg in ("MC_Process_stop2.cfg", "MC_Process_stop1.cfg"):
        res = vlib.run_tlc("MC_Process", cfg, "C19/mc", workers=8, timeout=900, collect_prints=False)
        vlib.expect_model_ok(res, "Process.tla (%s)" % cfg)
        c.add_model("MC_Process/" + cfg + " (Stops under unfair arrivals, CleanExit)", res)
    m = vlib.run_tlc("MC_Process", "MC_Process_pinned_drain.cfg", "C19/mc_selftest", workers=4, timeout=300, collect_prints=False)
    if not m.violated:
        raise vlib.ToolError("Process.tla self-test: the unbounded drain loop should violate Stops")
    c.notes.append("Process.tla self-test: DrainBounded=FALSE violates Stops (lasso drain/Arrive with the flag cleared)")
    m = vlib.run_tlc("MC_Process", "MC_Process_pinned_reporter.cfg", "C19/mc_selftest2", workers=4, timeout=300, collect_prints=False)
    if not m.violated:
        raise vlib.ToolError("Process.tla self-test: a reporter thread that dies on a long pass should violate CleanExit")
    c.notes.append("Process.tla self-test: ReporterFragile=TRUE violates CleanExit (main's join of the dead reporter panics: exit status 101)")
    pc.run_scenarios(c, pc.c19_scenarios(tier, c.seed), "signals")
    c.rule = ("code->spec: the real server binary signalled (INT, TERM) at seeded delays while idle, under closed-loop load and under an open-loop flood from "
              "3 senders, num_workers {1,4} (thorough {1,4,16}), client_stats off/on; exit status 0 within 5 s, no panic output, hook logs (handler thread, "
              "workers, statistics reporter, main join order) validated against Process.tla; schedules in which a reporter pass outlasts its one-second "
              "cadence or a worker is slow to leave its start-up lock are produced by delay injection at hook events, every reply received up to the exit verified by the interpretation")
    c.assumptions = ["TLC 1.8", "'a few seconds' is taken as 5 s (healthy runs exit in < 1.2 s; the historical defect never exited under flood)"]
    return c.finish()


def replay(path):
    from lib import vlib
    return vlib.replay_file(path, run)
