"""C07 - server answers only well-formed 1024-1500 byte requests, never amplifying (Request.tla, ServerAbs.tla)."""
from lib import vlib
from checks import servercommon as sc


def run(tier):
    c = vlib.Check("C07", tier)
    vlib.build_harness()
    res = vlib.run_tlc("MC_Request", "MC_Request_%s.cfg" % tier, "C07/mc", workers=8, timeout=1200, collect_prints=False)
    vlib.expect_model_ok(res, "Request.tla")
    c.add_model("MC_Request/%s" % tier, res)
    ev, _ = sc.server_stage(c, "sizes,mixed", "sizes")
    sc.sample_round(c, ev, lambda e: e["len"] > 500)
    sc.sample_round(c, ev)
    c.rule = ("every request length 1016..1508 step 4 (+ unaligned neighbours of both bounds, 0, 4, 4096, 65507) for both protocols, nonces of "
              "every aligned length, full batches of 64 at maximum path depth, seeded truncated/extended/field-mutated/random datagrams, each "
              "followed by a sentinel request; batch sizes 64/1/7; distinct = abstract classes of arrivals and replies")
    c.assumptions = ["TLC 1.8", "loopback UDP delivers synchronously; kernel drops (rx queue empty) discard the round",
                     "request features and reply facts are computed by the interpretation I (reference codec, sha2, ed25519-dalek)",
                     "a request with a non-standard nonce length is 'may' (answering is allowed if not amplifying)"]
    return c.finish()


def replay(path):
    from lib import vlib
    return vlib.replay_file(path, run)
