"""Binding self-tests (DESIGN.md 4.4): corrupt one field / delete one event of a REAL recorded trace; the trace
specification must reject it."""
import copy
import glob
import json
import os
from lib import vlib


def stats_mutations(events):
    idx = [i for i, e in enumerate(events) if e.get("ev") == "rec" and e["post"]["getters"]["unique"] > 0]
    i = idx[len(idx) // 2]
    a = copy.deepcopy(events)
    a[i]["post"]["cnt"][a[i]["a"] - 1][a[i]["k"] - 1] += 1          # one counter one too high
    b = copy.deepcopy(events)
    j = [k for k in idx if events[k]["post"]["ovf"] == 0][3]
    del b[j]                                                           # one recording op not logged
    return [("field", a[:i + 40]), ("deleted", b[:j + 40])]


def server_mutations(events):
    idx = [i for i, e in enumerate(events) if e.get("ev") == "reply" and e["parse"] == "ok" and not e["greased"]]
    i = idx[len(idx) // 2]
    a = copy.deepcopy(events)
    a[i]["proof_reqs"] = []                                            # the proof binds nobody
    b = copy.deepcopy(events)
    del b[i]                                                           # one reply not observed
    c = copy.deepcopy(events)
    c[i]["len"] = 5000                                                 # longer than any request
    return [("field", a), ("deleted", b), ("length", c)]


def process_mutations(events):
    run = events[0]
    a = copy.deepcopy(run)
    w = a["threads"]["w1"]
    a["threads"]["w1"] = [e for e in w if e["ev"] != "w_ready"]        # a hook event missing
    b = copy.deepcopy(run)
    for e in b["threads"]["main"]:
        if e["ev"] == "m_spawn":
            e["i"] += 1                                                  # wrong worker index
            break
    c = copy.deepcopy(run)
    c["started"]["ready_workers"] -= 1                                 # an observation corrupted
    return [("hook_deleted", [a]), ("hook_field", [b]), ("observation", [c])]


def run_for(c):
    pid = c.pid
    if pid == "C17":
        t = vlib.workfile("C17", "trace.ndjson")
        vlib.binding_selftest(c, "Trace_Stats", "Trace_Stats.cfg", t, stats_mutations, "stats")
    elif pid == "C09":
        t = vlib.workfile("C09", "server_bursts.ndjson")
        vlib.binding_selftest(c, "Trace_Server", "Trace_Server.cfg", t, server_mutations, "server")
    elif pid == "C15":
        runs = sorted(glob.glob(os.path.join(vlib.WORK, "C15", "run_configs_1.json")))
        vlib.binding_selftest(c, "Trace_Process", "Trace_Process.cfg", runs[0], process_mutations, "process", single_object=True)
