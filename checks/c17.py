"""C17 - request statistics conserve events, stay bounded, and match the traffic served (Stats.tla).
Library part: recorders, queue, reporter. (The traffic wiring of a running Server is validated by the
in-process server suite and added to this check's evidence when that suite is present.)"""
import json
import os
from lib import vlib


def classify(e):
    ev = e.get("ev")
    if ev == "rec":
        region = "table-full" if e["post"]["getters"]["unique"] >= 1 and e["post"]["ovf"] > 0 else "normal"
        return "C17|rec|kind=%s|%s" % (e["k"], region), "recording op kind %s for address %s: logged post-state is not an allowed outcome of Stats.tla Rec (or getters/aggregated totals disagree)" % (e["k"], e["a"])
    if ev == "snapshot":
        return "C17|snapshot", "send_client_stats-style snapshot does not push exactly the tracked entries / leaves the recorder non-empty"
    if ev == "merge":
        return "C17|merge", "reporter merge does not preserve per-address sums of the popped snapshots"
    if ev == "report_file":
        return "C17|report_file", "the statistics file written by Reporter::report() does not hold the merged per-address sums"
    if ev == "panic":
        return "C17|panic", "recorder panicked"
    return "C17|invariant|%s" % ev, "an invariant of Stats.tla (Conservation/Bounded/UntrackedZero/MergePreserves) is false after this event"


CHUNK = 150000


def chunks_of(trace):
    """split an ndjson trace at section boundaries ("new" events) into pieces of at most CHUNK lines"""
    cur = []
    with open(trace) as f:
        for line in f:
            if line.startswith('{"ev":"new"') and len(cur) >= CHUNK:
                yield cur
                cur = []
            cur.append(line)
    if cur:
        yield cur


def decide(c, trace, tag):
    all_events = []
    any_bad = False
    for k, lines in enumerate(chunks_of(trace)):
        part = vlib.workfile("C17", "part_%s_%d.ndjson" % (tag.replace(">", ""), k))
        with open(part, "w") as f:
            f.writelines(lines)
        ok, verdict, tres = vlib.validate_trace("Trace_Stats", "Trace_Stats.cfg", part, "C17/trace_%s_%d" % (tag.replace(">", ""), k), timeout=3000, xmx="8g")
        c.add_model("Trace_Stats(%s, part %d)" % (tag, k), tres)
        if verdict.get("matched", len(lines)) != len(lines):
            raise vlib.ToolError("Trace_Stats did not consume the whole trace")
        c.evaluations += len(lines)
        bad = sorted(set(verdict.get("bad", []))) if not ok else []
        for idx in bad:
            e = json.loads(lines[idx - 1]) if 1 <= idx <= len(lines) else {"ev": "?"}
            key, what = classify(e)
            c.violation(key, what, {"direction": tag, "part": k, "event_index": idx, "event": e, "trace": part})
        any_bad = any_bad or bool(bad)
        if not bad:
            c.traces_validated += sum(1 for l in lines if l.startswith('{"ev":"new"'))
        if len(all_events) < 400000:
            all_events.extend(lines)
        os.remove(part)
    return all_events


def run(tier):
    c = vlib.Check("C17", tier)
    vlib.build_harness()
    beh = vlib.workfile("C17", "behaviours.ndjson")
    n = [0]
    with open(beh, "w") as f:
        def sink(o):
            f.write(json.dumps(o, separators=(",", ":")) + "\n")
            n[0] += 1
            if n[0] in (4000,):
                c.sample({"direction": "spec->code", "behaviour": o})
        res = vlib.run_tlc("MC_Stats", "MC_Stats_%s.cfg" % tier, "C17/mc", workers=12, timeout=3000, print_sink=sink, xmx="8g")
    vlib.expect_model_ok(res, "Stats.tla")
    c.add_model("MC_Stats/%s" % tier, res, {"FullMeansOverflow": False})
    # at most ~250,000 behaviours are executed (a seeded stride sample when the model yields more)
    if n[0] > 250000:
        stride = n[0] // 250000 + 1
        sampled = vlib.workfile("C17", "behaviours_sampled.ndjson")
        with open(beh) as fi, open(sampled, "w") as fo:
            for k, line in enumerate(fi):
                if (k + c.seed) % stride == 0:
                    fo.write(line)
        c.notes.append("spec->code: %d behaviours from TLC, every %d-th executed" % (n[0], stride))
        beh = sampled
    # unbounded-length argument (Apalache): Conservation / Bounded / UntrackedZero as an INDUCTIVE invariant of the recorder
    # (Init => IndInv; IndInv /\ Next => IndInv'); the double-counting recorder must violate it (self-test)
    if vlib.run_apalache("StatsInd.tla", "ConstInit", "Init", "IndInv", 0, "C17/apalache") != "ok":
        raise vlib.ToolError("StatsInd.tla: Init does not establish IndInv")
    if vlib.run_apalache("StatsInd.tla", "ConstInit", "IndInit", "IndInv", 1, "C17/apalache") != "ok":
        raise vlib.ToolError("StatsInd.tla: IndInv is not inductive")
    if vlib.run_apalache("StatsInd.tla", "ConstInitWrong", "IndInit", "IndInv", 1, "C17/apalache") != "violation":
        raise vlib.ToolError("StatsInd.tla self-test: the double-counting recorder should break the inductive invariant")
    c.models.append({"model": "StatsInd.tla (Apalache 0.58): IndInv (Conservation, Bounded, UntrackedZero) inductive for 4 addresses, limits 1..3, any number of events",
                     "obligations": 2, "discharged": 2, "self_test": "double-counting variant violates the step"})
    t1 = vlib.workfile("C17", "replay_trace.ndjson")
    out = vlib.run_harness(["stats", "replay", "--in", beh, "--out", t1], timeout=3000)
    c.behaviours_replayed = out[-1]["executions"] if out else 0
    decide(c, t1, "spec->code")
    t2 = vlib.workfile("C17", "trace.ndjson")
    vlib.run_harness(["stats", "record", "--seed", c.seed, "--tier", tier, "--out", t2], timeout=3000)
    ev = decide(c, t2, "code->spec")
    for l in ev:
        e = json.loads(l)
        if e.get("ev") == "rec":
            c.distinct.add("%s|%s|%s|%s" % (e["k"], e["a"], e["post"]["ovf"] > 0, e["post"]["getters"]["unique"]))
    c.sample({"direction": "code->spec", "event": json.loads(ev[5])})
    # traffic wiring of a real in-process Server (added by the server suite when built)
    try:
        from checks import servercommon
        servercommon.stats_wiring_stage(c)
    except ImportError:
        c.notes.append("server traffic wiring stage not available")
    from checks import proccommon
    proccommon.binary_stats_stage(c)
    c.rule = ("spec->code: one behaviour per transition of MC_Stats (8 recording ops x 3 addresses x workers, snapshot, merge, report; "
              "bounded-exhaustive) replayed on real recorders/queue/reporter with the projection logged after every op; code->spec: seeded "
              "sequences (one of 10,000 ops) over 8 addresses, limits 1..8, 1..3 workers; distinct = (kind, address, overflowing?, #tracked)")
    c.exhaustive = True
    c.assumptions = ["TLC 1.8", "property level: when the table is full an event for an already-tracked address may be counted or overflowed (code overflows)",
                     "snapshot op replicates Server::send_client_stats on library objects; force_push displacement is modelled (queue capacity) but sums are only required over popped snapshots"]
    if tier == "thorough":
        from checks import selftests
        selftests.run_for(c)
    return c.finish()


def replay(path):
    from lib import vlib
    return vlib.replay_file(path, run)
