"""C06 - wire codec decoding and printing untrusted bytes never panics, values are exactly the input (Wire.tla)."""
from checks import wirecommon


def run(tier):
    return wirecommon.run("C06", tier)


def replay(path):
    from lib import vlib
    return vlib.replay_file(path, run)
