"""C16 - effective settings equal the written ones (file or env), else start is refused (Config.tla).
TLC enumerates written configurations (valid base + boundary-grid edits, both sources); the harness probes
each through make_config + is_valid_config + getters using the DOCUMENTED variable names; TLC then decides
Allowed(written, outcome) for every probe (Trace_Config.tla). A second, seeded stream of multi-key
configurations is recorded and decided the same way."""
import json
from lib import vlib


def run(tier):
    c = vlib.Check("C16", tier)
    vlib.build_harness()
    work = vlib.workfile("C16", "probe")
    import os
    os.makedirs(work, exist_ok=True)
    cases = vlib.workfile("C16", "cases.ndjson")
    n = [0]
    with open(cases, "w") as f:
        def sink(o):
            f.write(json.dumps(o, separators=(",", ":")) + "\n")
            n[0] += 1
        res = vlib.run_tlc("MC_Config", "MC_Config_%s.cfg" % tier, "C16/mc", workers=8, timeout=900, print_sink=sink)
    vlib.expect_model_ok(res, "Config.tla")
    c.add_model("MC_Config/%s" % tier, res)

    def decide(trace, tag):
        ok, verdict, tres = vlib.validate_trace("Trace_Config", "Trace_Config.cfg", trace, "C16/trace_" + tag, timeout=900)
        c.add_model("Trace_Config(%s)" % tag, tres)
        events = [json.loads(l) for l in open(trace)]
        if verdict.get("matched", len(events)) != len(events):
            raise vlib.ToolError("Trace_Config did not consume the whole trace")
        c.evaluations += len(events)
        for e in events:
            w = e["w"]
            c.distinct.add(json.dumps([e["src"], w, e["o"]["running"]], sort_keys=True))
        bad = verdict.get("bad", []) if not ok else []
        for idx in bad:
            e = events[idx - 1]
            key = "C16|%s|%s|%s" % (e["src"], e["class"], e["hint"])
            c.violation(key, "configuration source '%s': %s (written %s -> outcome %s)" % (
                e["src"], e["hint"], {k: v for k, v in e["w"].items() if str(v) not in ("-999", "absent", "False", "ok")},
                {k: v for k, v in e["o"].items() if k in ("running", "port", "batch_size", "fault_percentage", "num_workers", "status_interval", "health_check_port")}),
                {"direction": tag, "event_index": idx, "event": e})
        if not bad:
            c.traces_validated += 1
        return events

    out = vlib.run_harness(["config", "replay", "--in", cases, "--workdir", work], timeout=900)
    probes = [r for r in out if r.get("rec") == "probe"]
    for r in probes:
        r.pop("rec")
    t1 = vlib.workfile("C16", "probes.ndjson")
    vlib.write_ndjson(t1, probes)
    c.behaviours_replayed = len(probes)
    ev = decide(t1, "spec->code")
    c.sample({"direction": "spec->code", "case": ev[min(40, len(ev) - 1)]})

    t2 = vlib.workfile("C16", "trace.ndjson")
    vlib.run_harness(["config", "record", "--seed", c.seed, "--tier", tier, "--out", t2, "--workdir", work], timeout=900)
    ev = decide(t2, "code->spec")
    c.sample({"direction": "code->spec", "event": ev[0]})
    # the value the server RUNS with: a running in-process Server must not sign batches larger than the configured batch_size
    from checks import servercommon as sc
    sc.server_stage(c, "batchcfg", "batchcfg")
    c.rule = ("spec->code: every Load transition of MC_Config (valid base + <= MaxEdits edits over an 18-value boundary grid for 6 integer keys, "
              "seed/interface/client_stats/persistence/unknown-key variations, file and env); code->spec: seeded multi-key configurations; "
              "distinct = (source, written, running?)")
    c.exhaustive = True
    c.assumptions = ["TLC 1.8", "environment variables are set under their documented names", "observed integers above 2e9 are reported as 2e9 (TLC ints are 32-bit)",
                     "refused = loader Err / panic / is_valid_config false; the probe does not start the server"]
    return c.finish()


def replay(path):
    from lib import vlib
    return vlib.replay_file(path, run)
