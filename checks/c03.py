"""C03 - own client accepts every honest response and prints its midpoint (Client.tla)."""
from checks import clientcommon


def run(tier):
    return clientcommon.run("C03", tier)


def replay(path):
    from lib import vlib
    return vlib.replay_file(path, run)
