"""C18 - under concurrent multi-worker load every request is answered once, validly (Process.tla + ServerAbs.tla)."""
from lib import vlib
from checks import proccommon as pc


def run(tier):
    c = vlib.Check("C18", tier)
    vlib.build_harness()
    for cfg in ("MC_Server_B2.cfg", "MC_Process_start3.cfg"):
        mod = "MC_Server" if "Server" in cfg else "MC_Process"
        res = vlib.run_tlc(mod, cfg, "C18/mc", workers=8, timeout=900, collect_prints=False)
        vlib.expect_model_ok(res, cfg)
        c.add_model(mod + "/" + cfg, res)
    # Cluster.tla: the kernel hands each datagram to any worker; every valid request is answered exactly once under the
    # single long-term identity; the dying-worker variant violates the liveness property (self-test)
    cfg = "MC_Cluster_quick.cfg" if tier == "quick" else "MC_Cluster.cfg"
    res = vlib.run_tlc("Cluster", cfg, "C18/mc_cluster", workers=8, timeout=1800, collect_prints=False)
    vlib.expect_model_ok(res, "Cluster.tla")
    c.add_model("Cluster/" + cfg, res)
    m = vlib.run_tlc("Cluster", "MC_Cluster_dies.cfg", "C18/mc_cluster_selftest", workers=8, timeout=600, collect_prints=False)
    if not m.violated:
        raise vlib.ToolError("Cluster.tla self-test: dying workers should violate EveryoneAnswered")
    pc.run_scenarios(c, pc.c18_scenarios(tier, c.seed), "load")
    c.rule = ("code->spec: the real server binary with num_workers {1,2,4,16} (thorough {1,2,4,8,16}) and 4..64 concurrent closed-loop reference clients of "
              "mixed protocols plus bursts from 24 sockets; every request is a round of Trace_Server (exactly one reply, verified under the single long-term "
              "key), hook logs validated against Process.tla, no worker dies, no panic output")
    c.assumptions = ["TLC 1.8", "OS scheduling and SO_REUSEPORT distribution are sampled (seeded rounds), exhaustive only in the models",
                     "a reply is awaited for 1.5 s; loopback UDP loss under this load is not expected (a lost reply would be reported as no_reply_to_valid)"]
    return c.finish()


def replay(path):
    from lib import vlib
    return vlib.replay_file(path, run)
