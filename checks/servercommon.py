"""Shared stages of the in-process Server checks. The Rust harness (rvh server record --driver ...)
puts traffic on a REAL roughenough Server and writes the observation trace; TLC validates it against
the property-level specification (Trace_Server.tla -> ServerAbs.tla, Request.tla) and returns, for each
event the specification does not allow, the reason. Each property attributes its own reasons."""
import json
from lib import vlib

REASONS = {
    "C02": {"malformed_response", "bad_framing", "cert_invalid", "srep_sig_invalid", "midpoint_outside_delegation", "version_fields",
            "proof_invalid", "proof_for_other_request", "nonce_not_echoed", "fault_rate", "fault_not_per_response", "unsolicited", "wrong_protocol",
            "path_length_differs_under_one_root", "path_too_short_for_batch", "batch_larger_than_configured"},
    "C07": {"amplification", "reply_to_malformed"},
    "C08": {"panic", "wedged", "no_reply_to_valid"},
    "C09": {"no_reply_to_valid", "duplicate_reply", "to_wrong_sender", "proof_for_other_request", "nonce_not_echoed", "wrong_protocol",
            "protocols_mixed_under_one_root", "unsolicited", "reply_to_malformed"},
    "C10": {"cert_invalid", "cert_context_not_separated", "midpoint_outside_delegation", "announced_key"},
    "C11": {"midpoint_not_clock", "radius"},
    "C12": {"reply_to_malformed", "no_reply_to_valid", "version_fields"},
    "C16": {"batch_larger_than_configured"},
    "C17": {"stats_valid_requests", "stats_invalid_requests", "stats_responses", "stats_bytes", "stats_failed_sends", "stats_publication"},
    "C20": {"leak", "leak_in_log"},
}


def context_of(events, idx):
    """section header and the round around event idx (1-based)"""
    i = idx - 1
    sec = None
    for j in range(i, -1, -1):
        if events[j].get("ev") == "new":
            sec = events[j]
            break
    start = i
    for j in range(i, -1, -1):
        if events[j].get("ev") in ("round", "new"):
            start = j
            break
    end = i
    for j in range(i, min(len(events), i + 400)):
        end = j
        if events[j].get("ev") == "round_end":
            break
    rnd = events[start:end + 1]
    if len(rnd) > 60:
        rnd = rnd[:30] + [{"...": "%d events omitted" % (len(rnd) - 60)}] + rnd[-30:]
    return sec, rnd


def server_stage(c, drivers, tag, inp=None, timeout=2400, extra_key=None):
    """run drivers, validate, attribute reasons of property c.pid; returns (events, summary)"""
    trace = vlib.workfile(c.pid, "server_%s.ndjson" % tag)
    args = ["server", "record", "--driver", drivers, "--seed", c.seed, "--tier", c.tier, "--out", trace]
    if inp:
        args += ["--in", inp]
    out = vlib.run_harness(args, timeout=timeout)
    summary = out[-1] if out else {}
    ok, verdict, tres = vlib.validate_trace("Trace_Server", "Trace_Server.cfg", trace, "%s/trace_%s" % (c.pid, tag), timeout=timeout, xmx="8g")
    c.add_model("Trace_Server(%s)" % drivers, tres)
    events = [json.loads(l) for l in open(trace)]
    if verdict.get("matched", len(events)) != len(events):
        raise vlib.ToolError("Trace_Server did not consume the whole trace (%s of %s)" % (verdict.get("matched"), len(events)))
    if summary.get("rounds", 0) and summary.get("dropped_rounds", 0) * 5 > summary.get("rounds", 0):
        raise vlib.ToolError("too many rounds discarded because the kernel dropped datagrams")
    c.evaluations += sum(1 for e in events if e.get("ev") in ("arrive", "reply", "log", "hc_round"))
    c.behaviours_replayed += summary.get("replayed", 0)
    mine = REASONS[c.pid]
    hits = 0
    others = set()
    for b in (verdict.get("bad", []) if not ok else []):
        why = set(b["why"])
        for r in sorted(why & mine):
            hits += 1
            sec, rnd = context_of(events, b["i"])
            key = "%s|server|%s" % (c.pid, r)
            if extra_key:
                key += "|" + extra_key(sec, events[b["i"] - 1], r)
            c.violation(key, "in-process Server: %s (batch_size=%s fault=%s level=%s; driver %s)" % (
                r, (sec or {}).get("batch"), (sec or {}).get("fault"), (sec or {}).get("level"), drivers),
                {"direction": "code->spec", "reason": r, "event_index": b["i"], "event": events[b["i"] - 1], "section": sec, "round": rnd, "trace": trace})
        others |= (why - mine)
    if others:
        c.notes.append("reasons reported by Trace_Server that belong to other properties (not judged here): %s" % sorted(others))
    sections = sum(1 for e in events if e.get("ev") == "new")
    if hits == 0:
        c.traces_validated += sections
    for e in events:
        if e.get("ev") == "arrive":
            f = e["f"]
            c.distinct.add("a|%s|%s|%s|%s|%s|%s" % (min(f["len"], 1504) // 64, f["magic"], f["dec"], f["noncelen"], f["srv"], len(f["ver"])))
        elif e.get("ev") == "reply":
            c.distinct.add("r|%s|%s|%s|%s|%s" % (e["v"], e["parse"], e["pathlen"], e["greased"], e["len"] // 64))
    c.notes.append("driver %s: %s" % (drivers, json.dumps(summary)))
    return events, summary


def sample_round(c, events, pred=None):
    for i, e in enumerate(events):
        if e.get("ev") == "reply" and (pred is None or pred(e)):
            sec, rnd = context_of(events, i + 1)
            c.sample({"direction": "code->spec", "section": sec, "round": rnd[:14]})
            return


def stats_wiring_stage(c):
    """C17: traffic wiring of a running Server's recorder (both recorder kinds)"""
    # spec->code: Server.tla with the recorder wired into the loop and the kind "U" (valid request whose response cannot be
    # sent): StatsConserve / StatsResponses / StatsSettled / StatsAreTraffic model-checked; every arrival schedule replayed
    sched = vlib.workfile(c.pid, "wiring_schedules.ndjson")
    with open(sched, "w") as f:
        res = vlib.run_tlc("MC_Server", "MC_Server_U2.cfg", "%s/mc_srv" % c.pid, workers=8, timeout=1800,
                           print_sink=lambda o: f.write(json.dumps(o) + "\n"))
    vlib.expect_model_ok(res, "Server.tla (statistics wiring, unroutable sources)")
    c.add_model("MC_Server/U2 (StatsConserve, StatsResponses, StatsSettled, StatsAreTraffic)", res)
    m = vlib.run_tlc("MC_Server", "MC_Server_pinned_stats.cfg", "%s/mc_srv_selftest" % c.pid, workers=4, timeout=300, collect_prints=False)
    if m.violated != "StatsResponses":
        raise vlib.ToolError("Server.tla self-test: a failure flag that outlives its response should violate StatsResponses")
    c.notes.append("Server.tla self-test: StaleFailFlag=TRUE violates StatsResponses")
    server_stage(c, "interleavings", "wiring_sched", inp=sched)
    events, _ = server_stage(c, "stats,mixed", "wiring")
    for e in events:
        if e.get("ev") == "stats":
            c.sample({"direction": "code->spec", "stats_event": e})
            break
