"""C04 - Merkle inclusion proofs complete and binding; tree reuse.
Stages: (1) TLC model-checks Merkle.tla (object = definition, Complete, Binding, ResetClean) and
emits one behaviour per batch-completing transition; (2) every behaviour is replayed on the real
MerkleTree, both profiles, three leaf-data maps, comparing root and every path with the
interpretation of the specification's terms; (3) the real object is driven for all n = 1..255,
pairs and sequences of batch sizes; its observations, abstracted to node ids, are validated by
TLC against Trace_Merkle.tla."""
import json
from lib import vlib


def run(tier):
    c = vlib.Check("C04", tier)
    vlib.build_harness()
    cfg = "MC_Merkle_%s.cfg" % tier
    beh_path = vlib.workfile("C04", "behaviours.ndjson")
    n_beh = [0]
    with open(beh_path, "w") as f:
        def sink(o):
            f.write(json.dumps(o) + "\n")
            n_beh[0] += 1
            if n_beh[0] in (5, 200):
                c.sample({"direction": "spec->code", "behaviour": o["hist"]})
        res = vlib.run_tlc("MC_Merkle", cfg, "C04/mc", workers=8, timeout=1500, print_sink=sink)
    vlib.expect_model_ok(res, "Merkle.tla (%s)" % cfg)
    c.add_model("Merkle/" + cfg, res)

    out = vlib.run_harness(["merkle", "replay", "--in", beh_path], timeout=1500)
    execs = 0
    for r in out:
        if r.get("rec") == "summary":
            execs = r["executions"]
            c.notes.append("implementation hash profiles (node width, root width): G=%s I=%s" % (r["prof_G"], r["prof_I"]))
        elif r.get("rec") == "mismatch":
            key = "C04|replay|%s|%s" % (r["proto"], r["what"].split("(")[0])
            c.violation(key, "MerkleTree deviates from Merkle.tla: %s (profile %s, step %d)" % (r["what"], r["proto"], r["step"]), r)
    c.behaviours_replayed = execs
    for _ in range(n_beh[0]):
        pass
    c.evaluations += execs

    trace = vlib.workfile("C04", "trace.ndjson")
    out = vlib.run_harness(["merkle", "record", "--seed", c.seed, "--tier", tier, "--out", trace], timeout=1500)
    batches = out[-1]["batches"] if out else 0
    ok, verdict, tres = vlib.validate_trace("Trace_Merkle", "Trace_Merkle.cfg", trace, "C04/trace", timeout=1500)
    c.add_model("Trace_Merkle", tres)
    events = [json.loads(l) for l in open(trace)]
    shapes = set()
    for e in events:
        if e.get("ev") == "batch":
            shapes.add((e.get("n"), e.get("distinct"), e.get("rootlen")))
    for s in shapes:
        c.distinct.add(str(s))
    c.evaluations += batches
    if ok:
        c.traces_validated += sum(1 for e in events if e.get("ev") == "new")
    else:
        bad = events[verdict["matched"]] if verdict["matched"] < len(events) else {}
        brief = {k: v for k, v in bad.items() if k != "paths"}
        what = []
        for k in ("rootok", "aligned", "selfverify", "iverify"):
            if bad.get(k) is False:
                what.append(k + "=false")
        if bad.get("bindhits", 0):
            what.append("binding broken")
        if "panic" in bad:
            what.append("panic")
        if not what:
            what.append("path ids differ from RefPath")
        key = "C04|trace|" + ",".join(what)
        c.violation(key, "MerkleTree batch of %s leaves rejected by Trace_Merkle: %s" % (bad.get("n"), ", ".join(what)),
                    {"first_unmatched_event_index": verdict["matched"], "event": brief,
                     "paths_head": bad.get("paths", [])[:4], "trace": trace})
    c.sample({"direction": "code->spec", "event": {k: v for k, v in events[1].items() if k != "paths"},
              "paths_head": events[1].get("paths", [])[:3]})
    c.rule = ("spec->code: one behaviour per batch-completing transition of Merkle.tla x 2 profiles x 3 data maps; "
              "code->spec: batches on real objects (all n 1..255 up and down, grid pairs, random sequences); "
              "distinct = distinct (n, leaves-distinct?, root length) shapes")
    c.exhaustive = True
    c.assumptions = ["TLC 1.8", "sha2 crate (SHA-512) in the interpretation", "symbolic hashing: collisions out of model",
                     "node/root widths of each profile are calibrated from the implementation (protocol widths are C02's subject)"]
    return c.finish()


def replay(path):
    from lib import vlib
    return vlib.replay_file(path, run)
