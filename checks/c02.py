"""C02 - every server response verifies under an independent spec-derived verifier (ServerAbs.tla + interpretation I)."""
from lib import vlib
from checks import servercommon as sc


def run(tier):
    c = vlib.Check("C02", tier)
    vlib.build_harness()
    res = vlib.run_tlc("MC_Merkle", "MC_Merkle_quick.cfg", "C02/mc", workers=8, timeout=900, collect_prints=False)
    vlib.expect_model_ok(res, "Merkle.tla (tree definition used by the verifier)")
    c.add_model("MC_Merkle/quick (definition of root/path the independent verifier implements)", res)
    res = vlib.run_tlc("Grease", "MC_Grease.cfg", "C02/mc_grease", workers=4, timeout=600, collect_prints=False)
    vlib.expect_model_ok(res, "Grease.tla (Dichotomy over all 720 tag permutations and the corrupted signature)")
    c.add_model("Grease (Dichotomy)", res)
    ev, _ = sc.server_stage(c, "bursts,mixed", "bursts")
    sc.sample_round(c, ev, lambda e: e["pathlen"] >= 3 and e["v"] == "I")
    ev2, _ = sc.server_stage(c, "grease", "grease")
    sc.sample_round(c, ev2, lambda e: e["greased"])
    if tier == "thorough":
        vlib.build_repo_bins()
        from checks import proccommon
        proccommon.binary_reply_stage(c)
    c.rule = ("code->spec: consecutive rounds on long-running in-process servers with batch_size 1..64 (quick: 10 sizes), bursts of 1..100 mixed "
              "classic/IETF requests of sizes 1024..1500 with and without SRV, every reply verified by the independent verifier (protocol hash width "
              "at every node, leaf = nonce / whole request, context strings, framing, VER/VERS, nonce echo) and decided by TLC; fault injection at "
              "p in {10,50} (thorough {1,10,25,50}) with >= 2000 replies each and the 6-sigma acceptance region evaluated by TLC")
    c.assumptions = ["TLC 1.8", "ed25519-dalek and sha2 as cryptographic oracles of the interpretation I",
                     "6-sigma acceptance region: statistical, false alarm probability ~2e-9 per section"]
    return c.finish()


def replay(path):
    from lib import vlib
    return vlib.replay_file(path, run)
