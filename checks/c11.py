"""C11 - signed midpoint is the server clock in the protocol's unit with a 5 s radius (Clock.tla; live bracket via ServerAbs.tla)."""
import json
from lib import vlib
from checks import servercommon as sc


def decide(c, trace, tag):
    ok, verdict, tres = vlib.validate_trace("Trace_Clock", "Trace_Clock.cfg", trace, "C11/trace_" + tag, timeout=1800, xmx="6g")
    c.add_model("Trace_Clock(%s)" % tag, tres)
    lines = open(trace).read().splitlines()
    if verdict.get("matched", len(lines)) != len(lines):
        raise vlib.ToolError("Trace_Clock did not consume the whole trace")
    c.evaluations += len(lines)
    for idx in (verdict.get("bad", []) if not ok else []):
        e = json.loads(lines[idx - 1])
        kind = "panic" if e["panic"] else ("midpoint" if e["sig_ok"] and e["root_ok"] else "signed_response")
        if e["radi"] not in (5, 5000000) or (e["v"] == "G") != (e["radi"] == 5000000):
            kind = "radius"
        big = "secs>=2^32" if e["s"][0] * 1000000 + e["s"][1] >= 2 ** 32 else "secs<2^32"
        c.violation("C11|make_srep|%s|%s|%s" % (kind, e["v"], big), "make_srep at clock %s.%09d (%s): signed MIDP digits %s / RADI %s are not the clock in the protocol's unit" % (
            e["s"], e["ns"], e["v"], e["midp"], e["radi"]), {"direction": tag, "event": e})
    if ok:
        c.traces_validated += 1
    for l in lines[:4000]:
        e = json.loads(l)
        c.distinct.add("%s|%s|%s" % (e["v"], e["s"][0] // 1000, e["ns"] % 1000 == 0))
    return lines


def run(tier):
    c = vlib.Check("C11", tier)
    vlib.build_harness()
    cases = vlib.workfile("C11", "cases.ndjson")
    n = [0]
    with open(cases, "w") as f:
        def sink(o):
            f.write(json.dumps(o, separators=(",", ":")) + "\n")
            n[0] += 1
            if n[0] == 17:
                c.sample({"direction": "spec->code", "case": o})
        res = vlib.run_tlc("MC_Clock", "MC_Clock.cfg", "C11/mc", workers=4, timeout=600, print_sink=sink)
    vlib.expect_model_ok(res, "Clock.tla")
    c.add_model("MC_Clock", res)
    t1 = vlib.workfile("C11", "replay_trace.ndjson")
    out = vlib.run_harness(["clock", "replay", "--in", cases, "--out", t1])
    c.behaviours_replayed = out[-1]["executions"]
    decide(c, t1, "spec->code")
    t2 = vlib.workfile("C11", "trace.ndjson")
    vlib.run_harness(["clock", "record", "--seed", c.seed, "--tier", tier, "--out", t2])
    lines = decide(c, t2, "code->spec")
    c.sample({"direction": "code->spec", "event": json.loads(lines[3])})
    ev, _ = sc.server_stage(c, "mixed,bursts,slowdrain", "live")
    sc.sample_round(c, ev)
    c.rule = ("spec->code: 13 boundary second values (0, 1, 10^6 boundaries, 2^31, 2^32, year 2200, 2262, 9999, ...) x 10 nanosecond values x 2 "
              "protocols through OnlineKey::make_srep; code->spec: 12,000 (thorough 100,000) seeded clocks from the epoch to year 9999; live: every "
              "reply of running in-process servers bracketed by harness clock readings (t_before - RADI <= MIDP <= t_after + RADI in the protocol's unit)")
    c.exhaustive = True
    c.assumptions = ["TLC 1.8 (32-bit integers: 64-bit values as base-10^6 digit tuples, converted by the harness)", "harness and server read the same system clock"]
    return c.finish()


def replay(path):
    from lib import vlib
    return vlib.replay_file(path, run)
