"""C09 - exactly one response per accepted request, to its sender, for its own nonce (Server.tla => ServerAbs.tla)."""
import json
from lib import vlib
from checks import servercommon as sc


def run(tier):
    c = vlib.Check("C09", tier)
    vlib.build_harness()
    beh = vlib.workfile("C09", "interleavings.ndjson")
    n = [0]
    with open(beh, "w") as f:
        def sink(o):
            f.write(json.dumps(o, separators=(",", ":")) + "\n")
            n[0] += 1
            if n[0] in (7, 300):
                c.sample({"direction": "spec->code", "arrival_schedule": o})
        cfgs = ["MC_Server_B1.cfg", "MC_Server_B2.cfg", "MC_Server_B3.cfg"] if tier == "quick" else ["MC_Server_B1.cfg", "MC_Server_B2.cfg", "MC_Server_B3.cfg", "MC_Server_T2.cfg", "MC_Server_T3.cfg"]
        for cfg in cfgs:
            res = vlib.run_tlc("MC_Server", cfg, "C09/mc", workers=12, timeout=3000, print_sink=sink, xmx="8g")
            vlib.expect_model_ok(res, "Server.tla (%s)" % cfg)
            c.add_model("MC_Server/" + cfg, res)
    # self-test of the specification: the variant that leaves the drain loop on an empty batch must strand datagrams
    mut = vlib.run_tlc("MC_Server", "MC_Server_mutant.cfg", "C09/mc_mutant", workers=8, timeout=600, collect_prints=False)
    if mut.violated != "NoStranded":
        raise vlib.ToolError("Server.tla self-test: the stranding variant was not detected (got %s)" % mut.violated)
    c.notes.append("Server.tla self-test: DrainExitsOnEmptyBatch=TRUE violates NoStranded as expected")
    ev, _ = sc.server_stage(c, "interleavings", "interleavings", inp=beh)
    ev2, _ = sc.server_stage(c, "bursts,mixed", "bursts")
    sc.sample_round(c, ev2, lambda e: e["pathlen"] >= 2)
    c.rule = ("spec->code: every arrival schedule of Server.tla that runs MaxArr datagrams over {valid classic, valid IETF, invalid} to quiescence "
              "(batch sizes 1..3; arrivals before poll, after the k-th recv, after a WouldBlock), replayed through the hook tracer; code->spec: "
              "bursts smaller/equal/larger than the batch from 48 sockets, several requests per socket, identical nonces, invalid datagrams, late "
              "arrivals injected during collection, batch sizes 1..64; distinct = abstract classes of arrivals and replies")
    c.exhaustive = True
    c.assumptions = ["TLC 1.8", "arrival points are reproduced at hook events inside collect_requests (synchronous tracer)", "loopback UDP delivers synchronously",
                     "reply facts computed by the interpretation I"]
    if tier == "thorough":
        from checks import selftests
        selftests.run_for(c)
    return c.finish()


def replay(path):
    from lib import vlib
    return vlib.replay_file(path, run)
