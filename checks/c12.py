"""C12 - IETF requests answered iff they name a supported version and this server (Request.tla)."""
import json
from lib import vlib
from checks import servercommon as sc


def run(tier):
    c = vlib.Check("C12", tier)
    vlib.build_harness()
    cases = vlib.workfile("C12", "versions.ndjson")
    n = [0]
    with open(cases, "w") as f:
        def sink(o):
            f.write(json.dumps(o, separators=(",", ":")) + "\n")
            n[0] += 1
            if n[0] in (100, 9000):
                c.sample({"direction": "spec->code", "case": o})
        res = vlib.run_tlc("MC_Request", "MC_Request_%s.cfg" % tier, "C12/mc", workers=8, timeout=1200, print_sink=sink)
        vlib.expect_model_ok(res, "Request.tla")
        c.add_model("MC_Request/%s" % tier, res)
        if n[0] != 16383:
            raise vlib.ToolError("expected 16383 version-list cases from MC_Request, got %d" % n[0])
        # adversarial unknown version numbers: neighbouring entries that contain the draft-13 bytes across their boundary,
        # the number without its top bit, the byte-swapped number
        res2 = vlib.run_tlc("MC_Request", "MC_Request_adv_%s.cfg" % tier, "C12/mc2", workers=8, timeout=1200, print_sink=sink)
        vlib.expect_model_ok(res2, "Request.tla (adversarial version numbers)")
        c.add_model("MC_Request_adv/%s" % tier, res2)
        want = {"quick": 16383 + 3 * 820, "thorough": 16383 + 3 * 11111}[tier]
        if n[0] != want:
            raise vlib.ToolError("expected %d version-list cases in all, got %d" % (want, n[0]))
    ev, _ = sc.server_stage(c, "versions,srv,mixed", "versions", inp=cases)
    sc.sample_round(c, ev)
    c.rule = ("spec->code: all 5461 VER lists of length 0..6 over {draft-13, classic 0, two unknown numbers} x SRV {absent, this server's, "
              "another server's} = 16383 framed requests, each followed by a sentinel; all lists of length 0..3 (thorough: 0..4) over draft-13 and eight "
              "adversarial unknown numbers (neighbours containing the draft-13 bytes across their boundary, top bit cleared, byte-swapped); plus, for the minimal list, SRV under each of the 256 "
              "single-bit corruptions, lengths {0,4,28,36,64} and another server's value; TLC classifies every arrival (must/mustnot/may) and "
              "checks reply presence and the signed VER/VERS fields")
    c.exhaustive = True
    c.assumptions = ["TLC 1.8", "draft-13 beyond the fourth VER entry is 'may'", "reply facts and request features computed by the interpretation I"]
    return c.finish()


def replay(path):
    from lib import vlib
    return vlib.replay_file(path, run)
