"""Process-level stages: the REAL roughenough-server binary (hooks on) run by the harness for a list of
scenarios; each run's per-thread hook logs and outside observations are validated by TLC against Process.tla
(Trace_Process.tla, one cursor per thread) and the client-side observations against ServerAbs.tla
(Trace_Server.tla)."""
import json
import os
from lib import vlib, proctrace
from checks import servercommon as sc

PROC_REASONS = {
    "C15": {"not_all_workers_serving", "keeps_running_degraded", "health_check_unanswered", "time_service_interrupted", "panic_output",
            "died_without_signal", "hook_trace_not_a_behaviour", "announced_key"},
    "C18": {"keeps_running_degraded", "panic_output", "died_without_signal", "hook_trace_not_a_behaviour", "not_all_workers_serving", "announced_key"},
    "C19": {"exit_not_prompt", "exit_status", "panic_output", "hook_trace_not_a_behaviour"},
    "C20": {"leak_in_output"},
    "C17": {"stats_files_mismatch", "panic_output", "hook_trace_not_a_behaviour", "exit_status", "exit_not_prompt"},
    "C02": set(),
}
SRV_REASONS = {
    "C15": {"no_reply_to_valid"},
    "C18": {"no_reply_to_valid", "duplicate_reply", "to_wrong_sender", "malformed_response", "bad_framing", "cert_invalid", "srep_sig_invalid",
            "midpoint_outside_delegation", "version_fields", "proof_invalid", "proof_for_other_request", "nonce_not_echoed", "wrong_protocol",
            "reply_to_malformed", "amplification", "cert_context_not_separated", "midpoint_not_clock", "radius", "announced_key"},
    "C19": {"malformed_response", "bad_framing", "cert_invalid", "srep_sig_invalid", "proof_invalid", "nonce_not_echoed", "wrong_protocol", "duplicate_reply"},
    "C20": {"leak"},
    "C17": {"no_reply_to_valid"},
    "C02": sc.REASONS["C02"],
}


def _run_once(c, scenarios, tag, timeout=3000, collect=None):
    vlib.build_repo_bins()
    work = vlib.workfile(c.pid, "proc")
    os.makedirs(work, exist_ok=True)
    scen_path = vlib.workfile(c.pid, "scenarios_%s.ndjson" % tag)
    vlib.write_ndjson(scen_path, scenarios)
    prefix = vlib.workfile(c.pid, "obs_%s" % tag)
    out = vlib.run_harness(["proc", "run", "--in", scen_path, "--out", prefix, "--server", vlib.SERVER_BIN, "--workdir", work, "--seed", c.seed], timeout=timeout)
    summary = out[-1] if out else {}
    c.notes.append("process scenarios (%s): %s" % (tag, json.dumps(summary)))
    runs = proctrace.split_runs(prefix + ".proc.ndjson")
    if len(runs) != len(scenarios):
        raise vlib.ToolError("harness reported %d runs for %d scenarios" % (len(runs), len(scenarios)))
    mine = PROC_REASONS.get(c.pid, set())
    bad_runs = 0
    for k, r in enumerate(runs):
        if r["scenario"].get("fd_exhaust_then_connect"):
            # with its file descriptors exhausted the process cannot open the hook files of threads that emit for the first
            # time afterwards (the signal thread): the hook logs of such a run are incomplete by construction and are not
            # validated; the outside observations (exit status, promptness, panic output) are
            for t in r["threads"]:
                r["threads"][t] = []
        p = vlib.workfile(c.pid, "run_%s_%d.json" % (tag, k))
        with open(p, "w") as f:
            f.write(json.dumps({kk: v for kk, v in r.items() if kk not in ("scenario", "other_threads")}) + "\n")
        ok, verdict, tres = vlib.validate_trace("Trace_Process", "Trace_Process.cfg", p, "%s/tp_%s_%d" % (c.pid, tag, k), timeout=300, xmx="3g")
        c.states += tres.distinct
        c.transitions += tres.generated
        c.evaluations += 1
        sig = r["scenario"].get("signal") or {}
        c.distinct.add("%s|%s|%s|%s|%s|%s" % (r["meta"]["n"], r["meta"]["hc"], r["meta"]["client_stats"], r["meta"]["source"], sig.get("mode"), sig.get("sig")))
        why = set(verdict.get("why", [])) if not ok else set()
        hit = sorted(why & mine)
        for reason in hit:
            cfgsig = "n=%s,hc=%s,cs=%s" % ("1" if r["meta"]["n"] == 1 else ">1", r["meta"]["hc"], r["meta"]["client_stats"])
            if sig:
                cfgsig += ",sig@%s" % sig.get("mode")
            collect.append((r["meta"]["id"], "proc", reason, "%s|process|%s|%s" % (c.pid, reason, cfgsig),
                            "server binary, scenario %s: %s" % (r["meta"]["id"], reason),
                            {"direction": "code->spec", "reason": reason, "scenario": r["scenario"], "observations": {kk: r.get(kk) for kk in ("started", "served", "hc", "final", "exit")},
                             "threads": r["threads"], "verdict": verdict}))
        if hit:
            bad_runs += 1
        else:
            c.traces_validated += 1
        if k == 0:
            c.sample({"direction": "code->spec", "scenario": r["scenario"], "observations": {kk: r.get(kk) for kk in ("started", "served", "hc", "final", "exit")},
                      "main_thread_log": r["threads"]["main"][:12], "w1_log": r["threads"].get("w1", [])[:8]})
    c.models.append({"model": "Trace_Process x %d runs (%s)" % (len(runs), tag), "rejected_for_this_property": bad_runs})
    # client-side observations of all runs
    srv = prefix + ".srv.ndjson"
    if os.path.getsize(srv) > 0:
        ok, verdict, tres = vlib.validate_trace("Trace_Server", "Trace_Server.cfg", srv, "%s/ts_%s" % (c.pid, tag), timeout=timeout, xmx="8g")
        c.add_model("Trace_Server(binary, %s)" % tag, tres)
        events = [json.loads(l) for l in open(srv)]
        if verdict.get("matched", len(events)) != len(events):
            raise vlib.ToolError("Trace_Server did not consume the binary's observation trace")
        smine = SRV_REASONS.get(c.pid, set())
        for b in (verdict.get("bad", []) if not ok else []):
            for reason in sorted(set(b["why"]) & smine):
                sec, rnd = sc.context_of(events, b["i"])
                collect.append(((sec or {}).get("scenario"), "srv", reason, "%s|binary|%s" % (c.pid, reason), "server binary (scenario %s): %s" % ((sec or {}).get("scenario"), reason),
                                {"direction": "code->spec", "reason": reason, "event_index": b["i"], "event": events[b["i"] - 1], "section": sec, "round": rnd[:40]}))
        c.evaluations += sum(1 for e in events if e.get("ev") == "reply")
    return runs


# deviations that a slow or busy machine, a lost datagram or a port clash can also produce: these are re-run before being reported
ENV_SENSITIVE = {"stats_files_mismatch", "exit_not_prompt", "no_reply_to_valid", "health_check_unanswered", "time_service_interrupted", "not_all_workers_serving",
                 "died_without_signal", "announced_key", "exit_status"}


def run_scenarios(c, scenarios, tag, timeout=3000):
    """Runs the scenarios; a deviation is reported only if it shows again when the scenario is run again on its own
    (up to two confirmation runs): processes, ports, timers and the scheduler are an environment that can hiccup, and a
    genuine deviation of the code reproduces."""
    found = []
    runs = _run_once(c, scenarios, tag, timeout, found)
    by_scen = {}
    for f in found:
        if f[2] not in ENV_SENSITIVE:
            # a reply that fails verification, a duplicate, panic output, a worker that died: never an environment artefact
            c.violation(f[3], f[4], f[5])
        else:
            by_scen.setdefault(f[0], []).append(f)
    for sid, items in by_scen.items():
        sc_def = [s for s in scenarios if s["id"] == sid]
        if not sc_def:
            for f in items:
                c.violation(f[3], f[4], f[5])
            continue
        confirmed = set()
        for attempt in range(2):
            again = []
            saved = (c.states, c.transitions, c.evaluations, c.traces_validated, list(c.samples), list(c.models), list(c.notes))
            c.seed += 1000 * (attempt + 1)
            _run_once(c, sc_def, "%s_confirm%d" % (tag, attempt), timeout, again)
            c.seed -= 1000 * (attempt + 1)
            c.states, c.transitions, c.evaluations, c.traces_validated = saved[0], saved[1], saved[2], saved[3]
            c.samples, c.models, c.notes = saved[4], saved[5], saved[6]
            confirmed |= set((a[1], a[2]) for a in again)
            if all((f[1], f[2]) in confirmed for f in items):
                break
        for f in items:
            if (f[1], f[2]) in confirmed:
                c.violation(f[3], f[4], f[5])
            else:
                c.notes.append("scenario %s: '%s' was observed once but did not reproduce in 2 confirmation runs; not reported (environment)" % (sid, f[2]))
    return runs


def scen(idx, **kw):
    d = {"id": "s%03d" % idx}
    d.update(kw)
    return d


def c15_scenarios(tier, seed):
    import random
    rnd = random.Random(seed)
    out = [scen(0, example_cfg=True, example_path=os.path.join(vlib.REPO, "example.cfg"), hc_conns=8, observe_ms=150)]
    workers = [1, 2, 3, 4, 8, 16] if tier == "quick" else list(range(1, 17))
    batches, faults, intervals = [1, 2, 63, 64], [0, 1, 50], [1, 10, 600]
    n = 11 if tier == "quick" else 120
    for i in range(n):
        w = workers[i % len(workers)] if tier == "quick" else rnd.choice(workers)
        hc = (i % 2 == 0)
        out.append(scen(i + 1, num_workers=w, health_check=hc, hc_conns=(rnd.choice([1, 3, 8, 20]) if hc else None), hc_reset=(4 if hc and i % 4 == 0 else None), batch_size=batches[(i // 2) % 4],
                        fault_percentage=faults[i % 3], status_interval=intervals[(i // 3) % 3], client_stats=(i % 4 in (1, 2)),
                        source=("env" if i % 3 == 1 else "file"), probe_socks=32, probe_rounds=2, observe_ms=100, spread_probe=True,
                        # the process is suspended and resumed (job control, a container freeze, a debugger attaching): the workers'
                        # waits are interrupted; every worker must still be there and answer afterwards
                        stalled_bursts=([[40, "mix"], [24, "I"]] if i % 3 == 0 else None),
                        # not the first life of this installation: the server ran twice before with the same configuration file /
                        # variables, persistence directory and working directory, and was stopped with SIGTERM
                        previous_runs=(2 if i % 4 == 1 else (1 if i % 4 == 0 else None))))
    # many simultaneous health-check connections on few listeners (more than one wake-up's worth per worker)
    out.append(scen(800, num_workers=1, health_check=True, hc_conns=48, probe_socks=8, probe_rounds=1))
    out.append(scen(801, num_workers=2, health_check=True, hc_conns=90, probe_socks=8, probe_rounds=1))
    # default number of workers (one per CPU) with a health check, from the environment
    out.append(scen(900, health_check=True, hc_conns=4, source="env", probe_socks=32, probe_rounds=2, spread_probe=True))
    return [{k: v for k, v in s.items() if v is not None} for s in out]


def c19_scenarios(tier, seed):
    import random
    rnd = random.Random(seed)
    out = []
    i = 0
    combos = []
    for mode in ("idle", "load", "flood"):
        for sig in ("TERM", "INT"):
            for w in ([1, 4] if tier == "quick" else [1, 4, 16]):
                for cs in (False, True):
                    combos.append((mode, sig, w, cs))
    if tier == "quick":
        combos = [cb for k, cb in enumerate(combos) if k % 2 == (seed % 2)] + [("flood", "TERM", 1, False), ("flood", "INT", 1, True)]
    nflood = 0
    for (mode, sig, w, cs) in combos:
        delays = [rnd.choice([0, 20, 80, 250, 600])] if tier == "quick" else [0, 30, 120, 400, 900]
        for d in delays:
            s = scen(i, num_workers=w, client_stats=cs, probe_socks=16, probe_rounds=1,
                     signal={"sig": sig, "mode": mode, "delay_ms": d + (150 if mode != "idle" else 0), "limit_ms": 5000, "senders": 3})
            if mode in ("load", "load_quiet"):
                s["load"] = {"clients": 8, "requests": 400}
            if mode == "flood":
                # what floods the port: requests the server answers, only datagrams it refuses (random bytes, well-formed
                # messages with a nonce of the wrong length), or both
                s["signal"]["flood_kind"] = ["valid", "junk", "mixed"][nflood % 3]
                # batch sizes that do not divide 1 024 as well (a per-wake-up bound counted in datagrams must still fire), and
                # enough senders that every worker's queue stays non-empty
                s["batch_size"] = [3, 64, 10, 64][(nflood // 3) % 4] if nflood % 3 == 0 else [64, 7][nflood % 2]
                s["signal"]["senders"] = min(12, max(4, 3 * w))
                nflood += 1
            out.append(s)
            i += 1
    # the statistics hand-off under load: short status interval (workers publish every status_interval/10), reporter on,
    # signal while traffic is sustained
    for k, (w, sig) in enumerate([(1, "TERM"), (2, "INT")] if tier == "quick" else [(1, "TERM"), (2, "INT"), (4, "TERM"), (1, "INT")]):
        out.append(scen(500 + k, num_workers=w, client_stats=True, status_interval=1, probe_socks=8, probe_rounds=1, load={"clients": 6, "requests": 4000},
                        signal={"sig": sig, "mode": "load_quiet", "delay_ms": 3500, "limit_ms": 5000}))
    # schedules the scheduler rarely produces, made by delay injection at hook events: a reporter pass that outlasts the
    # one-second cadence (r_received = after the merge, r_reported = after a report was written), a signal that arrives while
    # workers still queue for the start-up lock (w_lock = holding it)
    dl = [("r_received:1300", 1, "TERM", 2600, {}), ("r_reported:1150", 2, "INT", 2400, {"status_interval": 1}),
          ("w_lock:300", 4, "TERM", 450, {}), ("r_pass:1050,w_ready:120", 2, "INT", 1500, {})]
    if tier != "quick":
        dl += [("r_received:2500", 4, "INT", 4000, {}), ("w_lock:200,w_unlock:200", 8, "TERM", 900, {}), ("m_spawn:150", 4, "INT", 300, {})]
    for k, (delays, w, sig, at, extra) in enumerate(dl):
        out.append(scen(700 + k, num_workers=w, client_stats=True, probe_socks=8, probe_rounds=1, delays=delays, load={"clients": 4, "requests": 200},
                        signal={"sig": sig, "mode": "load", "delay_ms": at, "limit_ms": 6000}, **extra))
    # health-check connections that only connect and read (they send nothing), more that are opened and held silent through
    # the signal
    out.append(scen(730, num_workers=2, health_check=True, hc_conns=3, hc_hold=3, probe_socks=8, probe_rounds=1,
                    signal={"sig": "INT", "mode": "idle", "delay_ms": 300, "limit_ms": 5000}))
    # a server that has been completely idle for a long time when the signal comes (an idle back-off of the poll timeout
    # would have grown to many seconds by then)
    out.append(scen(740, num_workers=2, probe_socks=8, probe_rounds=1, signal={"sig": "INT", "mode": "idle", "delay_ms": 13600, "limit_ms": 5000}))
    # the smallest status interval the configuration accepts (0 s): the reporter is due at every pass
    out.append(scen(720, num_workers=2, client_stats=True, status_interval=0, probe_socks=8, probe_rounds=1, load={"clients": 4, "requests": 100},
                    signal={"sig": "TERM", "mode": "load", "delay_ms": 1500, "limit_ms": 5000}))
    # resource fault: file descriptors exhausted when health-check connections arrive, then the signal
    for k, (w, sig) in enumerate([(1, "TERM"), (4, "INT")]):
        out.append(scen(600 + k, num_workers=w, health_check=True, probe_socks=8, probe_rounds=1, fd_exhaust_then_connect=3,
                        signal={"sig": sig, "mode": "idle", "delay_ms": 200, "limit_ms": 5000}))
    return out


def c18_scenarios(tier, seed):
    out = []
    i = 0
    ws = [1, 2, 4, 16] if tier == "quick" else [1, 2, 4, 8, 16]
    cl = [4, 32] if tier == "quick" else [1, 8, 32, 64]
    for w in ws:
        for cnum in cl:
            # consecutive bursts large enough that every worker signs several multi-request batches one after another
            out.append(scen(i, num_workers=w, probe_socks=max(24, 8 * w), probe_rounds=3, spread_probe=True, load={"clients": cnum, "requests": 25 if tier == "quick" else 60},
                            batch_size=[64, 4, 1][i % 3], client_stats=(i % 4 == 3),
                            # the workers' other duties run alongside: every second configuration has the TCP health-check
                            # listeners (one per worker, sharing one port like the UDP sockets) and connections arriving on them
                            health_check=(True if i % 2 == 1 else None), hc_conns=(6 if i % 2 == 1 else None), hc_reset=(5 if i % 4 == 1 else None),
                            # ... and the statistics timers firing often: a status interval of 1 s instead of the default ten minutes
                            # (not 0 s: every worker then publishes continuously, and the hook trace of a run that a broken server
                            # drags out grows without bound - C19's scenario 720 covers that setting in a run of a few seconds)
                            status_interval=(1 if i % 3 == 2 else None)))
            i += 1
    # stalled bursts: full batches wait for the workers (all of one protocol, and mixed), several in a row
    for k, (w, b) in enumerate([(1, 64), (2, 64), (1, 7)] if tier == "quick" else [(1, 64), (2, 64), (4, 64), (1, 7), (1, 33), (16, 64)]):
        out.append(scen(100 + k, num_workers=w, batch_size=b, probe_socks=8, probe_rounds=1,
                        # (at most 72 datagrams per burst: more could overflow one socket's default receive buffer)
                        stalled_bursts=[[72, "G"], [72, "I"], [72, "mix"], [40, "I"], [66, "G"]], client_stats=(k % 2 == 1)))
    return [{k: v for k, v in s.items() if v is not None} for s in out]


def binary_stats_stage(c):
    """C17 end to end on the real binary: known traffic, the workers' status timers, the queue, the reporter thread and the
    files it writes; the decoded column sums must be the traffic (decided by Trace_Process.tla)"""
    # status_interval 10: the shortest interval at which nothing can be dropped on the way (exact sums demanded);
    # status_interval 1: snapshots may be dropped by force_push (the files may hold less than the traffic, never more)
    scs = [scen(0, num_workers=1, client_stats=True, status_interval=10, probe=False, stats_audit=True),
           scen(1, num_workers=3, client_stats=True, status_interval=1, probe=False, stats_audit=True, batch_size=4)]
    if c.tier == "thorough":
        scs += [scen(2, num_workers=8, client_stats=True, status_interval=10, probe=False, stats_audit=True, source="env"),
                scen(3, num_workers=2, client_stats=True, status_interval=12, probe=False, stats_audit=True, fault_percentage=0, batch_size=1),
                scen(4, num_workers=2, client_stats=True, status_interval=3, probe=False, stats_audit=True)]
    run_scenarios(c, scs, "audit")


def binary_reply_stage(c):
    scs = [scen(0, num_workers=4, batch_size=64, probe_socks=60, probe_rounds=6, load={"clients": 32, "requests": 40}),
           scen(1, num_workers=2, batch_size=3, probe_socks=60, probe_rounds=6, load={"clients": 16, "requests": 40}, source="env"),
           scen(2, num_workers=2, batch_size=16, fault_percentage=50, probe_socks=40, probe_rounds=4)]
    run_scenarios(c, scs, "binary")


def binary_leak_stage(c, full=True):
    if not full:
        scs = [scen(0, num_workers=2, probe_socks=12, probe_rounds=1, source="file", fault_percentage=50, health_check=True, hc_conns=1,
                    signal={"sig": "TERM", "mode": "idle", "delay_ms": 50}),
               scen(1, num_workers=1, probe_socks=12, probe_rounds=1, source="env", client_stats=True, status_interval=1,
                    seed="9d61b19deffd5a60ba844af492ec2cc44449c5697b326919703bac031cae7f60", signal={"sig": "INT", "mode": "idle", "delay_ms": 1300})]
        run_scenarios(c, scs, "leak")
        return
    scs = [scen(0, num_workers=2, probe_socks=20, probe_rounds=2, source="file", fault_percentage=50, client_stats=True, signal={"sig": "TERM", "mode": "idle", "delay_ms": 1200}),
           scen(1, num_workers=2, probe_socks=20, probe_rounds=2, source="env", health_check=True, hc_conns=2, signal={"sig": "INT", "mode": "idle", "delay_ms": 100}),
           scen(2, num_workers=1, probe_socks=10, probe_rounds=1, seed="9d61b19deffd5a60ba844af492ec2cc44449c5697b326919703bac031cae7f60")]
    run_scenarios(c, scs, "leak")


def client_vs_real_server_stage(c):
    from checks import clientcommon
    work = vlib.workfile(c.pid, "proc")
    os.makedirs(work, exist_ok=True)
    t = vlib.workfile(c.pid, "real_trace.ndjson")
    out = vlib.run_harness(["client", "real", "--out", t, "--client", vlib.CLIENT_BIN, "--server", vlib.SERVER_BIN, "--workdir", work, "--seed", c.seed, "--tier", c.tier], timeout=2400)
    c.notes.append("real client vs real server through the recording relay: %s" % json.dumps(out[-1] if out else {}))
    clientcommon.decide(c, t, "real-server")
