"""C14 - envelope-encrypted seed: round-trips, detects tampering, leaks nothing (Envelope.tla)."""
from lib import vlib


def case_sig(case, ops):
    w = case["W"]
    wl = "W<32" if w < 32 else "W>=32"
    if not ops and case["fault"] == "none":
        return "intact|" + wl
    if case["fault"] != "none":
        return "fault=" + case["fault"]
    o = ops[0]
    return "%s|%s" % (o["k"], wl)


def run(tier):
    c = vlib.Check("C14", tier)
    vlib.build_harness()

    def mkey(r):
        return "C14|%s|%s" % (r["kind"], case_sig(r["case"], r["ops_applied"])), "EnvelopeEncryption deviates from Envelope.tla: " + r["what"]

    vlib.stage_model_and_replay(c, "envelope", "MC_Envelope", "MC_Envelope_%s.cfg" % tier, mkey, sample_at=(2, 900))

    def classify(e):
        if e["leak_seed"] or e["leak_dek"]:
            return "C14|leak", "blob contains the seed or the data key"
        kind = "panic" if e["result"] == "panic" else ("tamper_undetected" if e["result"] in ("seed", "other") and (e["ops"] or e["fault"] != "none") else
                                                       ("round_trip_fails" if not e["ops"] and e["fault"] == "none" else "other"))
        return "C14|%s|%s" % (kind, case_sig(e, e["ops"])), "recorded encrypt/tamper/decrypt round rejected by Trace_Envelope: result=%s ops=%s fault=%s W=%d P=%d" % (
            e["result"], e["ops"], e["fault"], e["W"], e["P"])

    vlib.stage_record_and_validate(c, "envelope", "Trace_Envelope", "Trace_Envelope.cfg", classify, section_ev="round",
                                   distinct_of=lambda e: (min(e["W"], 64), e["auth"], e["fault"], tuple(o["k"] for o in e["ops"]), e["result"]),
                                   sample_pred=lambda e: len(e["ops"]) == 2)
    c.traces_validated = 1 if c.traces_validated else 0
    c.rule = ("spec->code: every decrypt transition of MC_Envelope (wrapped lengths x plaintext lengths x provider kind x "
              "{each header bit/value, each (quick: boundary, thorough: every) byte position, truncations, extensions, provider faults}); "
              "code->spec: seeded random rounds with wrapped lengths 16..1024, plaintext 32..64, 1-2 tamper ops; "
              "distinct = (W class, provider, fault, op kinds, result)")
    c.exhaustive = True
    c.assumptions = ["TLC 1.8", "AEAD and key wrap are symbolic: they open only on exactly the produced cells with the produced key",
                     "harness providers are injective on the wrapped bytes (handle table / XOR mask); seed and DEK leak = raw byte scan"]
    return c.finish()


def replay(path):
    from lib import vlib
    return vlib.replay_file(path, run)
