"""C01 and C03 share one pipeline around the REAL roughenough-client binary (Client.tla / Trace_Client.tla)."""
import json
from lib import vlib

REASONS = {
    "C01": {"accepted_unauthentic", "time_printed_for_unauthentic_response", "exit_0_after_unauthentic_response", "verified_flag", "nonce_reused", "nonce_shape"},
    "C03": {"honest_rejected", "wrong_time_printed", "client_sent_fewer_requests", "verified_flag", "client_request_malformed"},
}


def decide(c, trace, tag):
    ok, verdict, tres = vlib.validate_trace("Trace_Client", "Trace_Client.cfg", trace, "%s/trace_%s" % (c.pid, tag), timeout=2400, xmx="6g")
    c.add_model("Trace_Client(%s)" % tag, tres)
    events = [json.loads(l) for l in open(trace)]
    if verdict.get("matched", len(events)) != len(events):
        raise vlib.ToolError("Trace_Client did not consume the whole trace")
    c.evaluations += len(events)
    mine = REASONS[c.pid]
    hits = 0
    for b in (verdict.get("bad", []) if not ok else []):
        e = events[b["i"] - 1]
        for r in sorted(set(b["why"]) & mine):
            hits += 1
            what = e.get("kind", "nonces")
            detail = ""
            if e.get("ev") == "run":
                f = e["served"][0] if e["served"] else {}
                failing = [k for k in ("parse_ok", "dele_sig_ok", "srep_sig_ok", "window_ok", "proof_ok") if f.get(k) is False]
                detail = "%s/%s/%s" % (e["v"], "key" if e["key"] != "none" else "nokey", "+".join(failing) or "all-conditions-hold")
                if e.get("kind") == "recipe":
                    detail += ""
            key = "%s|client|%s|%s|%s" % (c.pid, r, what, detail)
            c.violation(key, "roughenough-client: %s (%s, %s)" % (r, what, detail), {"direction": tag, "reason": r, "event_index": b["i"], "event": e})
    if hits == 0:
        c.traces_validated += sum(1 for e in events if e.get("ev") == "run")
    for e in events:
        if e.get("ev") == "run":
            f = e["served"][0] if e["served"] else {}
            c.distinct.add("%s|%s|%s|%s|%s|%s" % (e["kind"], e["v"], e["key"], e["exit"], json.dumps(e["extra"].get("region", "")), [f.get(k) for k in ("parse_ok", "dele_sig_ok", "srep_sig_ok", "window_ok", "proof_ok")]))
    return events


def run(pid, tier):
    c = vlib.Check(pid, tier)
    vlib.build_harness()
    vlib.build_repo_bins()
    recipes = vlib.workfile(pid, "recipes.ndjson")
    n = [0]
    with open(recipes, "w") as f:
        def sink(o):
            f.write(json.dumps(o, separators=(",", ":")) + "\n")
            n[0] += 1
            if n[0] in (30, 5000):
                c.sample({"direction": "spec->code", "recipe": o})
        res = vlib.run_tlc("MC_Client", "MC_Client_%s.cfg" % tier, pid + "/mc", workers=12, timeout=3000, print_sink=sink, xmx="8g")
    vlib.expect_model_ok(res, "Client.tla")
    c.add_model("MC_Client/%s" % tier, res, {"SigFailureIsFatal": True, "IetfLeafIsRequest": True})
    # the specification's own self-test: the two historical client defects are counterexamples of the model
    for cfg, inv in (("MC_Client_pinned1.cfg", "Sound"), ("MC_Client_pinned2.cfg", "Complete")):
        m = vlib.run_tlc("MC_Client", cfg, pid + "/mc_selftest", workers=8, timeout=900, collect_prints=False)
        if m.violated != inv:
            raise vlib.ToolError("Client.tla self-test %s: expected %s to be violated, got %s" % (cfg, inv, m.violated))
    t1 = vlib.workfile(pid, "replay_trace.ndjson")
    out = vlib.run_harness(["client", "replay", "--in", recipes, "--out", t1, "--client", vlib.CLIENT_BIN, "--seed", c.seed, "--tier", tier], timeout=3000)
    s = out[-1] if out else {}
    c.behaviours_replayed = s.get("executions", 0)
    if s.get("concretisation_disagreements", 0):
        c.drift.append("%d recipes whose concrete datagram the interpretation judges differently from the symbolic model" % s["concretisation_disagreements"])
    c.notes.append("spec->code: %s" % json.dumps(s))
    decide(c, t1, "spec->code")
    t2 = vlib.workfile(pid, "trace.ndjson")
    out = vlib.run_harness(["client", "record", "--out", t2, "--client", vlib.CLIENT_BIN, "--seed", c.seed, "--tier", tier], timeout=7200)
    c.notes.append("code->spec: %s" % json.dumps(out[-1] if out else {}))
    ev = decide(c, t2, "code->spec")
    for e in ev:
        if e.get("ev") == "run" and e["kind"] in ("byte-forgery", "honest"):
            c.sample({"direction": "code->spec", "event": e})
            break
    if pid == "C03":
        from checks import proccommon
        proccommon.client_vs_real_server_stage(c)
    c.rule = ("spec->code: every response recipe of Client.tla within 1 component substitution of the honest response (x 2 versions x 3 key options) and a "
              "seeded sample of 700 (thorough 6000) at distance 2-3, concretised on the request the real client sent; code->spec: honest reference "
              "responder over batch shapes (n,i) up to 64 and 9 midpoint classes (epoch .. year 9999), single-byte forgeries in every listed region "
              "(first/middle/last byte; thorough every byte), replays within a multi-request run and across processes, truncations, extensions, random "
              "mutations, full re-signing by another key, cross-protocol splices; freshness over all nonces observed; distinct = (kind, version, key, exit, region, facts)")
    c.assumptions = ["TLC 1.8", "ed25519-dalek / sha2 inside the interpretation; symbolic crypto in Client.tla (no forgery, no collision)",
                     "authenticity is judged on the content a client extracts (framing length / trailing bytes are not among the property's conditions)",
                     "freshness = no duplicates among observed nonces (entropy is not measured)"]
    return c.finish()
