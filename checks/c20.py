"""C20 - the long-term seed never appears in anything the server emits (ServerAbs.tla leak facts)."""
from lib import vlib
from checks import servercommon as sc


def run(tier):
    c = vlib.Check("C20", tier)
    vlib.build_harness()
    ev, _ = sc.server_stage(c, "leak,cfgleak,mixed", "leak")
    logs = [e for e in ev if e.get("ev") == "log"]
    sites = sorted(set(e["site"] for e in logs))
    c.notes.append("log records captured: %d from %d emission sites: %s" % (len(logs), len(sites), sites[:40]))
    if logs:
        c.sample({"direction": "code->spec", "log_event": logs[0]})
    sc.sample_round(c, ev)
    # the real binary's own output (start-up banner, configuration display, shutdown) and datagrams, file and env sources
    from checks import proccommon
    proccommon.binary_leak_stage(c, full=(tier == "thorough"))
    c.rule = ("code->spec: for several seeds x every log level Off..Trace x fault_percentage {0,50}: valid, invalid and fault-injected traffic on an "
              "in-process server with a capturing logger; every datagram and every formatted log record scanned for the seed, SHA-512(seed)[0..32] and "
              "the clamped private scalar in raw, lower/upper hex and base64 (standard and url-safe) forms; the scan result is a fact, TLC rejects any "
              "event carrying it")
    c.assumptions = ["TLC 1.8", "byte scan over emitted datagrams and log text; degenerate (low-variety) seeds are not searched in raw form"]
    return c.finish()


def replay(path):
    from lib import vlib
    return vlib.replay_file(path, run)
