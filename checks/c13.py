"""C13 - incremental signer/verifier equal one-shot RFC 8032 Ed25519, no carry-over (Signer.tla)."""
from lib import vlib


def run(tier):
    c = vlib.Check("C13", tier)
    vlib.build_harness()

    def mkey(r):
        w = r["what"]
        kind = "panic" if w.startswith("panic") else ("signature" if "signature" in w else ("public_key" if "public_key" in w else "verifier"))
        return "C13|replay|" + kind, "MsgSigner/MsgVerifier deviates from Signer.tla: " + w

    vlib.stage_model_and_replay(c, "signer", "MC_Signer", "MC_Signer_%s.cfg" % tier, mkey)

    def classify(e):
        if e["ev"] == "sign":
            if e.get("panic"):
                return "C13|trace|sign-panic", "sign() panicked"
            if e["covers"] == "J":
                return "C13|trace|sign-covers-nothing-known", "signature does not verify over any candidate chunk range"
            if not e.get("equal_oneshot"):
                return "C13|trace|carry-over", "signature covers chunks %s.. instead of only the chunks fed since the previous sign()" % (e["covers"][:1],)
            return "C13|trace|sign-other", "sign event rejected"
        if e["ev"] == "verify":
            return "C13|trace|verify-%s" % e["case"], "MsgVerifier says %s, direct Ed25519 verification says %s (%s)" % (e["impl"], e["oracle"], e["case"])
        return "C13|trace|other", "event rejected"

    vlib.stage_record_and_validate(c, "signer", "Trace_Signer", "Trace_Signer.cfg", classify,
                                   distinct_of=lambda e: (e["ev"], e.get("len"), e.get("case")) if e["ev"] in ("sign", "verify") else None,
                                   sample_pred=lambda e: e["ev"] == "sign")
    c.rule = ("spec->code: every sign/verify-completing behaviour of Signer.tla (ops <= MaxOps over 3 chunk ids incl. the empty chunk) "
              "x 4 chunk-size maps x 3 seeds; code->spec: every message length 0..4096 dealt over signer objects, random chunkings, "
              ">= 32 messages per signer; verifier on valid triples and single-bit flips; distinct = (event, length, case)")
    c.exhaustive = True
    c.assumptions = ["TLC 1.8", "ed25519-dalek one-shot sign/verify as the RFC 8032 oracle (checked against RFC 8032 vectors at start)",
                     "a panic inside MsgVerifier counts as 'does not accept'"]
    return c.finish()


def replay(path):
    from lib import vlib
    return vlib.replay_file(path, run)
