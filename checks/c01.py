"""C01 - client never reports an unauthentic response as verified (Client.tla)."""
from checks import clientcommon


def run(tier):
    return clientcommon.run("C01", tier)


def replay(path):
    print(open(path).read())
    return 0
