"""C01 - client never reports an unauthentic response as verified (Client.tla)."""
from checks import clientcommon


def run(tier):
    return clientcommon.run("C01", tier)


def replay(path):
    from lib import vlib
    return vlib.replay_file(path, run)
