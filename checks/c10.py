"""C10 - server identity is a pure function of the seed and certifies every online key (ServerAbs.tla, Crypto.tla)."""
from lib import vlib
from checks import servercommon as sc


def run(tier):
    c = vlib.Check("C10", tier)
    vlib.build_harness()
    res = vlib.run_tlc("MC_Identity", "MC_Identity.cfg", "C10/mc", workers=4, timeout=900, collect_prints=False)
    vlib.expect_model_ok(res, "Identity.tla")
    c.add_model("MC_Identity", res)
    ev, _ = sc.server_stage(c, "seeds,mixed", "seeds")
    keys = set()
    for e in ev:
        if e.get("ev") == "reply":
            keys.add(e.get("key_id"))
    c.notes.append("distinct online keys observed in certificates: %d" % len(keys))
    sc.sample_round(c, ev)
    out = vlib.run_harness(["identity", "record", "--seed", c.seed, "--tier", tier, "--out", vlib.workfile("C10", "identity.ndjson")], timeout=900)
    for r in out:
        if r.get("rec") == "mismatch":
            c.violation("C10|identity|%s" % r["kind"], "LongTermKey: %s" % r["what"], r)
        elif r.get("rec") == "summary":
            c.evaluations += r["executions"]
            c.notes.append("LongTermKey probes: %s" % r)
    c.rule = ("code->spec: in-process servers started with RFC 8032 vector seeds, all-zero, all-0xff and seeded random seeds, each seed started "
              "repeatedly and interleaved with other seeds in one process; announced key compared with ed25519-dalek's public key of the seed; every "
              "CERT on the wire checked under that key with the protocol's delegation context and NOT under the other protocol's; LongTermKey "
              "public_key/srv_value/make_cert probed directly for every seed")
    c.assumptions = ["TLC 1.8", "ed25519-dalek / sha2 as oracles for PK(seed) and SHA-512"]
    return c.finish()


def replay(path):
    from lib import vlib
    return vlib.replay_file(path, run)
