"""C15 - every documented in-range configuration yields a fully serving server (Process.tla)."""
from lib import vlib
from checks import proccommon as pc

MODELS = [("MC_Process_start3.cfg", None), ("MC_Process_start2nohc.cfg", None)]
SELFTESTS = [("MC_Process_pinned_hc.cfg", "temporal"), ("MC_Process_pinned_hc2.cfg", "temporal")]


def run(tier):
    c = vlib.Check("C15", tier)
    vlib.build_harness()
    for cfg, _ in MODELS:
        res = vlib.run_tlc("MC_Process", cfg, "C15/mc", workers=8, timeout=900, collect_prints=False)
        vlib.expect_model_ok(res, "Process.tla (%s)" % cfg)
        c.add_model("MC_Process/" + cfg, res)
    for cfg, want in SELFTESTS:
        m = vlib.run_tlc("MC_Process", cfg, "C15/mc_selftest", workers=4, timeout=300, collect_prints=False)
        if not m.violated:
            raise vlib.ToolError("Process.tla self-test %s: the plain-bind health listener should violate the start-up properties" % cfg)
    c.notes.append("Process.tla self-test: HcReusePort=FALSE violates FullyServing and NeverKeepsRunningDegraded (the historical defect)")
    res = vlib.run_tlc("MC_Server", "MC_Server_B2.cfg", "C15/mc_srv", workers=8, timeout=900, collect_prints=False)
    vlib.expect_model_ok(res, "Server.tla")
    c.add_model("MC_Server/B2 (worker keeps serving)", res)
    # health-check listener: Health.tla (edge-triggered accept loop), schedules replayed into an in-process Server
    import json
    sched = vlib.workfile("C15", "health_schedules.ndjson")
    with open(sched, "w") as f:
        res = vlib.run_tlc("MC_Health", "MC_Health_loop.cfg", "C15/mc_health", workers=4, timeout=600,
                           print_sink=lambda o: f.write(json.dumps(o) + "\n"))
    vlib.expect_model_ok(res, "Health.tla (accept until WouldBlock)")
    c.add_model("MC_Health/loop (NoStrandedConn, HcLive)", res)
    for cfg in ("MC_Health_one.cfg", "MC_Health_bounded.cfg", "MC_Health_abort.cfg"):
        m = vlib.run_tlc("MC_Health", cfg, "C15/mc_health_selftest", workers=4, timeout=300, collect_prints=False)
        if m.violated != "NoStrandedConn":
            raise vlib.ToolError("Health.tla self-test %s: a single or bounded accept per edge, or a loop ended by a reset connection, should strand connections" % cfg)
    from checks import servercommon as sc
    sc.REASONS["C15"] = {"health_check_unanswered", "no_reply_to_valid", "panic", "wedged"}
    sc.server_stage(c, "health", "health", inp=sched)
    pc.run_scenarios(c, pc.c15_scenarios(tier, c.seed), "configs")
    c.rule = ("code->spec: the real server binary started for the repository's example.cfg, a default-worker-count configuration and a sample of the "
              "documented option space (quick: 11, thorough: 120 of num_workers 1..16 x health check x batch_size {1,2,63,64} x fault_percentage {0,1,50} x "
              "status_interval {1,10,600} x client_stats x file/env); per run: per-thread hook logs validated against Process.tla with one cursor per "
              "thread, N workers serving (hooks + /proc thread names), bursts answered, k simultaneous TCP health connections each reading the fixed 200 "
              "response while time requests are answered, no panic output, process alive; distinct = (N, hc, client_stats, source, signal) classes")
    c.assumptions = ["TLC 1.8", "thread schedules and kernel socket distribution of the real process are sampled, exhaustive only in the model (N<=3)",
                     "free UDP/TCP ports are picked by binding port 0 first (small race); example.cfg uses its fixed ports 8686/8000"]
    if tier == "thorough":
        from checks import selftests
        selftests.run_for(c)
    return c.finish()


def replay(path):
    from lib import vlib
    return vlib.replay_file(path, run)
