"""Turns the harness's per-scenario process observations (<prefix>.proc.ndjson) into one JSON object per run
for Trace_Process.tla: per-thread hook logs (main, sig, rep, w1..wN) plus the outside observations."""
import json


def split_runs(path):
    runs = []
    cur = None
    for line in open(path):
        e = json.loads(line)
        if e.get("ev") == "meta":
            cur = {"meta": {"n": e["n"], "hc": e["hc"], "client_stats": e["client_stats"], "id": e["id"], "source": e["source"]},
                   "scenario": e.get("scenario", {}), "threads": {"main": [], "sig": [], "rep": []}, "other_threads": {}}
            for w in range(1, e["n"] + 1):
                cur["threads"]["w%d" % w] = []
        elif cur is None:
            continue
        elif e.get("ev") == "end":
            runs.append(cur)
            cur = None
        elif e.get("hook"):
            t = e.get("t", "")
            ev = {k: v for k, v in e.items() if k not in ("hook", "t")}
            if t == "main":
                cur["threads"]["main"].append(ev)
            elif t == "ctrl-c":
                cur["threads"]["sig"].append(ev)
            elif t == "stats-reporting":
                cur["threads"]["rep"].append(ev)
            elif t.startswith("worker-") and t[7:].isdigit() and int(t[7:]) + 1 <= cur["meta"]["n"]:
                cur["threads"]["w%d" % (int(t[7:]) + 1)].append(ev)
            else:
                cur["other_threads"].setdefault(t, []).append(ev)
        else:
            cur[e["ev"]] = {k: v for k, v in e.items() if k != "ev"}
    return runs
