"""Shared machinery for the /verif checks: building, running TLC, running the Rust
harness, trace validation, evidence, known findings, violation reporting.

Exit-code contract (see DESIGN.md section 5):
  0  property held on everything explored (KNOWN-FINDING lines allowed)
  1  a VIOLATION line was printed (replay file written)
  2  tool error / timeout / environment problem (never a verdict about the code)
"""
import hashlib
import json
import os
import re
import shutil
import subprocess
import sys
import time

VERIF = os.path.dirname(os.path.dirname(os.path.abspath(__file__)))
REPO = os.environ.get("VERIF_REPO", "/repo")
SPEC = os.path.join(VERIF, "spec")
BUILD = os.path.join(VERIF, ".build")
WORK = os.path.join(VERIF, ".work")
REPLAYS = os.path.join(VERIF, "replays")
EVIDENCE = os.path.join(VERIF, "evidence")
HARNESS_DIR = os.path.join(VERIF, "harness")
# Instance mode (a tool for mutation testing, never used by the registered commands): with VERIF_INSTANCE=<name> and
# VERIF_REPO=<scratch copy of the repository> everything a run writes goes under /tmp/verif_inst/<name>/{build,work},
# and the harness is built from a copy of harness/ whose path dependency points at VERIF_REPO, so that several trees can be
# checked side by side without touching /repo, /verif/evidence or /verif/replays.
INSTANCE = os.environ.get("VERIF_INSTANCE")
if INSTANCE:
    INST_ROOT = os.environ.get("VERIF_INSTANCE_ROOT", "/tmp/verif_inst")      # scratch: outside /repo and /verif
    BUILD = os.path.join(INST_ROOT, INSTANCE, "build")
    WORK = os.path.join(INST_ROOT, INSTANCE, "work")
    REPLAYS = os.path.join(WORK, "replays")
    EVIDENCE = os.path.join(WORK, "evidence")
    HARNESS_SRC = HARNESS_DIR
    HARNESS_DIR = os.path.join(BUILD, "hsrc")
RVH = os.path.join(BUILD, "harness", "debug", "rvh")
REPO_TARGET = os.path.join(BUILD, "repo")
SERVER_BIN = os.path.join(REPO_TARGET, "debug", "roughenough-server")
CLIENT_BIN = os.path.join(REPO_TARGET, "debug", "roughenough-client")
TLA_CP = "/opt/veriftools/tla/tla2tools.jar:/opt/veriftools/tla/CommunityModules-deps.jar"
GUARD = "roughenough_verif"


class ToolError(Exception):
    pass


class HangDetected(Exception):
    """A call into the code under test did not return within the harness's limit (record printed by the watchdog), or
    panicked in the repository's code outside any call the harness wraps (record "unguarded_panic")."""
    def __init__(self, record, args):
        Exception.__init__(self, "code under test did not return: %s" % json.dumps(record))
        self.record = record
        self.harness_args = [str(a) for a in args]


def log(*a):
    print("[verif]", *a, file=sys.stderr, flush=True)


def seed():
    try:
        return int(os.environ.get("VERIF_SEED", "1"))
    except ValueError:
        return 1


# --------------------------------------------------------------------------------------
# building

def _cargo_env():
    env = dict(os.environ)
    env["CARGO_NET_OFFLINE"] = "true"
    env["RUST_BACKTRACE"] = "0"
    env.pop("RUSTFLAGS", None)
    return env


def _write_if_changed(path, text):
    if not os.path.exists(path) or open(path).read() != text:
        with open(path, "w") as f:
            f.write(text)


def build_harness():
    """(Re)build the harness and, through its path dependency, /repo's library with hooks."""
    t0 = time.time()
    if INSTANCE:
        os.makedirs(os.path.join(HARNESS_DIR, ".cargo"), exist_ok=True)
        subprocess.run(["rsync", "-a", "--delete", os.path.join(HARNESS_SRC, "src") + "/", os.path.join(HARNESS_DIR, "src") + "/"], check=True)
        toml = open(os.path.join(HARNESS_SRC, "Cargo.toml")).read().replace('path = "/repo"', 'path = "%s"' % REPO)
        _write_if_changed(os.path.join(HARNESS_DIR, "Cargo.toml"), toml)
        cfg = open(os.path.join(HARNESS_SRC, ".cargo", "config.toml")).read().replace('"../.build/harness"', '"%s"' % os.path.join(BUILD, "harness"))
        _write_if_changed(os.path.join(HARNESS_DIR, ".cargo", "config.toml"), cfg)
    lock = os.path.join(HARNESS_DIR, "Cargo.lock")
    if not os.path.exists(lock):
        src_lock = os.path.join(HARNESS_SRC, "Cargo.lock") if INSTANCE and os.path.exists(os.path.join(HARNESS_SRC, "Cargo.lock")) else os.path.join(REPO, "Cargo.lock")
        shutil.copy(src_lock, lock)
    env = _cargo_env()
    p = subprocess.run(["cargo", "build", "--offline", "--quiet", "--bin", "rvh"], cwd=HARNESS_DIR, env=env,
                       stdout=subprocess.PIPE, stderr=subprocess.STDOUT, text=True)
    if p.returncode != 0:
        sys.stderr.write(p.stdout[-6000:])
        raise ToolError("harness build failed (does /repo still compile with --cfg %s?)" % GUARD)
    log("harness built in %.1fs" % (time.time() - t0))


def build_repo_bins():
    """Build /repo's own binaries with the hook guard on, into /verif/.build/repo."""
    t0 = time.time()
    env = _cargo_env()
    env["RUSTFLAGS"] = "--cfg %s" % GUARD
    env["CARGO_TARGET_DIR"] = REPO_TARGET
    p = subprocess.run(["cargo", "build", "--offline", "--quiet", "--bins"], cwd=REPO, env=env,
                       stdout=subprocess.PIPE, stderr=subprocess.STDOUT, text=True)
    if p.returncode != 0:
        sys.stderr.write(p.stdout[-6000:])
        raise ToolError("repo binaries build failed")
    log("repo binaries built in %.1fs" % (time.time() - t0))


# --------------------------------------------------------------------------------------
# TLC

class TlcResult:
    def __init__(self):
        self.generated = 0
        self.distinct = 0
        self.depth = 0
        self.ok = False
        self.violated = None       # name of violated invariant/property, if any
        self.error = None          # other error text
        self.prints = []           # decoded PrintT JSON objects
        self.raw = ""
        self.wall = 0.0
        self.coverage = {}


_RE_STATES = re.compile(r"(\d+) states generated, (\d+) distinct states found")
_RE_DEPTH = re.compile(r"The depth of the complete state graph search is (\d+)")
_RE_INV = re.compile(r"Error: Invariant (\S+) is violated")
_RE_PROP = re.compile(r"Error: (Temporal propert(?:y|ies) (\S+ )?w(?:as|ere) violated|Action property (\S+) is violated)")


def run_tlc(module, cfg, workdir_tag, workers=8, timeout=900, env=None, deque=False, xmx=None,
            simulate=None, depth=None, seed_val=None, coverage=False, collect_prints=True,
            print_sink=None, extra_args=None):
    """Run TLC on spec/<module>.tla with spec/<cfg>. Returns TlcResult.
    PrintT lines that are JSON strings are decoded into .prints (or passed to print_sink)."""
    os.makedirs(WORK, exist_ok=True)
    metadir = os.path.join(WORK, workdir_tag)
    shutil.rmtree(metadir, ignore_errors=True)
    os.makedirs(metadir, exist_ok=True)
    jopts = ["-XX:+UseParallelGC", "-Xss1g"]
    if xmx:
        jopts.append("-Xmx%s" % xmx)
    if deque:
        jopts.append("-Dtlc2.tool.queue.IStateQueue=StateDeque")
    cmd = ["java"] + jopts + ["-cp", TLA_CP, "tlc2.TLC", "-workers", str(workers), "-metadir", metadir,
                               "-cleanup", "-noGenerateSpecTE", "-config", cfg]
    if simulate:
        cmd += ["-simulate", "num=%d" % simulate]
    if depth:
        cmd += ["-depth", str(depth)]
    if seed_val is not None:
        cmd += ["-seed", str(seed_val)]
    if coverage:
        cmd += ["-coverage", "1"]
    if extra_args:
        cmd += extra_args
    cmd.append(module)
    e = dict(os.environ)
    e.pop("JAVA_TOOL_OPTIONS", None)
    if env:
        e.update(env)
    res = TlcResult()
    t0 = time.time()
    try:
        p = subprocess.Popen(cmd, cwd=SPEC, env=e, stdout=subprocess.PIPE, stderr=subprocess.STDOUT, text=True,
                             errors="replace")
    except OSError as ex:
        raise ToolError("cannot start TLC: %s" % ex)
    raw = []
    deadline = t0 + timeout
    try:
        for line in p.stdout:
            if line.startswith('"{') or line.startswith('"['):
                if collect_prints or print_sink:
                    try:
                        obj = json.loads(json.loads(line))
                    except ValueError:
                        raw.append(line)
                        continue
                    if print_sink:
                        print_sink(obj)
                    else:
                        res.prints.append(obj)
                continue
            if line.startswith("Linting") or line.startswith("Parsing file") or line.startswith("Semantic processing"):
                continue
            raw.append(line)
            if time.time() > deadline:
                p.kill()
                raise ToolError("TLC timeout after %ds on %s/%s" % (timeout, module, cfg))
        p.wait(timeout=max(1, deadline - time.time()))
    except subprocess.TimeoutExpired:
        p.kill()
        raise ToolError("TLC timeout after %ds on %s/%s" % (timeout, module, cfg))
    finally:
        shutil.rmtree(metadir, ignore_errors=True)
    res.wall = time.time() - t0
    res.raw = "".join(raw)
    for m in _RE_STATES.finditer(res.raw):
        res.generated, res.distinct = int(m.group(1)), int(m.group(2))
    m = _RE_DEPTH.search(res.raw)
    if m:
        res.depth = int(m.group(1))
    m = _RE_INV.search(res.raw)
    if m:
        res.violated = m.group(1)
    m = _RE_PROP.search(res.raw)
    if m and not res.violated:
        res.violated = (m.group(2) or m.group(3) or "temporal").strip()
    if "Model checking completed. No error has been found." in res.raw or (
            simulate and "Error:" not in res.raw and p.returncode == 0):
        res.ok = True
    elif not res.violated:
        errs = [l for l in res.raw.splitlines() if "Error" in l or "error" in l]
        res.error = "\n".join(errs[:8]) or ("TLC exit %s" % p.returncode)
    if coverage:
        res.coverage = parse_coverage(res.raw)
    return res


_RE_COV = re.compile(r"^<(\w+) line \d+, col \d+ to line \d+, col \d+ of module (\w+)>: (\d+):(\d+)", re.M)


def parse_coverage(raw):
    cov = {}
    for m in _RE_COV.finditer(raw):
        name = m.group(1)
        cov[name] = (int(m.group(3)), int(m.group(4)))   # last dump wins
    return cov


def expect_model_ok(res, what):
    """Stage 1 of every check: the model itself must satisfy its properties with the
    constants the property requires. A failure here is a tool error (it speaks about the
    model, not about the code)."""
    if not res.ok:
        sys.stderr.write(res.raw[-4000:])
        raise ToolError("model check failed for %s: violated=%s error=%s" % (what, res.violated, res.error))


def validate_trace(trace_module, cfg, trace_path, workdir_tag, timeout=600, extra_env=None, xmx="4g"):
    """Trace validation: TLC must be able to consume every event of the ndjson trace.
    The trace specs print a JSON object {"trace":"accepted"|"rejected", ...} from their
    POSTCONDITION. Returns (accepted: bool, info: dict, TlcResult)."""
    env = {"TRACE": trace_path}
    if extra_env:
        env.update(extra_env)
    res = run_tlc(trace_module, cfg, workdir_tag, workers=1, timeout=timeout, env=env, deque=True, xmx=xmx)
    verdict = None
    for o in res.prints:
        if isinstance(o, dict) and "trace" in o:
            # a verdict printed during the search (post = False) wins over the one of the POSTCONDITION
            if verdict is None or verdict.get("post", False) or not o.get("post", False):
                if verdict is None or verdict.get("post", False):
                    verdict = o
    if verdict is None:
        sys.stderr.write(res.raw[-4000:])
        raise ToolError("trace validation produced no verdict (%s/%s)" % (trace_module, cfg))
    return verdict.get("trace") == "accepted", verdict, res


# --------------------------------------------------------------------------------------
# harness

def run_harness(args, timeout=900, stdin_path=None, env=None, capture=True):
    """Run the Rust harness; returns list of JSON objects printed on stdout (one per line).
    The harness exits 0 normally (mismatches are data in its output) and 2 on its own errors."""
    e = dict(os.environ)
    e["RUST_BACKTRACE"] = "0"
    if env:
        e.update(env)
    t0 = time.time()
    stdin = open(stdin_path) if stdin_path else None
    try:
        p = subprocess.run([RVH] + [str(a) for a in args], stdin=stdin, stdout=subprocess.PIPE,
                           stderr=subprocess.PIPE, text=True, timeout=timeout, env=e, errors="replace")
    except subprocess.TimeoutExpired:
        raise ToolError("harness timeout: %s" % " ".join(map(str, args)))
    finally:
        if stdin:
            stdin.close()
    if p.returncode in (3, 4):
        for line in p.stderr.splitlines():
            if line.startswith("{") and ('"hang"' in line or '"unguarded_panic"' in line):
                try:
                    raise HangDetected(json.loads(line), args)
                except ValueError:
                    pass
    if p.returncode != 0:
        sys.stderr.write(p.stderr[-4000:])
        raise ToolError("harness failed (%d): %s" % (p.returncode, " ".join(map(str, args))))
    out = []
    for line in p.stdout.splitlines():
        line = line.strip()
        if not line.startswith("{"):
            continue
        try:
            out.append(json.loads(line))
        except ValueError:
            pass
    log("harness %s: %.1fs, %d records" % (" ".join(map(str, args[:3])), time.time() - t0, len(out)))
    for r in out:
        if r.get("rec") == "hang":
            raise HangDetected(r, args)
    return out


# --------------------------------------------------------------------------------------
# known findings, violations, evidence

def load_known_findings():
    path = os.path.join(VERIF, "known_findings.json")
    if not os.path.exists(path):
        return []
    with open(path) as f:
        return json.load(f)["findings"]


class Check:
    """Collects stage results, violations and coverage for one property run."""

    def __init__(self, pid, tier):
        self.pid = pid
        self.tier = tier
        self.t0 = time.time()
        self.seed = seed()
        self.violations = []       # (key, what, replay_obj)
        self.known_hits = []
        self.states = 0
        self.transitions = 0
        self.traces_validated = 0
        self.behaviours_replayed = 0
        self.evaluations = 0
        self.distinct = set()
        self.samples = []
        self.notes = []
        self.drift = []
        self.models = []
        self.assumptions = []
        self.exhaustive = False
        self.rule = ""
        self.known = [k for k in load_known_findings() if k.get("property") == pid]

    # -- accounting
    def add_model(self, name, res, constants=None):
        self.states += res.distinct
        self.transitions += res.generated
        self.models.append({"model": name, "distinct_states": res.distinct, "states_generated": res.generated,
                            "depth": res.depth, "wall_s": round(res.wall, 2), "constants": constants or {}})

    def count_case(self, abstract_case):
        self.evaluations += 1
        self.distinct.add(hashlib.sha1(json.dumps(abstract_case, sort_keys=True).encode()).hexdigest()[:16])

    def sample(self, obj, limit=4):
        if len(self.samples) < limit:
            self.samples.append(obj)

    # -- violations
    def violation(self, key, what, replay):
        """key: stable abstract signature of the failing case (used for known-findings matching)."""
        for k in self.known:
            if k.get("status") == "known" and k.get("key") == key:
                if key not in [h[0] for h in self.known_hits]:
                    self.known_hits.append((key, k.get("what", what)))
                return
        if any(v[0] == key for v in self.violations):
            return
        self.violations.append((key, what, replay))

    def finish(self, level="model_checking"):
        os.makedirs(EVIDENCE, exist_ok=True)
        for key, what in self.known_hits:
            print("KNOWN-FINDING: property=%s %s [%s]" % (self.pid, what, key), flush=True)
        rc = 0
        for key, what, replay in self.violations[:20]:
            os.makedirs(os.path.join(REPLAYS, self.pid), exist_ok=True)
            h = hashlib.sha1(key.encode()).hexdigest()[:12]
            path = os.path.join(REPLAYS, self.pid, "%s.json" % h)
            with open(path, "w") as f:
                json.dump({"property": self.pid, "key": key, "what": what, "tier": self.tier, "seed": self.seed,
                           "replay": replay}, f, indent=1, default=str)
            print("VIOLATION property=%s replay=%s" % (self.pid, path), flush=True)
            log("  violation:", what)
            rc = 1
        cov = {
            "states": self.states,
            "transitions": self.transitions,
            "traces_validated_against_impl": self.traces_validated,
            "behaviours_replayed_into_impl": self.behaviours_replayed,
            "evaluations": max(self.evaluations, 0),
            "distinct_nontrivial": len(self.distinct),
            "rule": self.rule,
            "samples": self.samples or [{"note": "no sample recorded"}],
            "exhaustive": self.exhaustive,
            "models": self.models,
            "drift_notes": self.drift[:20],
            "notes": self.notes[:40],
            "known_findings_hit": [k for k, _ in self.known_hits],
        }
        ev = {
            "property_id": self.pid,
            "tier": self.tier,
            "seed": self.seed,
            "level": level,
            "coverage": cov,
            "assumptions": self.assumptions,
            "wall_s": round(time.time() - self.t0, 2),
            "violations": len(self.violations),
        }
        with open(os.path.join(EVIDENCE, "%s.json" % self.pid), "w") as f:
            json.dump(ev, f, indent=1, default=str)
        log("%s %s: rc=%d states=%d transitions=%d replayed=%d traces=%d evals=%d distinct=%d wall=%.1fs" % (
            self.pid, self.tier, rc, self.states, self.transitions, self.behaviours_replayed,
            self.traces_validated, self.evaluations, len(self.distinct), time.time() - self.t0))
        return rc


def write_ndjson(path, records):
    os.makedirs(os.path.dirname(path), exist_ok=True)
    with open(path, "w") as f:
        for r in records:
            f.write(json.dumps(r, separators=(",", ":")))
            f.write("\n")


def workfile(pid, name):
    d = os.path.join(WORK, pid)
    os.makedirs(d, exist_ok=True)
    return os.path.join(d, name)


# --------------------------------------------------------------------------------------
# the standard three-stage pipeline used by most library-level checks

def stage_model_and_replay(c, suite, mc_module, mc_cfg, mismatch_key, workers=8, timeout=1800, sample_at=(3, 500),
                           harness_args=None, xmx=None):
    """(1) TLC checks the model and prints behaviours/cases; (2) the harness replays them into the real code.
    mismatch_key(record) -> (key, what) or None to ignore."""
    beh = workfile(c.pid, "%s_behaviours.ndjson" % suite)
    n = [0]
    with open(beh, "w") as f:
        def sink(o):
            f.write(json.dumps(o, separators=(",", ":")) + "\n")
            n[0] += 1
            if n[0] in sample_at:
                c.sample({"direction": "spec->code", "behaviour": o})
        res = run_tlc(mc_module, mc_cfg, "%s/mc_%s" % (c.pid, suite), workers=workers, timeout=timeout, print_sink=sink, xmx=xmx)
    expect_model_ok(res, "%s (%s)" % (mc_module, mc_cfg))
    c.add_model("%s/%s" % (mc_module, mc_cfg), res)
    out = run_harness([suite, "replay", "--in", beh, "--seed", c.seed, "--tier", c.tier] + (harness_args or []), timeout=timeout)
    summary = {}
    for r in out:
        if r.get("rec") == "summary":
            summary = r
            c.behaviours_replayed += r.get("executions", 0)
            c.evaluations += r.get("executions", 0)
        elif r.get("rec") == "mismatch":
            km = mismatch_key(r)
            if km:
                c.violation(km[0], km[1], {"direction": "spec->code", "mismatch": r})
    c.notes.append("spec->code %s: %d behaviours from TLC, harness summary %s" % (suite, n[0], json.dumps(summary)))
    return n[0], summary


def stage_record_and_validate(c, suite, trace_module, trace_cfg, classify, timeout=1800, xmx="6g", distinct_of=None,
                              sample_pred=None, harness_args=None, section_ev="new"):
    """(3) the harness records the real code; TLC validates every event (failing indices are collected).
    classify(event) -> (key, what) or None (event fails for a reason this property does not state)."""
    trace = workfile(c.pid, "%s_trace.ndjson" % suite)
    out = run_harness([suite, "record", "--seed", c.seed, "--tier", c.tier, "--out", trace] + (harness_args or []), timeout=timeout)
    ok, verdict, tres = validate_trace(trace_module, trace_cfg, trace, "%s/trace_%s" % (c.pid, suite), timeout=timeout, xmx=xmx)
    c.add_model(trace_module, tres)
    events = [json.loads(l) for l in open(trace)]
    if verdict.get("matched", len(events)) != len(events):
        raise ToolError("trace spec %s did not consume the whole trace (%s of %s)" % (trace_module, verdict.get("matched"), len(events)))
    c.evaluations += len(events)
    if distinct_of:
        for e in events:
            d = distinct_of(e)
            if d is not None:
                c.distinct.add(str(d))
    mine = 0
    for idx in (verdict.get("bad", []) if not ok else []):
        e = events[idx - 1]
        km = classify(e)
        if km:
            mine += 1
            c.violation(km[0], km[1], {"direction": "code->spec", "event_index": idx, "event": e, "trace": trace})
    sections = sum(1 for e in events if e.get("ev") == section_ev) or 1
    if mine == 0:
        c.traces_validated += sections
    if sample_pred:
        for e in events:
            if sample_pred(e):
                c.sample({"direction": "code->spec", "event": e})
                break
    c.notes.append("code->spec %s: %d events, %d rejected for this property (%d rejected in all)" % (
        suite, len(events), mine, verdict.get("nbad", 0) if not ok else 0))
    return events, out


# --------------------------------------------------------------------------------------
# binding self-test: a trace specification must reject a corrupted / shortened real trace

def binding_selftest(c, trace_module, trace_cfg, trace_path, mutate, tag, timeout=900, xmx="6g", single_object=False):
    """mutate(events) -> list of (name, mutated_events). Each mutated trace must be REJECTED by the trace
    specification; if one is accepted the specification does not bind the code (tool error)."""
    if single_object:
        events = [json.loads(open(trace_path).read())]
    else:
        events = [json.loads(l) for l in open(trace_path)]
    for name, mutated in mutate(events):
        p = workfile(c.pid, "selftest_%s_%s.ndjson" % (tag, name))
        write_ndjson(p, mutated)
        ok, verdict, tres = validate_trace(trace_module, trace_cfg, p, "%s/selftest_%s_%s" % (c.pid, tag, name), timeout=timeout, xmx=xmx)
        if ok:
            raise ToolError("binding self-test '%s' on %s: the corrupted trace was ACCEPTED" % (name, trace_module))
        c.notes.append("binding self-test %s/%s: corrupted trace rejected (%s)" % (trace_module, name, json.dumps(verdict.get("why", verdict.get("bad", "?")))[:160]))


# --------------------------------------------------------------------------------------
# Apalache (symbolic, bounded): used for inductive invariants

def run_apalache(module, cinit, init, inv, length, tag, timeout=900):
    """apalache-mc check on spec/<module>; returns "ok", "violation" or raises ToolError"""
    out_dir = os.path.join(WORK, tag)
    shutil.rmtree(out_dir, ignore_errors=True)
    os.makedirs(out_dir, exist_ok=True)
    cmd = ["apalache-mc", "check", "--out-dir=%s" % out_dir, "--cinit=%s" % cinit, "--init=%s" % init, "--inv=%s" % inv, "--length=%d" % length, module]
    t0 = time.time()
    try:
        p = subprocess.run(cmd, cwd=SPEC, stdout=subprocess.PIPE, stderr=subprocess.STDOUT, text=True, timeout=timeout)
    except subprocess.TimeoutExpired:
        raise ToolError("apalache timeout on %s" % module)
    finally:
        shutil.rmtree(out_dir, ignore_errors=True)
    log("apalache %s init=%s inv=%s length=%d: %.1fs" % (module, init, inv, length, time.time() - t0))
    if "EXITCODE: OK" in p.stdout:
        return "ok"
    if "Checker has found an error" in p.stdout or "EXITCODE: ERROR (12)" in p.stdout:
        return "violation"
    sys.stderr.write(p.stdout[-3000:])
    raise ToolError("apalache failed on %s" % module)


# --------------------------------------------------------------------------------------
# replay of a recorded violation

def replay_file(path, run):
    """Re-executes the check with the tier and seed recorded in the replay file (all drivers are deterministic
    functions of the seed) and reports whether the same abstract failing case (key) shows again."""
    r = json.load(open(path))
    print(json.dumps({"property": r["property"], "key": r["key"], "what": r["what"], "tier": r["tier"], "seed": r["seed"]}, indent=1))
    os.environ["VERIF_SEED"] = str(r["seed"])
    name = hashlib.sha1(r["key"].encode()).hexdigest()[:12] + ".json"
    target = os.path.join(REPLAYS, r["property"], name)
    t_start = time.time()
    rc = run(r["tier"] if r["tier"] in ("quick", "thorough") else "quick")
    again = rc == 1 and os.path.exists(target) and os.path.getmtime(target) >= t_start - 1
    if again:
        fresh = json.load(open(os.path.join(REPLAYS, r["property"], name)))
        again = fresh.get("key") == r["key"]
    print("REPLAY %s: the recorded failing case %s" % (r["property"], "shows again" if again else "does not show on the current tree"))
    return 1 if again else 0
