#!/bin/sh
# Build the verification framework from files on disk only (offline).
set -e
cd "$(dirname "$0")"
export CARGO_NET_OFFLINE=true
[ -f harness/Cargo.lock ] || cp /repo/Cargo.lock harness/Cargo.lock
(cd harness && cargo build --offline --quiet --bin rvh 2>&1 | tail -3)
(cd /repo && RUSTFLAGS="--cfg roughenough_verif" CARGO_TARGET_DIR=/verif/.build/repo cargo build --offline --quiet --bins 2>&1 | tail -3)
mkdir -p evidence .work replays
echo setup-ok
